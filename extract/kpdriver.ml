(* kpdriver.ml — trusted glue around the extracted model of the knapsack example (kpmodel.ml, from coq/theories/Knapsack.v).
     kpmodel <casefile>
   case file:  K cap n p1 w1 ... pn wn     the items IN THE ORDER IN WHICH THE SOLVER DECIDES THEM (Knapsack.v models the
                                           instance after Knapsack::new has sorted it; the harness reads the order off the code)
               Q v1 ... vk                 decisions on the first k variables: report the state reached, its domain, successors,
                                           costs and rough upper bound
               G v.. | v.. | ...           merge the states reached by several decision prefixes; compare the first two
   prints one line per input line, in the format of harness/src/kp.rs *)
module M = Kpmodel
let rec pos_of_int (n : int) : M.positive =
  if n = 1 then M.XH else if n land 1 = 0 then M.XO (pos_of_int (n lsr 1)) else M.XI (pos_of_int (n lsr 1))
let z_of_int (n : int) : M.z = if n = 0 then M.Z0 else if n > 0 then M.Zpos (pos_of_int n) else M.Zneg (pos_of_int (-n))
let rec nat_of_int (n : int) : M.nat = if n <= 0 then M.O else M.S (nat_of_int (n - 1))
let rec int_of_nat (n : M.nat) : int = match n with M.O -> 0 | M.S m -> 1 + int_of_nat m
let rec int_of_pos (p : M.positive) : int =
  match p with M.XH -> 1 | M.XO q -> 2 * int_of_pos q | M.XI q -> 2 * int_of_pos q + 1
let int_of_z (x : M.z) : int = match x with M.Z0 -> 0 | M.Zpos p -> int_of_pos p | M.Zneg p -> - (int_of_pos p)
let words l = List.filter (fun s -> s <> "") (String.split_on_char ' ' (String.trim l))
let starts_with p s = String.length s >= String.length p && String.sub s 0 (String.length p) = p
let read_lines f =
  let ic = open_in f in
  let rec go acc = match input_line ic with l -> go (l :: acc) | exception End_of_file -> close_in ic; List.rev acc in go []
let st_str (s : M.kstate) = Printf.sprintf "(%d,%d)" (int_of_nat s.M.k_depth) (int_of_z s.M.k_cap)

let () =
  let lines = read_lines Sys.argv.(1) in
  let inst = ref None in
  let reach ki vals =
    (* follow the decisions; None when one of them is outside the domain of its variable *)
    let pb = M.kp_problem ki in
    let rec go depth s value = function
      | [] -> Some (s, value)
      | v :: rest ->
        (match pb.M.next_variable (nat_of_int depth) [] with
         | None -> None
         | Some x ->
           if not (List.exists (fun y -> int_of_z y = v) (pb.M.domain x s)) then None
           else
             let d = { M.d_var = x; M.d_val = z_of_int v } in
             let s2 = pb.M.transition s d in
             go (depth + 1) s2 (value + int_of_z (pb.M.transition_cost s s2 d)) rest) in
    go 0 pb.M.init_state (int_of_z pb.M.init_value) vals in
  List.iter (fun l ->
    if starts_with "K " l then begin
      match List.map int_of_string (List.tl (words l)) with
      | cap :: n :: rest ->
        let rec items k r = if k = 0 then [] else (match r with p :: w :: r' -> (z_of_int p, z_of_int w) :: items (k - 1) r' | _ -> failwith "short") in
        let ki = { M.kp_cap = z_of_int cap; M.kp_items = items n rest } in
        inst := Some ki;
        Printf.printf "K wf=%b sorted=%b brute=%s\n" (M.kp_wfb ki) (M.sortedRb ki.M.kp_items)
          (if n <= 16 then (match M.kp_brute ki.M.kp_items ki.M.kp_cap with None -> "none" | Some v -> string_of_int (int_of_z v)) else "skipped")
      | _ -> failwith "bad K line"
    end else if starts_with "Q" l then begin
      let ki = match !inst with Some k -> k | None -> failwith "no instance" in
      let vals = List.map int_of_string (List.tl (words l)) in
      match reach ki vals with
      | None -> print_endline "Q invalid"
      | Some (s, value) ->
        let pb = M.kp_problem ki and rx = M.kp_relaxation ki in
        let depth = List.length vals in
        let (var, dom, succ) =
          match pb.M.next_variable (nat_of_int depth) [] with
          | None -> ("none", "", "")
          | Some x ->
            let dm = pb.M.domain x s in
            (string_of_int (int_of_nat x),
             String.concat "," (List.map (fun v -> string_of_int (int_of_z v)) dm),
             String.concat ";" (List.map (fun v ->
               let d = { M.d_var = x; M.d_val = v } in
               let s2 = pb.M.transition s d in
               Printf.sprintf "%d:%s:%d" (int_of_z v) (st_str s2) (int_of_z (pb.M.transition_cost s s2 d))) dm)) in
        Printf.printf "Q state=%s value=%d var=%s dom=[%s] succ=[%s] rub=%d\n" (st_str s) value var dom succ (int_of_z (rx.M.fast_upper_bound s))
    end else if starts_with "G" l then begin
      let ki = match !inst with Some k -> k | None -> failwith "no instance" in
      let body = String.sub l 1 (String.length l - 1) in
      let groups = List.map (fun g -> List.map int_of_string (words g)) (String.split_on_char '|' body) in
      let sts = List.map (fun g -> reach ki g) groups in
      if List.exists (fun o -> o = None) sts then print_endline "G invalid"
      else begin
        let sts = List.map (function Some (s, _) -> s | None -> assert false) sts in
        let rx = M.kp_relaxation ki in
        let mg = rx.M.merge sts in
        let cmp = match sts with a :: b :: _ -> (match M.kp_ranking a b with M.Lt -> "lt" | M.Eq -> "eq" | M.Gt -> "gt") | _ -> "na" in
        let relaxed = rx.M.relax mg mg mg { M.d_var = M.O; M.d_val = M.Z0 } (z_of_int 7) in
        Printf.printf "G merged=%s cmp=%s relax7=%d\n" (st_str mg) cmp (int_of_z relaxed)
      end
    end) lines
