(* mispdriver.ml — trusted glue around the extracted model of the misp example (mispmodel.ml, from coq/theories/Misp.v).
     mispmodel <casefile>
   case file:  P n m w_0 .. w_{n-1} a_1 b_1 .. a_m b_m   instance (0-based vertices)
               Q v:d v:d ...                             decide vertex v (d = 1 take, 0 leave) in that order from the initial state
               G q | q | ...                             merge the states reached by several such sequences
               N q | q | ...                             next_variable for the layer made of those states
   prints one line per input line, in the format of harness/src/misp.rs *)
module M = Mispmodel
let rec pos_of_int (n : int) : M.positive =
  if n = 1 then M.XH else if n land 1 = 0 then M.XO (pos_of_int (n lsr 1)) else M.XI (pos_of_int (n lsr 1))
let z_of_int (n : int) : M.z = if n = 0 then M.Z0 else if n > 0 then M.Zpos (pos_of_int n) else M.Zneg (pos_of_int (-n))
let rec nat_of_int (n : int) : M.nat = if n <= 0 then M.O else M.S (nat_of_int (n - 1))
let rec int_of_nat (n : M.nat) : int = match n with M.O -> 0 | M.S m -> 1 + int_of_nat m
let rec int_of_pos (p : M.positive) : int =
  match p with M.XH -> 1 | M.XO q -> 2 * int_of_pos q | M.XI q -> 2 * int_of_pos q + 1
let int_of_z (x : M.z) : int = match x with M.Z0 -> 0 | M.Zpos p -> int_of_pos p | M.Zneg p -> - (int_of_pos p)
let words l = List.filter (fun s -> s <> "") (String.split_on_char ' ' (String.trim l))
let starts_with p s = String.length s >= String.length p && String.sub s 0 (String.length p) = p
let read_lines f =
  let ic = open_in f in
  let rec go acc = match input_line ic with l -> go (l :: acc) | exception End_of_file -> close_in ic; List.rev acc in go []
let st_str g s = "[" ^ String.concat "," (List.map (fun u -> string_of_int (int_of_nat u)) (M.to_list g s)) ^ "]"
let parse_seq (t : string) : (int * bool) list =
  List.map (fun w -> match String.split_on_char ':' w with [v; d] -> (int_of_string v, d = "1") | _ -> failwith ("bad token " ^ w)) (words t)
let groups (l : string) : (int * bool) list list =
  List.map parse_seq (String.split_on_char '|' (String.sub l 1 (String.length l - 1)))

let () =
  let lines = read_lines Sys.argv.(1) in
  let inst = ref None in
  let reach g (q : (int * bool) list) =
    let rec go s value = function
      | [] -> Some (s, value)
      | (v, d) :: rest ->
        let vn = nat_of_int v in
        if not (List.mem d (M.m_dom s vn)) then None
        else go (M.m_trans g s vn d) (value + int_of_z (M.m_cost g vn d)) rest in
    go (M.m_init g) 0 q in
  List.iter (fun l ->
    if starts_with "P " l then begin
      match List.map int_of_string (List.tl (words l)) with
      | n :: m :: rest ->
        let rec take k r = if k = 0 then ([], r) else (match r with x :: r' -> let (a, b) = take (k - 1) r' in (x :: a, b) | [] -> failwith "short") in
        let (ws, rest) = take n rest in
        let rec edges k r = if k = 0 then [] else (match r with a :: b :: r' -> (nat_of_int a, nat_of_int b) :: edges (k - 1) r' | _ -> failwith "short") in
        let g = M.mk_graph (nat_of_int n) (List.map z_of_int ws) (edges m rest) in
        inst := Some (g, n);
        Printf.printf "P n=%d init=%s brute=%s\n" n (st_str g (M.m_init g))
          (if n <= 14 then string_of_int (int_of_z (M.best_enum g (M.m_init g))) else "skipped")
      | _ -> failwith "bad P line"
    end else if starts_with "Q" l then begin
      let (g, n) = match !inst with Some k -> k | None -> failwith "no instance" in
      match reach g (parse_seq (String.sub l 1 (String.length l - 1))) with
      | None -> print_endline "Q invalid"
      | Some (s, value) ->
        let doms = String.concat "|" (List.init n (fun v -> String.concat "" (List.map (fun b -> if b then "1" else "0") (M.m_dom s (nat_of_int v))))) in
        let imp = String.concat "" (List.init n (fun v -> if M.m_impacted s (nat_of_int v) then "1" else "0")) in
        Printf.printf "Q state=%s value=%d rub=%d dom=%s imp=%s\n" (st_str g s) value (int_of_z (M.m_rub g s)) doms imp
    end else if starts_with "G" l || starts_with "N" l then begin
      let (g, _) = match !inst with Some k -> k | None -> failwith "no instance" in
      let sts = List.map (reach g) (groups l) in
      if List.exists (function None -> true | Some _ -> false) sts then print_endline (String.sub l 0 1 ^ " invalid")
      else begin
        let sts = List.map (function Some (s, _) -> s | None -> assert false) sts in
        if starts_with "G" l then
          Printf.printf "G merged=%s relax7=%d\n" (st_str g (M.m_merge sts)) (int_of_z (M.m_relax (z_of_int 7)))
        else
          Printf.printf "N var=%s\n" (match M.m_next_var g sts with None -> "none" | Some v -> string_of_int (int_of_nat v))
      end
    end else if String.trim l <> "" then failwith ("bad line " ^ l)) lines
