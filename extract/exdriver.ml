(* exdriver.ml — trusted glue around the extracted example specifications (exmodel.ml, from coq/theories/ExSpec.v).

     exoracle <example> <instance-file>      prints   OPT <value>   or   OPT none

   For every example this file contains a small, independent reader of the example's input format (written from
   the format, not from the Rust reader: it cross-checks the Rust parsers) and the conversion of the instance data
   to the extracted inductive types.  The optimum itself is computed by the extracted Coq function only. *)
module M = Exmodel

(* ---------------------------------------------------------------- conversions *)
let rec pos_of_int (n : int) : M.positive =
  if n = 1 then M.XH else if n land 1 = 0 then M.XO (pos_of_int (n lsr 1)) else M.XI (pos_of_int (n lsr 1))
let z_of_int (n : int) : M.z = if n = 0 then M.Z0 else if n > 0 then M.Zpos (pos_of_int n) else M.Zneg (pos_of_int (-n))
let rec nat_of_int (n : int) : M.nat = if n <= 0 then M.O else M.S (nat_of_int (n - 1))
let rec int_of_pos (p : M.positive) : int =
  match p with M.XH -> 1 | M.XO q -> 2 * int_of_pos q | M.XI q -> 2 * int_of_pos q + 1
let int_of_z (x : M.z) : int = match x with M.Z0 -> 0 | M.Zpos p -> int_of_pos p | M.Zneg p -> - (int_of_pos p)

(* ---------------------------------------------------------------- text helpers *)
let read_lines (f : string) : string list =
  let ic = open_in f in
  let rec go acc = match input_line ic with l -> go (l :: acc) | exception End_of_file -> close_in ic; List.rev acc in
  go []

let is_space c = c = ' ' || c = '\t' || c = '\r' || c = '\n'
let words (l : string) : string list =
  let n = String.length l in
  let rec go i acc =
    if i >= n then List.rev acc
    else if is_space l.[i] then go (i + 1) acc
    else begin
      let j = ref i in
      while !j < n && not (is_space l.[!j]) do incr j done;
      go !j (String.sub l i (!j - i) :: acc)
    end in
  go 0 []
let ints (l : string) : int list = List.map int_of_string (words l)
let blank l = words l = []
let nonblank ls = List.filter (fun l -> not (blank l)) ls
let starts_with p s = String.length s >= String.length p && String.sub s 0 (String.length p) = p
let contains (s : string) (sub : string) : bool =
  let n = String.length s and m = String.length sub in
  let rec go i = i + m <= n && (String.sub s i m = sub || go (i + 1)) in
  go 0
let rec take n l = if n <= 0 then [] else match l with [] -> failwith "instance too short" | x :: r -> x :: take (n - 1) r
let rec drop n l = if n <= 0 then l else match l with [] -> failwith "instance too short" | _ :: r -> drop (n - 1) r
let zmatrix (rows : int list list) : M.z list list = List.map (List.map z_of_int) rows

let answer (r : M.z option) =
  match r with None -> print_endline "OPT none" | Some v -> Printf.printf "OPT %d\n" (int_of_z v)

(* ---------------------------------------------------------------- 1. knapsack
   comment lines start with 'c'; "n capacity"; then n lines "profit weight" *)
let knapsack file =
  let ls = List.filter (fun l -> not (starts_with "c" l)) (read_lines file) in
  match ls with
  | [] -> failwith "empty"
  | h :: rest ->
    (match ints h with
     | [n; cap] ->
       let items = List.map (fun l -> match ints l with [p; w] -> (z_of_int p, z_of_int w) | _ -> failwith "item") (take n rest) in
       answer (M.knapsack_opt (z_of_int cap) items)
     | _ -> failwith "header")

(* ---------------------------------------------------------------- 2. misp (DIMACS graph)
   "c ..." comment, "p edge N M", "n <vertex> <weight>" (default weight 1), "e <u> <v>"; vertices are 1-based *)
let misp file =
  let n = ref 0 and weights = ref [||] and edges = ref [] in
  List.iter (fun l ->
      match words l with
      | [] -> ()
      | "c" :: _ -> ()
      | ["p"; "edge"; nv; _] -> n := int_of_string nv; weights := Array.make !n 1
      | "n" :: v :: w :: _ -> (!weights).(int_of_string v - 1) <- int_of_string w
      | "e" :: u :: v :: _ -> edges := (nat_of_int (int_of_string u - 1), nat_of_int (int_of_string v - 1)) :: !edges
      | _ -> failwith ("misp: bad line " ^ l)) (read_lines file);
  answer (M.misp_opt (List.map z_of_int (Array.to_list !weights)) (List.rev !edges))

(* ---------------------------------------------------------------- 3. max2sat (wcnf)
   "c ..." comment, "p wcnf N M", clause lines "<weight> <lit> [<lit>] 0" (anything after the 0 is ignored) *)
let max2sat file =
  let n = ref 0 and clauses = ref [] in
  List.iter (fun l ->
      match words l with
      | [] -> ()
      | "c" :: _ -> ()
      | "p" :: "wcnf" :: nv :: _ -> n := int_of_string nv
      | w :: x :: "0" :: _ -> let x = int_of_string x in clauses := (z_of_int (int_of_string w), (z_of_int x, z_of_int x)) :: !clauses
      | w :: x :: y :: "0" :: _ ->
        clauses := (z_of_int (int_of_string w), (z_of_int (int_of_string x), z_of_int (int_of_string y))) :: !clauses
      | _ -> failwith ("max2sat: bad line " ^ l)) (read_lines file);
  answer (M.max2sat_opt (nat_of_int !n) (List.rev !clauses))

(* ---------------------------------------------------------------- 4. mcp
   "c ..." comment, "N M", edge lines "<u> <v> <w>"; vertices are 1-based *)
let mcp file =
  let n = ref 0 and edges = ref [] in
  List.iter (fun l ->
      match words l with
      | [] -> ()
      | "c" :: _ -> ()
      | [nv; _] -> n := int_of_string nv
      | [u; v; w] -> edges := ((nat_of_int (int_of_string u - 1), nat_of_int (int_of_string v - 1)), z_of_int (int_of_string w)) :: !edges
      | _ -> failwith ("mcp: bad line " ^ l)) (read_lines file);
  answer (M.mcp_opt (nat_of_int !n) (List.rev !edges))

(* ---------------------------------------------------------------- 5. lcs
   "nb_strings alphabet_size", then one line "<length> <string>" per string.  Characters are renamed to
   0,1,2,.. (an injective renaming: only equality of characters matters) *)
let lcs file =
  match nonblank (read_lines file) with
  | [] -> failwith "empty"
  | h :: rest ->
    let ns = List.hd (ints h) in
    let strs = List.map (fun l -> match words l with [_; s] -> s | _ -> failwith "lcs: bad line") (take ns rest) in
    let code = Array.make 256 (-1) in
    List.iter (String.iter (fun c -> code.(Char.code c) <- 0)) strs;
    let k = ref 0 in
    Array.iteri (fun i v -> if v = 0 then begin code.(i) <- !k; incr k end) code;
    let conv s = List.init (String.length s) (fun i -> nat_of_int code.(Char.code s.[i])) in
    answer (M.lcs_opt (List.map conv strs))

(* ---------------------------------------------------------------- 6. golomb: the file holds the number of marks *)
let golomb file =
  match nonblank (read_lines file) with
  | h :: _ -> answer (M.golomb_opt (nat_of_int (List.hd (ints h))))
  | [] -> failwith "empty"

(* ---------------------------------------------------------------- 7. sop (TSPLIB)
   header lines up to EDGE_WEIGHT_SECTION, then N, then the N x N matrix (one row per line) *)
let sop file =
  let rec skip = function
    | [] -> failwith "no EDGE_WEIGHT_SECTION"
    | l :: r -> if contains l "EDGE_WEIGHT_SECTION" then r else skip r in
  match skip (read_lines file) with
  | [] -> failwith "no dimension"
  | h :: rest ->
    let n = List.hd (ints h) in
    answer (M.sop_opt (zmatrix (List.map ints (take n rest))))

(* ---------------------------------------------------------------- 8. tsptw
   '#' comments and blank lines skipped; N; N matrix rows; N lines "earliest latest".
   All numbers are decimal numbers read as IEEE binary32 and counted in units of 1/10000 (truncated), which is how
   the format is defined by the example (distances "x 10000" as integers). *)
let f32 (x : float) : float = Int32.float_of_bits (Int32.bits_of_float x)
let fixed4 (s : string) : int =
  let v = f32 (f32 (float_of_string s) *. 10000.0) in
  if v <= 0.0 then 0 else int_of_float v
let tsptw file =
  let ls = List.filter (fun l -> not (blank l) && not (starts_with "#" (String.trim l))) (read_lines file) in
  match ls with
  | [] -> failwith "empty"
  | h :: rest ->
    let n = List.hd (ints h) in
    let d = List.map (fun l -> List.map fixed4 (words l)) (take n rest) in
    let tw = List.map (fun l -> match words l with e :: l :: _ -> (z_of_int (fixed4 e), z_of_int (fixed4 l)) | _ -> failwith "tw")
        (take n (drop n rest)) in
    answer (M.tsptw_opt (zmatrix d) tw)

(* ---------------------------------------------------------------- 9. srflp
   blank lines skipped, ',' is a separator; N; the N lengths; the N x N flow matrix.
   Files whose path contains "Cl" are "clearance" instances: every length is increased by 10.
   The specification returns twice the objective; it is printed as a decimal with an optional ".5". *)
let srflp file =
  let ls = List.map (String.map (fun c -> if c = ',' then ' ' else c)) (nonblank (read_lines file)) in
  match ls with
  | h :: l :: rest ->
    let n = List.hd (ints h) in
    let clearance = contains file "Cl" in
    let lens = List.map (fun x -> if clearance then x + 10 else x) (take n (ints l)) in
    let flows = List.map (fun r -> take n (ints r)) (take n rest) in
    (match M.srflp_opt2 (List.map z_of_int lens) (zmatrix flows) with
     | None -> print_endline "OPT none"
     | Some v -> let v = int_of_z v in
       if v land 1 = 0 then Printf.printf "OPT %d\n" (v / 2) else Printf.printf "OPT %d.5\n" (v / 2))
  | _ -> failwith "srflp: too short"

(* ---------------------------------------------------------------- 10. talentsched
   first line = name; blank lines skipped; "nb_scenes [nb_actors]" (nb_actors possibly on its own line);
   one line per actor: nb_scenes presence flags then the cost; then the scene durations *)
let talentsched file =
  match read_lines file with
  | [] -> failwith "empty"
  | _ :: body ->
    let toks = List.concat_map ints (nonblank body) in
    (match toks with
     | ns :: na :: rest ->
       let rec actors k rest acc =
         if k = 0 then (List.rev acc, rest)
         else begin
           let flags = take ns rest in
           let rest = drop ns rest in
           actors (k - 1) (List.tl rest) ((z_of_int (List.hd rest), List.map (fun f -> f = 1) flags) :: acc)
         end in
       let (acts, rest) = actors na rest [] in
       answer (M.talent_opt (List.map z_of_int (take ns rest)) acts)
     | _ -> failwith "talentsched: too short")

(* ---------------------------------------------------------------- 11. psp
   nb_periods / nb_items / nb_orders / blank / changeover matrix / blank / stocking costs / blank /
   demand matrix (one row per item, one column per period) / blank / (known optimum, ignored) *)
let psp file =
  let ls = read_lines file in
  let rec blocks cur acc = function
    | [] -> List.rev (if cur = [] then acc else List.rev cur :: acc)
    | l :: r -> if blank l then blocks [] (if cur = [] then acc else List.rev cur :: acc) r else blocks (l :: cur) acc r in
  match blocks [] [] ls with
  | [t; ni; _] :: change :: [stock] :: dem :: _ ->
    let t = List.hd (ints t) and ni = List.hd (ints ni) in
    answer (M.psp_opt (nat_of_int t) (nat_of_int ni) (zmatrix (List.map ints change)) (List.map z_of_int (ints stock))
              (zmatrix (List.map ints dem)))
  | _ -> failwith "psp: unexpected layout"

(* ---------------------------------------------------------------- 12. alp
   a flat sequence of integers: nb_aircraft nb_classes nb_runways, then (target latest class) per aircraft,
   then the nb_classes x nb_classes separation matrix *)
let alp file =
  match List.concat_map ints (read_lines file) with
  | n :: nc :: nr :: rest ->
    let rec acs k rest acc =
      if k = 0 then (List.rev acc, rest)
      else match rest with
        | t :: l :: c :: r -> acs (k - 1) r (((z_of_int t, z_of_int l), nat_of_int c) :: acc)
        | _ -> failwith "alp: too short" in
    let (ac, rest) = acs n rest [] in
    let rec rows k rest acc = if k = 0 then List.rev acc else rows (k - 1) (drop nc rest) (take nc rest :: acc) in
    answer (M.alp_opt (nat_of_int nr) ac (zmatrix (rows nc rest [])))
  | _ -> failwith "alp: too short"

let () =
  if Array.length Sys.argv < 3 then begin prerr_endline "usage: exoracle <example> <instance-file>"; exit 2 end;
  let file = Sys.argv.(2) in
  match Sys.argv.(1) with
  | "knapsack" -> knapsack file
  | "misp" -> misp file
  | "max2sat" -> max2sat file
  | "mcp" -> mcp file
  | "lcs" -> lcs file
  | "golomb" -> golomb file
  | "sop" -> sop file
  | "tsptw" -> tsptw file
  | "srflp" -> srflp file
  | "talentsched" -> talentsched file
  | "psp" -> psp file
  | "alp" -> alp file
  | e -> prerr_endline ("unknown example " ^ e); exit 2
