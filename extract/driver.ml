(* driver.ml — trusted glue around the extracted Coq model (model.ml).
   Reads the same case files as harness/src/*.rs and prints the model's answer in the same
   canonical format. Parsing, printing and Z <-> text conversion only; no modelling here. *)
open Model
type ostr = Stdlib.String.t
let max = Stdlib.max
let compare = Stdlib.compare
let not = Stdlib.not
let ignore = Stdlib.ignore

(* ---------------------------------------------------------------- conversions *)
let rec pos_of_int (n : int) : positive =
  if n = 1 then XH else if n land 1 = 0 then XO (pos_of_int (n lsr 1)) else XI (pos_of_int (n lsr 1))
let z_of_int (n : int) : z = if n = 0 then Z0 else if n > 0 then Zpos (pos_of_int n) else Zneg (pos_of_int (-n))
let ten = z_of_int 10
let z_of_string (s : ostr) : z =
  let neg = String.length s > 0 && s.[0] = '-' in
  let start = if neg then 1 else 0 in
  let acc = ref Z0 in
  for i = start to String.length s - 1 do
    acc := Z.add (Z.mul !acc ten) (z_of_int (Char.code s.[i] - 48))
  done;
  if neg then Z.opp !acc else !acc
let rec nat_of_int (n : int) : nat = if n <= 0 then O else S (nat_of_int (n - 1))
let rec int_of_nat (n : nat) : int = match n with O -> 0 | S m -> 1 + int_of_nat m
let rec int_of_pos (p : positive) : int = match p with XH -> 1 | XO q -> 2 * int_of_pos q | XI q -> 2 * int_of_pos q + 1
let int_of_z (x : z) : int = match x with Z0 -> 0 | Zpos p -> int_of_pos p | Zneg p -> - (int_of_pos p)

let char_of_ascii (a : ascii) : char =
  let Ascii (b0, b1, b2, b3, b4, b5, b6, b7) = a in
  let b x i = if x then 1 lsl i else 0 in
  Char.chr (b b0 0 + b b1 1 + b b2 2 + b b3 3 + b b4 4 + b b5 5 + b b6 6 + b b7 7)
let ocaml_string (s : Model.string) =
  let buf = Buffer.create 256 in
  let rec go s = match s with EmptyString -> () | String (a, r) -> Buffer.add_char buf (char_of_ascii a); go r in
  go s; Buffer.contents buf
let string_of_z (x : z) = ocaml_string (NilZero.string_of_int (Z.to_int x))
let string_of_nat (n : nat) = string_of_int (int_of_nat n)
let opt_str f = function None -> "none" | Some x -> f x

let tokens (l : ostr) : ostr list = List.filter (fun s -> s <> "") (String.split_on_char ' ' (String.trim l))
let read_lines (f : ostr) : ostr list =
  let ic = open_in f in
  let rec go acc = match input_line ic with l -> go (l :: acc) | exception End_of_file -> close_in ic; List.rev acc in
  go []
let starts_with (p : ostr) (s : ostr) = String.length s >= String.length p && String.sub s 0 (String.length p) = p

(* a cursor over an int-token array *)
type cur = { toks : ostr array; mutable p : int }
let mk_cur l = { toks = Array.of_list (List.tl (tokens l)); p = 0 }
let more c = c.p < Array.length c.toks
let next_s c = let s = c.toks.(c.p) in c.p <- c.p + 1; s
let next_z c = z_of_string (next_s c)
let next_i c = int_of_string (next_s c)
let next_n c = nat_of_int (next_i c)
let next_b c = next_i c <> 0

(* ---------------------------------------------------------------- gap / width *)
let run_gap_cmd lines =
  List.iter (fun l -> if starts_with "G " l then begin
    let c = mk_cur l in let lb = next_z c in let ub = next_z c in
    match run_gap lb ub with None -> print_endline "G nan" | Some b -> print_endline ("G " ^ string_of_z b) end) lines

let run_width_cmd release lines =
  List.iter (fun l -> if starts_with "W " l then begin
    let c = mk_cur l in let kind = next_z c in let k = next_z c in let inner = next_z c in
    let r = if release then run_width_release kind k inner else run_width kind k inner in
    match r with None -> print_endline "W CRASH" | Some w -> print_endline ("W " ^ string_of_z w) end) lines

(* ---------------------------------------------------------------- cache *)
let dump_cache (c : zcache) nstates ndepth =
  let buf = Buffer.create 64 in
  let ok = ref true in
  for d = 0 to ndepth - 1 do
    for st = 0 to nstates - 1 do
      (match zc_get c (z_of_int st) (nat_of_int d) with
       | None -> ok := false
       | Some None -> Buffer.add_char buf '-'
       | Some (Some t) -> Buffer.add_string buf (string_of_z t.th_value ^ (if t.th_explored then "e" else "n")));
      Buffer.add_char buf ','
    done
  done;
  if !ok then Some (Buffer.contents buf) else None

let spec_dump (ops : z cop list) nstates ndepth =
  let buf = Buffer.create 64 in
  for d = 0 to ndepth - 1 do
    for st = 0 to nstates - 1 do
      (match zc_spec_get ops (z_of_int st) (nat_of_int d) with
       | None -> Buffer.add_char buf '-'
       | Some t -> Buffer.add_string buf (string_of_z t.th_value ^ (if t.th_explored then "e" else "n")));
      Buffer.add_char buf ','
    done
  done;
  Buffer.contents buf

let run_cache_cmd lines =
  List.iter (fun l -> if starts_with "C " l then begin
    let c = mk_cur l in let nvars = next_i c in let nstates = next_i c in
    let cache = ref (Some (zc_init (nat_of_int nvars))) in
    let res = Buffer.create 256 in
    let spec = Buffer.create 256 in
    let ops = ref [] in
    while more c && !cache <> None do
      let ch = match !cache with Some x -> x | None -> assert false in
      (match next_i c with
       | 1 -> let s = next_z c in let d = next_n c in let v = next_z c in let e = next_b c in
              ops := !ops @ [OpUpdate (s, d, v, e)]; cache := zc_update ch s d v e
       | 2 -> let d = next_n c in ops := !ops @ [OpClearLayer d]; cache := zc_clear_layer ch d
       | 3 -> ops := !ops @ [OpClear]; cache := Some (zc_clear ch)
       | 4 -> let s = next_z c in let d = next_n c in let v = next_z c in
              (match zc_must_explore ch s d v with
               | None -> cache := None
               | Some b -> Buffer.add_string res (if b then "m1 " else "m0 ");
                           (* specification of must_explore from the specified threshold *)
                           let sb = (match zc_spec_get !ops s d with
                                     | None -> true
                                     | Some t -> (match Z.compare v t.th_value with
                                                  | Gt -> true | Eq -> not t.th_explored | Lt -> false)) in
                           Buffer.add_string spec (if sb then "m1 " else "m0 "))
       | _ -> failwith "bad cache op");
      (match !cache with
       | None -> ()
       | Some ch -> (match dump_cache ch nstates (nvars + 1) with
                     | None -> cache := None
                     | Some s -> Buffer.add_string res s; Buffer.add_char res '|';
                                 Buffer.add_string spec (spec_dump !ops nstates (nvars + 1)); Buffer.add_char spec '|'))
    done;
    match !cache with None -> print_endline "C CRASH" | Some _ -> print_endline ("C " ^ Buffer.contents res ^ " ## " ^ Buffer.contents spec) end) lines

(* final state reached by applying all updates of a concurrent phase in the given order *)
let run_cache_par_cmd lines =
  List.iter (fun l -> if starts_with "P " l then begin
    let c = mk_cur l in let nvars = next_i c in let nstates = next_i c in let _nthreads = next_i c in
    let cache = ref (zc_init (nat_of_int nvars)) in
    while more c do
      let s = next_z c in let d = next_n c in let v = next_z c in let e = next_b c in
      (match zc_update !cache s d v e with Some x -> cache := x | None -> failwith "crash")
    done;
    match dump_cache !cache nstates (nvars + 1) with
    | Some s -> print_endline ("P MONO1 " ^ s) | None -> print_endline "P CRASH" end) lines

(* ---------------------------------------------------------------- dominance *)
let ord_str = function Lt -> "L" | Eq -> "E" | Gt -> "G"
let read_coords c nc = List.init nc (fun _ -> next_z c)
let run_dom_cmd lines =
  List.iter (fun l -> if starts_with "D " l then begin
    let c = mk_cur l in let usev = next_b c in let nc = next_i c in let nvars = next_i c in
    let nd = nat_of_int nc in
    let store = ref (Some (zd_init (nat_of_int nvars))) in
    let res = Buffer.create 256 in
    let spec = Buffer.create 256 in
    (* history of presented (state, value) per (depth, key) since the layer was last cleared *)
    let hist : ((int * ostr) * ((z option * z list) * z) list) list ref = ref [] in
    while more c && !store <> None do
      let st = match !store with Some x -> x | None -> assert false in
      (match next_i c with
       | 1 -> let k = next_z c in let key = (match k with Zneg _ -> None | _ -> Some k) in
              let depthi = next_i c in let depth = nat_of_int depthi in
              let coords = read_coords c nc in let value = next_z c in
              (match key with
               | None -> Buffer.add_string spec "0 "
               | Some kz ->
                   let hk = (depthi, string_of_z kz) in
                   let h = (try List.assoc hk !hist with Not_found -> []) in
                   Buffer.add_string spec (if zd_spec_dominated nd usev h (key, coords) value then "1 " else "0 ");
                   hist := (hk, h @ [((key, coords), value)]) :: List.remove_assoc hk !hist);
              (match zd_query nd usev st (key, coords) depth value with
               | None -> store := None
               | Some (st', r) -> store := Some st';
                  if r.dc_dominated then Buffer.add_string res ("1:" ^ opt_str string_of_z r.dc_threshold ^ " ")
                  else Buffer.add_string res ("0" ^ (match r.dc_threshold with None -> "" | Some t -> ":" ^ string_of_z t) ^ " "))
       | 2 -> let di = next_i c in let d = nat_of_int di in
              hist := List.filter (fun ((dd, _), _) -> dd <> di) !hist;
              Buffer.add_string spec "- ";
              (match zd_clear_layer st d with None -> store := None | Some s -> store := Some s; Buffer.add_string res "- ")
       | 3 -> let ka = next_z c in let ca = read_coords c nc in let va = next_z c in
              let kb = next_z c in let cb = read_coords c nc in let vb = next_z c in
              let a = (Some ka, ca) and b = (Some kb, cb) in
              let cm = zd_cmp nd usev a va b vb in
              let ps = (match zd_partial_cmp nd usev a va b vb with
                        | None -> "N0" | Some r -> ord_str r.d_ord ^ (if r.d_ovd then "1" else "0")) in
              Buffer.add_string res ("c" ^ ord_str cm ^ ":p" ^ ps ^ " ");
              Buffer.add_string spec "c "
       | _ -> failwith "bad dom op")
    done;
    match !store with None -> print_endline "D CRASH"
    | Some _ -> print_endline ("D " ^ String.trim (Buffer.contents res) ^ " ## " ^ String.trim (Buffer.contents spec)) end) lines

(* concurrent phase: the model inserts sequentially in the given order (any order gives the same answers
   to the probes — theorem C18/C10), then answers the probes in order *)
let run_dom_par_cmd lines =
  List.iter (fun l -> if starts_with "Q " l then begin
    let toks = Array.of_list (List.tl (tokens l)) in
    let bar = ref 0 in Array.iteri (fun i t -> if t = "|" then bar := i) toks;
    let head = { toks = Array.sub toks 0 !bar; p = 0 } in
    let probes = { toks = Array.sub toks (!bar + 1) (Array.length toks - !bar - 1); p = 0 } in
    let usev = next_b head in let nc = next_i head in let _ = next_i head in
    let nd = nat_of_int nc in
    let store = ref (zd_init O) in
    let q c = let k = next_z c in let coords = read_coords c nc in let v = next_z c in
      match zd_query nd usev !store (Some k, coords) O v with
      | None -> failwith "crash" | Some (s, r) -> store := s; r.dc_dominated in
    while more head do ignore (q head) done;
    let res = Buffer.create 64 in
    while more probes do Buffer.add_string res (if q probes then "1 " else "0 ") done;
    print_endline ("Q " ^ String.trim (Buffer.contents res)) end) lines

(* ---------------------------------------------------------------- fringe *)
let dec_str (p : decision list) =
  String.concat ";" (List.map (fun d -> string_of_nat d.d_var ^ "=" ^ string_of_z d.d_val) p)
let zsp_str (sp : z subproblem) =
  Printf.sprintf "(%s,%s,%s,%s,[%s])" (string_of_z sp.sp_state) (string_of_nat sp.sp_depth) (string_of_z sp.sp_value)
    (string_of_z sp.sp_ub) (dec_str sp.sp_path)
let parse_push c =
  let st = next_z c in let depth = next_n c in let value = next_z c in let ub = next_z c in let tag = next_z c in
  { sp_state = st; sp_value = value; sp_path = [ { d_var = O; d_val = tag } ]; sp_ub = ub; sp_depth = depth }

(* generic runner over a fringe model given by (empty, push, pop, len) *)
let run_fringe_generic empty push pop len lines =
  List.iter (fun l -> if starts_with "F " l then begin
    let c = mk_cur l in let kind = next_i c in
    if kind = 1 then begin
      let f = ref (Some empty) in
      let res = Buffer.create 256 in
      while more c && !f <> None do
        let fr = match !f with Some x -> x | None -> assert false in
        (match next_i c with
         | 1 -> let sp = parse_push c in
                (match push fr sp with None -> f := None | Some fr' -> f := Some fr'; Buffer.add_string res (string_of_nat (len fr') ^ " "))
         | 2 -> (match pop fr with
                 | None -> f := None
                 | Some (fr', r) -> f := Some fr';
                    Buffer.add_string res (string_of_nat (len fr') ^ ":" ^ (match r with None -> "-" | Some sp -> zsp_str sp) ^ " "))
         | 3 -> f := Some empty; Buffer.add_string res "0 "
         | _ -> failwith "bad fringe op")
      done;
      match !f with None -> print_endline "F CRASH" | Some _ -> print_endline ("F " ^ String.trim (Buffer.contents res))
    end else print_endline "F SKIP" end) lines

let run_fringe_cmd lines = run_fringe_generic zf_empty zf_push zf_pop zf_len lines
let run_fringe0_cmd lines = run_fringe_generic zf0_empty zf0_push zf0_pop (fun f -> Model.length f.nd_heap) lines

(* the PROPERTY oracle for both fringes: replays the implementation's answers against the abstract priority queue
   (a multiset of sub-problems; the duplicate-free variant coalesces entries with the same (state, depth));
   every pop must return an element of the queue that is maximal for MaxUB, every length must be the queue's size.
   usage: fringecheck <casefile> <impl output file> ; prints one OK / BAD line per case *)
let same_sp (a : z subproblem) (b : z subproblem) =
  Z.compare a.sp_state b.sp_state = Eq && Z.compare a.sp_value b.sp_value = Eq && Z.compare a.sp_ub b.sp_ub = Eq
  && int_of_nat a.sp_depth = int_of_nat b.sp_depth
  && (match a.sp_path, b.sp_path with [x], [y] -> Z.compare x.d_val y.d_val = Eq | _ -> false)
let rec remove_first p = function [] -> None | x :: r -> if p x then Some r else (match remove_first p r with None -> None | Some r' -> Some (x :: r'))
let parse_popped (tok : ostr) : (int * z subproblem option) option =
  (* "<len>:-" or "<len>:(state,depth,value,ub,[0=tag])" *)
  match String.index_opt tok ':' with
  | None -> None
  | Some i ->
      let len = int_of_string (String.sub tok 0 i) in
      let rest = String.sub tok (i + 1) (String.length tok - i - 1) in
      if rest = "-" then Some (len, None)
      else begin
        let inner = String.sub rest 1 (String.length rest - 2) in
        match String.split_on_char ',' inner with
        | [st; d; v; ub; p] ->
            let tag = String.sub p 3 (String.length p - 4) in
            Some (len, Some { sp_state = z_of_string st; sp_depth = nat_of_int (int_of_string d); sp_value = z_of_string v;
                              sp_ub = z_of_string ub; sp_path = [ { d_var = O; d_val = z_of_string tag } ] })
        | _ -> None
      end
let run_fringecheck_cmd lines (implfile : ostr) =
  let impl = Array.of_list (List.filter (fun l -> starts_with "F " l) (read_lines implfile)) in
  let k = ref 0 in
  List.iter (fun l -> if starts_with "F " l then begin
    let c = mk_cur l in let kind = next_i c in
    let out = impl.(!k) in incr k;
    let toks = Array.of_list (List.tl (tokens out)) in
    let q = ref [] in
    let bad = ref None in
    let t = ref 0 in
    let fail i msg = if !bad = None then bad := Some (Printf.sprintf "op %d: %s" i msg) in
    if out = "F CRASH" then print_endline "BAD fringe panics"
    else begin
      let opi = ref 0 in
      (try
        while more c do
          let tok = if !t < Array.length toks then toks.(!t) else "" in
          incr t;
          (match next_i c with
           | 1 -> let sp = parse_push c in
                  (if kind = 1 then begin
                     match remove_first (fun (y : z subproblem) -> Z.compare y.sp_state sp.sp_state = Eq && int_of_nat y.sp_depth = int_of_nat sp.sp_depth) !q with
                     | Some rest ->
                         let old = List.find (fun (y : z subproblem) -> Z.compare y.sp_state sp.sp_state = Eq && int_of_nat y.sp_depth = int_of_nat sp.sp_depth) !q in
                         q := zq_coalesce old sp :: rest
                     | None -> q := sp :: !q
                   end else q := sp :: !q);
                  if tok <> string_of_int (List.length !q) then fail !opi ("length " ^ tok ^ " after push, queue holds " ^ string_of_int (List.length !q))
           | 2 -> (match parse_popped tok with
                   | None -> fail !opi ("unparsable pop answer " ^ tok)
                   | Some (len, None) -> if !q <> [] then fail !opi "pop returned nothing although the queue is not empty"
                                         else if len <> 0 then fail !opi "length not 0 on empty queue"
                   | Some (len, Some x) ->
                       (match remove_first (same_sp x) !q with
                        | None -> fail !opi ("popped " ^ zsp_str x ^ " which is not in the queue (lost / invented / wrongly coalesced)")
                        | Some rest ->
                            if List.exists (fun y -> z_maxub y x = Gt) !q then fail !opi ("popped " ^ zsp_str x ^ " is not maximal (ub, then value)");
                            q := rest;
                            if len <> List.length !q then fail !opi "length after pop differs from queue size"))
           | 3 -> q := []; if tok <> "0" then fail !opi "length not 0 after clear"
           | _ -> failwith "bad fringe op");
          incr opi
        done
      with Not_found -> fail !opi "internal");
      match !bad with None -> print_endline "OK" | Some m -> print_endline ("BAD " ^ m)
    end end) lines

(* ---------------------------------------------------------------- table instances *)
let parse_inst (l : ostr) : tinst =
  let c = mk_cur l in
  let nvars = next_i c in let nbase = next_i c in let init = next_z c in let initval = next_z c in
  let slack = next_z c in let rubkind = next_z c in let domkind = next_z c in let usevalue = next_b c in
  let ncoord = next_i c in let orderkind = next_i c in
  let order = List.init nvars (fun _ -> next_n c) in
  let nt = next_i c in
  let trans = List.init nt (fun _ ->
    let x = next_n c in let b = next_z c in let v = next_z c in let d = next_z c in let co = next_z c in ((((x, b), v), d), co)) in
  let nn = next_i c in
  let notimp = List.init nn (fun _ -> let x = next_n c in let b = next_z c in (x, b)) in
  let rub = if int_of_z rubkind = 1 then List.init nbase (fun _ -> next_z c) else [] in
  let key = if int_of_z domkind = 1 then List.init nbase (fun _ -> next_z c) else [] in
  let coords = if int_of_z domkind = 1 then List.init nbase (fun _ -> List.init ncoord (fun _ -> next_z c)) else [] in
  let pos = if orderkind = 1 then List.init nbase (fun _ -> next_z c) else [] in
  let up = if orderkind = 1 then List.init nbase (fun _ -> next_z c) else [] in
  { t_nvars = nat_of_int nvars; t_nbase = nat_of_int nbase; t_init = init; t_initval = initval; t_slack = slack;
    t_rubkind = rubkind; t_domkind = domkind; t_usevalue = usevalue; t_ncoord = nat_of_int ncoord; t_order = order;
    t_trans = trans; t_notimp = notimp; t_rub = rub; t_key = key; t_coords = coords; t_mergekind = z_of_int orderkind; t_pos = pos; t_up = up }

let st_str (s : tstate) = "[" ^ String.concat "," (List.map string_of_z s) ^ "]"
let sub_str (sp : tstate subproblem) =
  Printf.sprintf "(%s,%s,%s,%s,%s)" (string_of_nat sp.sp_depth) (st_str sp.sp_state) (string_of_z sp.sp_value)
    (string_of_z sp.sp_ub) (dec_str sp.sp_path)
let esc (s : ostr) =
  let b = Buffer.create (String.length s) in
  String.iter (fun ch -> if ch = '\n' then Buffer.add_string b "@@" else if ch = '\t' then Buffer.add_string b "@t" else Buffer.add_char b ch) s;
  Buffer.contents b
let viz_of_flags (f : int) : vizconfig =
  { show_value = f land 1 <> 0; show_locb = f land 2 <> 0; show_rub = f land 4 <> 0; show_threshold = f land 8 <> 0;
    show_deleted = f land 16 <> 0; group_merged = f land 32 <> 0 }
let flavour_of = function 0 -> CleanLEL | 1 -> CleanFC | _ -> Pooled
let ctype_of = function 0 -> Exact | 1 -> Relaxed | _ -> Restricted

let event_str (e : tstate event) =
  let dstr d = string_of_nat d.d_var ^ "=" ^ string_of_z d.d_val in
  match e with
  | EvNextVar (depth, layer, r) ->
      let ss = List.sort compare (List.map st_str layer) in
      Printf.sprintf "NV %s {%s} %s" (string_of_nat depth) (String.concat " " ss) (opt_str string_of_nat r)
  | EvDomain (x, s) -> Printf.sprintf "DOM %s %s" (string_of_nat x) (st_str s)
  | EvTransition (s, d, r) -> Printf.sprintf "T %s %s %s" (st_str s) (dstr d) (st_str r)
  | EvCost (s, t, d, c) -> Printf.sprintf "TC %s %s %s %s" (st_str s) (st_str t) (dstr d) (string_of_z c)
  | EvMerge (args, r) -> Printf.sprintf "MERGE %s -> %s" (String.concat " " (List.map st_str args)) (st_str r)
  | EvRelax (s, t, m, d, c, r) ->
      Printf.sprintf "RELAX %s %s %s %s %s -> %s" (st_str s) (st_str t) (st_str m) (dstr d) (string_of_z c) (string_of_z r)
  | EvCacheGet (s, d) -> Printf.sprintf "CG %s %s" (st_str s) (string_of_nat d)
  | EvCacheUpd (s, d, v, e) -> Printf.sprintf "CU %s %s %s %d" (st_str s) (string_of_nat d) (string_of_z v) (if e then 1 else 0)
  | EvDomQuery (s, d, v, dom, thr) ->
      Printf.sprintf "DQ %s %s %s -> %d %s" (st_str s) (string_of_nat d) (string_of_z v) (if dom then 1 else 0) (opt_str string_of_z thr)

let parse_root c : tstate subproblem =
  let depth = next_n c in let value = next_z c in
  let nst = next_i c in let st = List.init nst (fun _ -> next_z c) in
  let plen = next_i c in
  let path = List.init plen (fun _ -> let x = next_n c in let v = next_z c in { d_var = x; d_val = v }) in
  { sp_state = st; sp_value = value; sp_path = path; sp_ub = z_of_string "9223372036854775807"; sp_depth = depth }

(* one compiled diagram, for one choice of the tie-break oracle *)
let m_result inp (m : tstate mdd) (o : outcome) (ct : int) =
  match o with
  | CutoffOccurred -> "cut"
  | OutOfFuel -> "OUTOFFUEL"
  | Compiled ->
      if m.m_crash then "CRASH" else begin
      let ex = dd_is_exact m in
      let b01 b = if b then "1" else "0" in
      let dot = match tb_dot inp m (viz_of_flags 63) with None -> "CRASH" | Some s -> esc (ocaml_string s) in
      let cs = if ct = 1 then List.sort compare (List.map sub_str (drain_cutset inp m)) else [] in
      Printf.sprintf "ok # cx=%s cv=%s # x=%s # bv=%s # bs=%s # ev=%s # es=%s # CS=%s # DOT=%s"
        (b01 ex) (opt_str string_of_z (dd_best_value inp m)) (b01 ex)
        (opt_str string_of_z (dd_best_value inp m)) (opt_str dec_str (dd_best_solution inp m))
        (opt_str string_of_z (dd_best_exact_value inp m)) (opt_str dec_str (dd_best_exact_solution inp m))
        (String.concat " " cs) dot end

let run_mdd_cmd lines =
  let inst = ref None in
  let cache = ref [] in let dom = ref [] in
  let last : (tstate cinput * tstate mdd) option array = Array.make 3 None in
  let tainted = ref false in
  List.iter (fun l ->
    if starts_with "I " l then begin
      let ti = parse_inst l in inst := Some ti; cache := tb_cache_init ti; dom := tb_dom_init ti; tainted := false;
      Array.fill last 0 3 None end
    else if starts_with "RS" l then begin
      tainted := false;
      match !inst with Some ti -> cache := tb_cache_init ti; dom := tb_dom_init ti | None -> () end
    else if starts_with "CP " l then begin
      let c = mk_cur l in let depth = next_n c in let value = next_z c in let e = next_b c in
      let nst = next_i c in let st = List.init nst (fun _ -> next_z c) in
      match tb_cache_update !cache st depth value e with Some x -> cache := x | None -> failwith "CP crash" end
    else if starts_with "V " l then begin
      let c = mk_cur l in let flv = next_i c in let flags = next_i c in
      match last.(flv) with
      | None -> print_endline "V NODIAGRAM"
      | Some (inp, m) -> (match tb_dot inp m (viz_of_flags flags) with
                          | None -> print_endline "V CRASH" | Some s -> print_endline ("V " ^ esc (ocaml_string s))) end
    else if starts_with "M " l then begin
      let ti = match !inst with Some t -> t | None -> failwith "no instance" in
      let c = mk_cur l in
      let flv = next_i c in let ct = next_i c in let width = next_n c in let lb = next_z c in
      let usecache = next_b c in let usedom = next_b c in let cutk = next_n c in
      let root = parse_root c in
      let inp = tb_input ti (flavour_of flv) (ctype_of ct) width lb usecache usedom cutk root in
      let c0 = if usecache then !cache else [] in
      let d0 = !dom in
      if !tainted && (usecache || usedom) then print_endline "M TAINTED" else begin
      let (m0, o0) = tb_compile inp O O c0 d0 O in
      let (n1, n2) = (match o0 with Compiled -> tb_candidates inp m0 | _ -> (O, O)) in
      let n1 = max 1 (int_of_nat n1) and n2 = max 1 (int_of_nat n2) in
      (* every choice of the tie-break oracle: alternatives separated by " || ", each with its own poll count and call log
         (the cache updates of compute_thresholds depend on which of the equally valued terminal nodes is the best node) *)
      let alts = ref [] in
      for t1 = 0 to n1 - 1 do for t2 = 0 to n2 - 1 do
        let (m, o) = if t1 = 0 && t2 = 0 then (m0, o0) else tb_compile inp (nat_of_int t1) (nat_of_int t2) c0 d0 O in
        let lg = String.concat " ; " (List.rev_map event_str m.m_log) in
        let s = Printf.sprintf "%s # POLLS=%s # LOG=%s" (m_result inp m o ct) (string_of_nat m.m_polls) lg in
        if not (List.mem s !alts) then alts := !alts @ [s];
        (* the stores left behind depend on the tie: the rest of this store epoch cannot be compared line by line *)
        if (usecache && m.m_cache <> m0.m_cache) || m.m_dom <> m0.m_dom then tainted := true
      done done;
      if usecache then cache := m0.m_cache;
      dom := m0.m_dom;
      last.(flv) <- (match o0 with Compiled -> Some (inp, m0) | _ -> None);
      Printf.printf "M %s\n" (String.concat " || " !alts) end
    end) lines

(* ---------------------------------------------------------------- solver *)
let run_solve_cmd lines =
  let inst = ref None in
  List.iter (fun l ->
    if starts_with "I " l then inst := Some (parse_inst l)
    else if starts_with "S " l then begin
      let ti = match !inst with Some t -> t | None -> failwith "no instance" in
      let c = mk_cur l in
      let par = next_b c in let _threads = next_i c in let _ctor = next_i c in
      let flv = next_i c in let cache = next_b c in let fringe = next_i c in let width = next_n c in
      let cutk = next_n c in let dom = next_b c in let nprimal = next_i c in
      let primals = List.init nprimal (fun _ ->
          let pv = next_z c in let plen = next_i c in
          let p = List.init plen (fun _ -> let x = next_n c in let v = next_z c in { d_var = x; d_val = v }) in (pv, p)) in
      if par then print_endline "S SKIP" else begin
        let cfg = tb_sconfig ti (flavour_of flv) cache (fringe <> 0) dom width cutk in
        let r = tb_maximize_multi cfg (nat_of_int 100000) primals in
        if r.r_crash then print_endline "S CRASH"
        else if r.r_outoffuel then print_endline "S HANG"
        else
          Printf.printf "S x=%s cv=%s bv=%s lb=%s ub=%s sol=%s explored=%s polls=%s tie=%s\n"
            (if r.r_exact then "1" else "0") (opt_str string_of_z r.r_value) (opt_str string_of_z r.r_value)
            (string_of_z r.r_lb) (string_of_z r.r_ub) (opt_str dec_str r.r_sol) (string_of_nat r.r_explored)
            (string_of_nat r.r_polls) (if r.r_tie then "1" else "0") end
    end) lines

(* ---------------------------------------------------------------- parallel protocol model *)
let site_str = function
  | SGetWorkload -> "get_workload" | SBestLb -> "best_lb" | SMaybeUpdateBest -> "maybe_update_best"
  | SEnqueueCutset -> "enqueue_cutset" | SAbortSearch -> "abort_search" | SNotifyNodeFinished -> "notify_node_finished"
let run_par_cmd lines =
  let inst = ref None in
  List.iter (fun l ->
    if starts_with "I " l then inst := Some (parse_inst l)
    else if starts_with "PS " l then begin
      let ti = match !inst with Some t -> t | None -> failwith "no instance" in
      let (cfgpart, chpart) = (match String.index_opt l '|' with
        | Some i -> (String.sub l 0 i, String.sub l (i + 1) (String.length l - i - 1)) | None -> (l, "")) in
      let c = mk_cur cfgpart in
      let _par = next_b c in let threads = next_i c in let ctor = next_i c in
      let flv = next_i c in let cache = next_b c in let fringe = next_i c in let width = next_n c in
      let cutk = next_n c in let dom = next_b c in let nprimal = next_i c in
      let primals = List.init nprimal (fun _ ->
          let pv = next_z c in let plen = next_i c in
          let p = List.init plen (fun _ -> let x = next_n c in let v = next_z c in { d_var = x; d_val = v }) in (pv, p)) in
      let primal = (match primals with [] -> None | x :: _ -> Some x) in
      let sched = List.map (fun t -> nat_of_int (int_of_string t)) (tokens (" x " ^ chpart) |> List.tl) in
      let cfg = tb_sconfig ti (flavour_of flv) cache (fringe <> 0) dom width cutk in
      let r = tb_par_maximize cfg (nat_of_int 30000) (nat_of_int ctor) (nat_of_int threads) primal sched in
      let tr = String.concat "," (List.map (fun (w, st) -> string_of_nat w ^ ":" ^ site_str st) r.pr_trace) in
      let e = (match r.pr_end with PFinished -> "finished" | PDeadlock -> "deadlock" | POutOfFuel -> "steplimit") in
      (match r.pr_end with
       | PFinished ->
          Printf.printf "P end=finished x=%s cv=%s bv=%s lb=%s ub=%s sol=%s explored=%s polls=%s crash=%s tie=%s trace=%s\n"
            (if r.pr_exact then "1" else "0") (opt_str string_of_z r.pr_value) (opt_str string_of_z r.pr_value)
            (string_of_z r.pr_lb) (string_of_z r.pr_ub) (opt_str dec_str r.pr_sol) (string_of_nat r.pr_explored)
            (string_of_nat r.pr_polls) (if r.pr_crash then "1" else "0") (if r.pr_tie then "1" else "0") tr
       | _ -> Printf.printf "P end=%s crash=%s tie=%s trace=%s\n" e (if r.pr_crash then "1" else "0") (if r.pr_tie then "1" else "0") tr)
    end) lines

(* ---------------------------------------------------------------- oracles (executable specification) *)
(* `O` lines after an instance: `O opt` ; `O from k v nst s..` ; `O h k nst s..` ; `O replay v0? ...` *)
let run_oracle_cmd lines =
  let inst = ref None in
  List.iter (fun l ->
    if starts_with "I " l then inst := Some (parse_inst l)
    else if starts_with "O " l then begin
      let ti = match !inst with Some t -> t | None -> failwith "no instance" in
      let c = mk_cur l in
      match next_s c with
      | "opt" -> print_endline ("O " ^ opt_str string_of_z (tb_opt_enum ti))
      | "from" -> let k = next_n c in let v = next_z c in let nst = next_i c in let st = List.init nst (fun _ -> next_z c) in
                  print_endline ("O " ^ opt_str string_of_z (tb_opt_from ti k st v))
      | "h" -> let k = next_n c in let nst = next_i c in let st = List.init nst (fun _ -> next_z c) in
               print_endline ("O " ^ opt_str string_of_z (tb_hstar ti k st))
      | "replay" ->
          (* replay a decision list from the root: prints final value or infeasible *)
          let plen = next_i c in
          let p = List.init plen (fun _ -> let x = next_n c in let v = next_z c in { d_var = x; d_val = v }) in
          (match tb_replay ti p [ti.t_init] ti.t_initval with
           | None -> print_endline "O infeasible"
           | Some (s, v) -> print_endline ("O " ^ string_of_z v ^ " " ^ st_str s))
      | "enum" -> let k = next_n c in let v = next_z c in let nst = next_i c in let st = List.init nst (fun _ -> next_z c) in
                  let all = tb_enum_from ti k st v in
                  print_endline ("O " ^ String.concat " " (List.map (fun (p, w) -> dec_str p ^ ":" ^ string_of_z w) all))
      | _ -> failwith "bad oracle op"
    end) lines

let () =
  let cmd = Sys.argv.(1) in
  let lines = read_lines Sys.argv.(2) in
  match cmd with
  | "gap" -> run_gap_cmd lines
  | "width" -> run_width_cmd false lines
  | "widthrel" -> run_width_cmd true lines
  | "cache" -> run_cache_cmd lines
  | "cachepar" -> run_cache_par_cmd lines
  | "dom" -> run_dom_cmd lines
  | "dompar" -> run_dom_par_cmd lines
  | "fringe" -> run_fringe_cmd lines
  | "fringe0" -> run_fringe0_cmd lines
  | "fringecheck" -> run_fringecheck_cmd lines Sys.argv.(3)
  | "mdd" -> run_mdd_cmd lines
  | "solve" -> run_solve_cmd lines
  | "par" -> run_par_cmd lines
  | "oracle" -> run_oracle_cmd lines
  | _ -> prerr_endline "unknown command"; exit 2
