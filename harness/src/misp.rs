//! Correspondence for the Coq model of the SHIPPED misp example (coq/theories/Misp.v): the example's own source file is textually
//! included (its struct fields and its parser are private), instances go through ITS parser (`read_instance`) and are driven through
//! the `Problem` / `Relaxation` traits.
//!   P n m w_0 .. w_{n-1} a_1 b_1 .. a_m b_m    instance (0-based vertices; written as a DIMACS-like file for read_instance)
//!   Q v:d v:d ...                              decide vertex v (1 take / 0 leave) in that order from the initial state
//!   G q | q | ...                              merge of the states reached by several such sequences
//!   N q | q | ...                              next_variable for the layer made of those states
#[allow(dead_code, unused_imports, clippy::all)]
mod example {
    include!(concat!(env!("OUT_DIR"), "/misp_example.rs"));

    use std::io::Write as _;
    fn st(s: &BitSet) -> String { format!("[{}]", s.iter().map(|x| x.to_string()).collect::<Vec<_>>().join(",")) }
    fn domain(pb: &Misp, var: Variable, s: &BitSet) -> Vec<isize> {
        let mut dom = vec![];
        pb.for_each_in_domain(var, s, &mut |d: Decision| dom.push(d.value));
        dom
    }
    fn parse_seq(t: &str) -> Vec<(usize, isize)> {
        t.split_whitespace().map(|w| { let mut it = w.split(':'); (it.next().unwrap().parse().unwrap(), it.next().unwrap().parse().unwrap()) }).collect()
    }
    fn reach(pb: &Misp, q: &[(usize, isize)]) -> Option<(BitSet, isize)> {
        let mut s = pb.initial_state();
        let mut value = pb.initial_value();
        for (v, d) in q {
            let var = Variable(*v);
            if !domain(pb, var, &s).contains(d) { return None; }
            let dec = Decision { variable: var, value: *d };
            let s2 = pb.transition(&s, dec);
            value += pb.transition_cost(&s, &s2, dec);
            s = s2;
        }
        Some((s, value))
    }

    /// one instance block (its P line and the queries that follow), run in a thread of its own: `next_variable` keeps a thread-local
    /// vector sized by the FIRST instance the thread sees
    fn block(lines: &[String]) -> Vec<String> {
        let mut out = vec![];
        let v = crate::simple::ints(&lines[0]);
        let n = v[0] as usize; let m = v[1] as usize;
        let mut text = format!("c generated\np edge {} {}\n", n, m);
        for i in 0..n { text += &format!("n {} {}\n", i + 1, v[2 + i]); }
        for j in 0..m { text += &format!("e {} {}\n", v[2 + n + 2 * j] + 1, v[3 + n + 2 * j] + 1); }
        let fname = std::env::temp_dir().join(format!("ddoharness-misp-{}-{:?}.txt", std::process::id(), std::thread::current().id()));
        std::fs::write(&fname, text).unwrap();
        let pb = read_instance(&fname);
        let _ = std::fs::remove_file(&fname);
        let pb = match pb { Ok(p) => p, Err(e) => { out.push(format!("P error {:?}", e)); for _ in 1..lines.len() { out.push("skipped".to_string()); } return out; } };
        let rx = MispRelax { pb: &pb };
        // the optimum the library computes on the example's model (sequential, last-exact-layer diagrams, widths 1 and 2): compared with
        // the brute-force optimum of the Coq model, i.e. with the maximum weight of an independent set (theorems C16_misp_*)
        let mut solved = vec![];
        for w in [1usize, 2] {
            let ranking = MispRanking; let width = FixedWidth(w); let dominance = EmptyDominanceChecker::default(); let cutoff = NoCutoff;
            let mut fringe = NoDupFringe::new(MaxUB::new(&ranking));
            let mut solver = SeqNoCachingSolverLel::custom(&pb, &rx, &ranking, &width, &dominance, &cutoff, &mut fringe);
            let Completion { is_exact, best_value } = solver.maximize();
            solved.push(format!("{}:{}", is_exact, best_value.map(|v| v.to_string()).unwrap_or("none".to_string())));
        }
        out.push(format!("P n={} init={} solved={}", pb.nb_variables(), st(&pb.initial_state()), solved.join(",")));
        for l in &lines[1..] {
            let r = std::panic::catch_unwind(std::panic::AssertUnwindSafe(|| {
                if let Some(q) = l.strip_prefix('Q') {
                    match reach(&pb, &parse_seq(q)) {
                        None => "Q invalid".to_string(),
                        Some((s, value)) => {
                            let doms: Vec<String> = (0..n).map(|v| domain(&pb, Variable(v), &s).iter().map(|d| d.to_string()).collect::<String>()).collect();
                            let imp: String = (0..n).map(|v| if pb.is_impacted_by(Variable(v), &s) { '1' } else { '0' }).collect();
                            format!("Q state={} value={} rub={} dom={} imp={}", st(&s), value, rx.fast_upper_bound(&s), doms.join("|"), imp)
                        }
                    }
                } else {
                    let kind = &l[0..1];
                    let sts: Vec<Option<(BitSet, isize)>> = l[1..].split('|').map(|g| reach(&pb, &parse_seq(g))).collect();
                    if sts.iter().any(|o| o.is_none()) { return format!("{} invalid", kind); }
                    let sts: Vec<BitSet> = sts.into_iter().map(|o| o.unwrap().0).collect();
                    if kind == "G" {
                        let mg = rx.merge(&mut sts.iter());
                        format!("G merged={} relax7={}", st(&mg), rx.relax(&mg, &mg, &mg, Decision { variable: Variable(0), value: 0 }, 7))
                    } else {
                        match pb.next_variable(0, &mut sts.iter()) { None => "N var=none".to_string(), Some(x) => format!("N var={}", x.id()) }
                    }
                }
            }));
            out.push(r.unwrap_or(format!("{} CRASH", &l[0..1])));
        }
        out
    }

    pub fn run(lines: &[String], out: &mut dyn std::io::Write) {
        let mut i = 0;
        while i < lines.len() {
            if !lines[i].starts_with("P ") { i += 1; continue; }
            let mut j = i + 1;
            while j < lines.len() && !lines[j].starts_with("P ") { j += 1; }
            let blk: Vec<String> = lines[i..j].iter().filter(|l| !l.trim().is_empty()).cloned().collect();
            let res = std::thread::spawn(move || block(&blk)).join().unwrap_or_else(|_| vec!["P CRASH".to_string()]);
            for r in res { writeln!(out, "{}", r).unwrap(); }
            i = j;
        }
    }
}
pub use example::run;
