//! Table-driven powerset model family (DESIGN.md section 4 / Families/TablePowerset.v).
//! A base LTS is given by finite tables; a DP state is a finite set of base states
//! (sorted vector of ids). transition / domain / cost are lifted by union / union / max,
//! merge = union, relax = cost + slack * (|merged| - |dst|), rub = max over members.
use std::cmp::Ordering;
use std::fmt::{Debug, Formatter};
use std::sync::Arc;
use parking_lot::Mutex;
use ddo::*;

#[derive(Clone, PartialEq, Eq, Hash, PartialOrd, Ord)]
pub struct St(pub Vec<u32>);
impl Debug for St {
    fn fmt(&self, f: &mut Formatter<'_>) -> std::fmt::Result { write!(f, "{:?}", self.0) }
}

#[derive(Clone, Default)]
pub struct Inst {
    pub nvars: usize,
    pub nbase: usize,
    pub init: u32,
    pub initval: isize,
    pub slack: isize,
    pub rubkind: i64,
    pub domkind: i64,
    pub usevalue: bool,
    pub ncoord: usize,
    pub orderkind: i64,
    pub order: Vec<usize>,
    /// trans[x][b] = sorted list of (val, dst, cost)
    pub trans: Vec<Vec<Vec<(isize, u32, isize)>>>,
    pub notimp: Vec<Vec<bool>>,
    pub rub: Vec<isize>,
    pub key: Vec<i64>,
    pub coords: Vec<Vec<isize>>,
    /// merge kind 1 (orderkind field): chain position and chain successor of every base state
    pub pos: Vec<i64>,
    pub up: Vec<u32>,
}

pub fn parse_inst(line: &str) -> Inst {
    let v: Vec<i128> = line.split_whitespace().skip(1).map(|t| t.parse::<i128>().unwrap()).collect();
    let mut p = 0usize;
    let mut next = || { let x = v[p]; p += 1; x };
    let mut i = Inst::default();
    i.nvars = next() as usize; i.nbase = next() as usize; i.init = next() as u32; i.initval = next() as isize;
    i.slack = next() as isize; i.rubkind = next() as i64; i.domkind = next() as i64; i.usevalue = next() != 0;
    i.ncoord = next() as usize; i.orderkind = next() as i64;
    for _ in 0..i.nvars { i.order.push(next() as usize); }
    i.trans = vec![vec![vec![]; i.nbase]; i.nvars];
    let nt = next() as usize;
    for _ in 0..nt {
        let x = next() as usize; let b = next() as usize; let val = next() as isize; let dst = next() as u32; let cost = next() as isize;
        i.trans[x][b].push((val, dst, cost));
    }
    for x in 0..i.nvars { for b in 0..i.nbase { i.trans[x][b].sort(); } }
    i.notimp = vec![vec![false; i.nbase]; i.nvars];
    let nn = next() as usize;
    for _ in 0..nn { let x = next() as usize; let b = next() as usize; i.notimp[x][b] = true; }
    if i.rubkind == 1 { for _ in 0..i.nbase { i.rub.push(next() as isize); } }
    if i.domkind == 1 {
        for _ in 0..i.nbase { i.key.push(next() as i64); }
        for _ in 0..i.nbase { let mut c = vec![]; for _ in 0..i.ncoord { c.push(next() as isize); } i.coords.push(c); }
    }
    if i.orderkind == 1 {
        for _ in 0..i.nbase { i.pos.push(next() as i64); }
        for _ in 0..i.nbase { i.up.push(next() as u32); }
    }
    i
}

/// optional call log shared by the recording wrappers (C12, C13)
pub type Log = Arc<Mutex<Vec<String>>>;

pub struct TProblem { pub inst: Arc<Inst>, pub log: Option<Log> }
pub struct TRelax { pub inst: Arc<Inst>, pub log: Option<Log> }
pub struct TRanking;

fn st_str(s: &St) -> String { let v: Vec<String> = s.0.iter().map(|x| x.to_string()).collect(); format!("[{}]", v.join(",")) }
pub fn state_str(s: &St) -> String { st_str(s) }

impl TProblem {
    fn log(&self, s: String) { if let Some(l) = &self.log { l.lock().push(s); } }
}
impl TRelax {
    fn log(&self, s: String) { if let Some(l) = &self.log { l.lock().push(s); } }
}

impl Problem for TProblem {
    type State = St;
    fn nb_variables(&self) -> usize { self.inst.nvars }
    fn initial_state(&self) -> St { St(vec![self.inst.init]) }
    fn initial_value(&self) -> isize { self.inst.initval }
    fn transition(&self, state: &St, d: Decision) -> St {
        let mut out: Vec<u32> = vec![];
        for b in state.0.iter() {
            for (val, dst, _) in self.inst.trans[d.variable.0][*b as usize].iter() {
                if *val == d.value { out.push(*dst); }
            }
        }
        out.sort(); out.dedup();
        let r = St(out);
        self.log(format!("T {} {}={} {}", st_str(state), d.variable.0, d.value, st_str(&r)));
        r
    }
    fn transition_cost(&self, src: &St, dst: &St, d: Decision) -> isize {
        let mut best: Option<isize> = None;
        for b in src.0.iter() {
            // the cost READS the destination: only arcs landing inside `dst` count. When the library passes dst = transition(src, d), as the
            // Problem contract says, every arc qualifies (same value as the model's cost); a wrong `dst` changes the objective and is seen by C06-C08
            for (val, tgt, cost) in self.inst.trans[d.variable.0][*b as usize].iter() {
                if *val == d.value && dst.0.contains(tgt) { best = Some(match best { None => *cost, Some(c) => c.max(*cost) }); }
            }
        }
        let r = best.unwrap_or(0);
        self.log(format!("TC {} {} {}={} {}", st_str(src), st_str(dst), d.variable.0, d.value, r));
        r
    }
    fn next_variable(&self, depth: usize, next_layer: &mut dyn Iterator<Item = &St>) -> Option<Variable> {
        let mut states: Vec<String> = if self.log.is_some() { next_layer.map(st_str).collect() } else { vec![] };
        states.sort();
        let r = if depth < self.inst.nvars { Some(Variable(self.inst.order[depth])) } else { None };
        self.log(format!("NV {} {{{}}} {}", depth, states.join(" "), match r { None => "none".to_string(), Some(v) => v.0.to_string() }));
        r
    }
    fn for_each_in_domain(&self, var: Variable, state: &St, f: &mut dyn DecisionCallback) {
        self.log(format!("DOM {} {}", var.0, st_str(state)));
        let mut vals: Vec<isize> = vec![];
        for b in state.0.iter() {
            for (val, _, _) in self.inst.trans[var.0][*b as usize].iter() { vals.push(*val); }
        }
        vals.sort(); vals.dedup();
        for val in vals { f.apply(Decision { variable: var, value: val }); }
    }
    fn is_impacted_by(&self, var: Variable, state: &St) -> bool {
        state.0.iter().any(|b| !self.inst.notimp[var.0][*b as usize])
    }
}

impl Relaxation for TRelax {
    type State = St;
    fn merge(&self, states: &mut dyn Iterator<Item = &St>) -> St {
        let mut out: Vec<u32> = vec![];
        let mut args: Vec<String> = vec![];
        for s in states { out.extend_from_slice(&s.0); args.push(st_str(s)); }
        out.sort(); out.dedup();
        let r = if self.inst.orderkind == 1 {
            // chain relaxation: the chain successor of the highest merged member over-approximates every merged state
            let top = out.iter().copied().max_by_key(|b| (self.inst.pos[*b as usize], *b)).unwrap();
            St(vec![self.inst.up[top as usize]])
        } else { St(out) };
        self.log(format!("MERGE {} -> {}", args.join(" "), st_str(&r)));
        r
    }
    fn relax(&self, src: &St, dst: &St, merged: &St, d: Decision, cost: isize) -> isize {
        // the relaxed cost READS every argument: the last term is zero whenever the library passes dst = transition(src, d), as the Relaxation
        // contract says (then this is the model's cost + slack * (|merged| - |dst|)); swapped or foreign states make the bound unsound (seen by C06 / C08)
        let mut t: Vec<u32> = vec![];
        for b in src.0.iter() {
            for (val, tgt, _) in self.inst.trans[d.variable.0][*b as usize].iter() { if *val == d.value { t.push(*tgt); } }
        }
        t.sort(); t.dedup();
        let r = cost.saturating_add(self.inst.slack.saturating_mul(merged.0.len() as isize - dst.0.len() as isize))
                    .saturating_add(self.inst.slack.saturating_mul(t.len() as isize - dst.0.len() as isize));
        self.log(format!("RELAX {} {} {} {}={} {} -> {}", st_str(src), st_str(dst), st_str(merged), d.variable.0, d.value, cost, r));
        r
    }
    fn fast_upper_bound(&self, state: &St) -> isize {
        if self.inst.rubkind == 1 {
            state.0.iter().map(|b| self.inst.rub[*b as usize]).max().unwrap_or(isize::MIN)
        } else { isize::MAX }
    }
}

/// `RK 1` lines of the mdd command switch to a COARSE ranking (every pair of states compares Equal): legal for a StateRanking, it makes the
/// choice among tied nodes depend on the library's (unstable) sort, so only order-insensitive oracles (the width bound) may be used with it.
pub static COARSE_RANKING: std::sync::atomic::AtomicBool = std::sync::atomic::AtomicBool::new(false);
impl StateRanking for TRanking {
    type State = St;
    fn compare(&self, a: &St, b: &St) -> Ordering {
        if COARSE_RANKING.load(std::sync::atomic::Ordering::Relaxed) { Ordering::Equal } else { a.0.cmp(&b.0) }
    }
}

/// The user's dominance rule: key / coordinates of the *smallest member* of the state.
pub struct TDominance { pub inst: Arc<Inst> }
impl Dominance for TDominance {
    type State = St;
    type Key = i64;
    fn get_key(&self, state: Arc<St>) -> Option<i64> {
        if state.0.len() != 1 { return None; }
        let k = self.inst.key[state.0[0] as usize];
        if k < 0 { None } else { Some(k) }
    }
    fn nb_dimensions(&self, _: &St) -> usize { self.inst.ncoord }
    fn get_coordinate(&self, state: &St, i: usize) -> isize {
        match state.0.first() { Some(b) => self.inst.coords[*b as usize][i], None => 0 }
    }
    fn use_value(&self) -> bool { self.inst.usevalue }
}

/// Dominance checker handed to the library: delegates verdicts to the real
/// SimpleDominanceChecker (or answers "not dominated" when no rule is configured) and
/// refines the rule's comparator into a total order (rule cmp, then value, then state).
pub struct TotalDom { pub inner: Option<SimpleDominanceChecker<TDominance>>, pub log: Option<Log> }
impl TotalDom {
    pub fn new(inst: &Arc<Inst>, on: bool, log: Option<Log>) -> Self {
        let inner = if on && inst.domkind == 1 { Some(SimpleDominanceChecker::new(TDominance { inst: inst.clone() }, inst.nvars)) } else { None };
        TotalDom { inner, log }
    }
}
impl DominanceChecker for TotalDom {
    type State = St;
    fn clear_layer(&self, depth: usize) { if let Some(i) = &self.inner { i.clear_layer(depth) } }
    fn is_dominated_or_insert(&self, state: Arc<St>, depth: usize, value: isize) -> DominanceCheckResult {
        let r = match &self.inner {
            Some(i) => i.is_dominated_or_insert(state.clone(), depth, value),
            None => DominanceCheckResult { dominated: false, threshold: None },
        };
        if let Some(l) = &self.log {
            l.lock().push(format!("DQ {} {} {} -> {} {}", st_str(&state), depth, value, r.dominated as u8,
                match r.threshold { None => "none".to_string(), Some(t) => t.to_string() }));
        }
        r
    }
    fn cmp(&self, a: &St, va: isize, b: &St, vb: isize) -> Ordering {
        let c = match &self.inner { Some(i) => i.cmp(a, va, b, vb), None => Ordering::Equal };
        c.then_with(|| va.cmp(&vb)).then_with(|| a.0.cmp(&b.0))
    }
}

/// Cache handed to the library: either "no cache" or the real SimpleCache, with an optional call log.
pub struct LogCache { pub inner: Option<SimpleCache<St>>, pub log: Option<Log> }
impl Default for LogCache { fn default() -> Self { LogCache { inner: None, log: None } } }
impl Cache for LogCache {
    type State = St;
    fn initialize(&mut self, problem: &dyn Problem<State = St>) { if let Some(i) = self.inner.as_mut() { i.initialize(problem) } }
    fn get_threshold(&self, state: &St, depth: usize) -> Option<Threshold> {
        let r = match &self.inner { Some(i) => i.get_threshold(state, depth), None => None };
        if let Some(l) = &self.log { l.lock().push(format!("CG {} {}", st_str(state), depth)); }
        r
    }
    fn update_threshold(&self, state: Arc<St>, depth: usize, value: isize, explored: bool) {
        if let Some(l) = &self.log { l.lock().push(format!("CU {} {} {} {}", st_str(&state), depth, value, explored as u8)); }
        if let Some(i) = &self.inner { i.update_threshold(state, depth, value, explored) }
    }
    fn clear_layer(&self, depth: usize) { if let Some(i) = &self.inner { i.clear_layer(depth) } }
    fn clear(&self) { if let Some(i) = &self.inner { i.clear() } }
}

pub struct CountCutoff { pub n: std::sync::atomic::AtomicUsize, pub k: usize, pub limit: usize }
impl CountCutoff {
    pub fn new(k: usize, limit: usize) -> Self { CountCutoff { n: std::sync::atomic::AtomicUsize::new(0), k, limit } }
    pub fn polls(&self) -> usize { self.n.load(std::sync::atomic::Ordering::SeqCst) }
}
impl Cutoff for CountCutoff {
    fn must_stop(&self) -> bool {
        let c = self.n.fetch_add(1, std::sync::atomic::Ordering::SeqCst) + 1;
        (self.k > 0 && c >= self.k) || c >= self.limit
    }
}

pub fn dec_str(p: &[Decision]) -> String {
    let v: Vec<String> = p.iter().map(|d| format!("{}={}", d.variable.0, d.value)).collect();
    v.join(";")
}
pub fn opt_str(v: Option<isize>) -> String { match v { None => "none".to_string(), Some(x) => x.to_string() } }
