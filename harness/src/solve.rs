//! Solver-level runs (sequential and un-scheduled parallel).
use std::io::Write;
use std::sync::Arc;
use ddo::*;
use crate::table::*;

pub struct Cfg { pub par: bool, pub threads: usize, pub ctor_threads: usize, pub flv: i128, pub cache: bool, pub fringe: i128, pub width: usize,
                 pub cutk: usize, pub dom: bool, pub primal: Vec<(isize, Vec<Decision>)> }

/// `S par threads ctorthreads flv cache fringe width cutoffk dom hasprimal pv plen (var val)*`
pub fn parse_cfg(l: &str) -> Cfg {
    let v = crate::simple::ints(l);
    // v[9] = number of primals; each: value, length, (var val)*
    let mut primal = vec![];
    let mut k = 10;
    for _ in 0..(v[9] as usize) {
        let pv = v[k] as isize; let plen = v[k + 1] as usize; k += 2;
        let mut p = vec![];
        for _ in 0..plen { p.push(Decision { variable: Variable(v[k] as usize), value: v[k+1] as isize }); k += 2; }
        primal.push((pv, p));
    }
    Cfg { par: v[0] != 0, threads: v[1] as usize, ctor_threads: v[2] as usize, flv: v[3], cache: v[4] != 0, fringe: v[5], width: v[6] as usize,
          cutk: v[7] as usize, dom: v[8] != 0, primal }
}

macro_rules! run_solver {
    ($solver:expr, $cfg:expr, $cutoff:expr) => {{
        let mut s = $solver;
        for (pv, p) in $cfg.primal.iter() { s.set_primal(*pv, p.clone()); }
        let c = s.maximize();
        let g = s.gap();
        format!("x={} cv={} bv={} lb={} ub={} sol={} explored={} polls={} gap={}", c.is_exact as u8, opt_str(c.best_value), opt_str(s.best_value()),
            s.best_lower_bound(), s.best_upper_bound(), s.best_solution().map(|p| dec_str(&p)).unwrap_or("none".to_string()),
            s.explored(), $cutoff.polls(), if g.is_nan() { "nan".to_string() } else { g.to_bits().to_string() })
    }};
}

pub fn solve_one(inst: &Arc<Inst>, cfg: &Cfg) -> String {
    let pb = TProblem { inst: inst.clone(), log: None };
    let rx = TRelax { inst: inst.clone(), log: None };
    let rk = TRanking;
    let width = FixedWidth(cfg.width);
    let dom = TotalDom::new(inst, cfg.dom, None);
    let cutoff = CountCutoff::new(cfg.cutk, 2_000_000);
    let mut simple = SimpleFringe::new(MaxUB::new(&rk));
    let mut nodup = NoDupFringe::new(MaxUB::new(&rk));
    let r = std::panic::catch_unwind(std::panic::AssertUnwindSafe(|| {
        if !cfg.par {
            let fringe: &mut dyn Fringe<State = St> = if cfg.fringe == 0 { &mut simple } else { &mut nodup };
            match (cfg.flv, cfg.cache) {
                (0, false) => run_solver!(SeqNoCachingSolverLel::custom(&pb, &rx, &rk, &width, &dom, &cutoff, fringe), cfg, cutoff),
                (1, false) => run_solver!(SeqNoCachingSolverFc::custom(&pb, &rx, &rk, &width, &dom, &cutoff, fringe), cfg, cutoff),
                (2, false) => run_solver!(SeqNoCachingSolverPooled::custom(&pb, &rx, &rk, &width, &dom, &cutoff, fringe), cfg, cutoff),
                (0, true) => run_solver!(SeqCachingSolverLel::custom(&pb, &rx, &rk, &width, &dom, &cutoff, fringe), cfg, cutoff),
                (1, true) => run_solver!(SeqCachingSolverFc::custom(&pb, &rx, &rk, &width, &dom, &cutoff, fringe), cfg, cutoff),
                _ => run_solver!(SeqCachingSolverPooled::custom(&pb, &rx, &rk, &width, &dom, &cutoff, fringe), cfg, cutoff),
            }
        } else {
            let fringe: &mut (dyn Fringe<State = St> + Send + Sync) = if cfg.fringe == 0 { &mut simple } else { &mut nodup };
            let (ct, t) = (cfg.ctor_threads, cfg.threads);
            match (cfg.flv, cfg.cache) {
                (0, false) => run_solver!(ParNoCachingSolverLel::custom(&pb, &rx, &rk, &width, &dom, &cutoff, fringe, ct).with_nb_threads(t), cfg, cutoff),
                (1, false) => run_solver!(ParNoCachingSolverFc::custom(&pb, &rx, &rk, &width, &dom, &cutoff, fringe, ct).with_nb_threads(t), cfg, cutoff),
                (2, false) => run_solver!(ParNoCachingSolverPooled::custom(&pb, &rx, &rk, &width, &dom, &cutoff, fringe, ct).with_nb_threads(t), cfg, cutoff),
                (0, true) => run_solver!(ParCachingSolverLel::custom(&pb, &rx, &rk, &width, &dom, &cutoff, fringe, ct).with_nb_threads(t), cfg, cutoff),
                (1, true) => run_solver!(ParCachingSolverFc::custom(&pb, &rx, &rk, &width, &dom, &cutoff, fringe, ct).with_nb_threads(t), cfg, cutoff),
                _ => run_solver!(ParCachingSolverPooled::custom(&pb, &rx, &rk, &width, &dom, &cutoff, fringe, ct).with_nb_threads(t), cfg, cutoff),
            }
        }
    }));
    match r {
        Ok(s) => if cutoff.polls() >= 2_000_000 { format!("HANG {}", s) } else { s },
        Err(_) => "CRASH".to_string(),
    }
}

pub fn run(lines: &[String], out: &mut dyn Write) {
    let mut inst: Arc<Inst> = Arc::new(Inst::default());
    for l in lines {
        if l.starts_with("I ") {
            inst = Arc::new(parse_inst(l));
        } else if l.starts_with("S ") {
            let cfg = parse_cfg(l);
            writeln!(out, "S {}", solve_one(&inst, &cfg)).unwrap();
            out.flush().unwrap();
        }
    }
}
