//! Controlled scheduler for the parallel solver (uses the `xgillard_ddo_verif` hooks of the ddo crate).
//! Exactly one worker runs at a time; a decision is taken each time the running worker asks for the
//! `critical` mutex, parks on the condvar or exits. The decision list comes from the case line.
use std::io::Write;
use std::sync::Arc;
use parking_lot::{Condvar, Mutex};
use ddo::verif_hooks::{self, Event};
use crate::table::*;
use crate::solve::{parse_cfg, solve_one};

#[derive(Clone, Copy, PartialEq, Eq, Debug)]
enum Status { NotStarted, Starting, Running, Want(&'static str), Parked, Waking, Exited }

struct Sched {
    status: Vec<Status>,
    running: Option<usize>,
    choices: Vec<usize>,
    pos: usize,
    last: Option<usize>,
    trace: Vec<(usize, &'static str)>,
    enabled_log: Vec<Vec<usize>>,
    steps: usize,
    limit: usize,
    verdict: Option<String>,
}

struct Ctl { m: Mutex<Sched>, cv: Condvar }

impl Sched {
    fn decide(&mut self) -> bool {
        if self.running.is_some() || self.verdict.is_some() { return false; }
        if self.status.iter().any(|s| matches!(s, Status::NotStarted | Status::Starting | Status::Waking)) { return false; }
        let en: Vec<usize> = self.status.iter().enumerate().filter(|(_, s)| matches!(s, Status::Want(_))).map(|(i, _)| i).collect();
        if en.is_empty() {
            if self.status.iter().all(|s| *s == Status::Exited) { return false; }
            if self.status.iter().any(|s| *s == Status::Parked) { self.verdict = Some("deadlock".to_string()); return true; }
            return false;
        }
        let w = if self.pos < self.choices.len() {
            let c = self.choices[self.pos]; self.pos += 1; en[c % en.len()]
        } else {
            match self.last { Some(l) if en.contains(&l) => l, _ => en[0] }
        };
        let site = match self.status[w] { Status::Want(s) => s, _ => "?" };
        self.status[w] = Status::Running;
        self.running = Some(w);
        self.last = Some(w);
        self.trace.push((w, site));
        self.enabled_log.push(en.clone());
        self.steps += 1;
        if self.steps > self.limit { self.verdict = Some("steplimit".to_string()); }
        true
    }
}

fn trace_str(s: &Sched) -> String {
    let t: Vec<String> = s.trace.iter().map(|(w, site)| format!("{}:{}", w, site)).collect();
    let e: Vec<String> = s.enabled_log.iter().map(|v| v.iter().map(|x| x.to_string()).collect::<Vec<String>>().join(".")).collect();
    format!("trace={} enabled={}", t.join(","), e.join(","))
}

/// `PS <solver cfg as in S lines> | c1 c2 ...`  (the part after `|` is the choice list)
pub fn run(lines: &[String], out: &mut dyn Write) {
    let mut inst: Arc<Inst> = Arc::new(Inst::default());
    for l in lines {
        if l.starts_with("I ") { inst = Arc::new(parse_inst(l)); continue; }
        if !l.starts_with("PS ") { continue; }
        let (cfgpart, chpart) = match l.find('|') { Some(i) => (&l[..i], &l[i + 1..]), None => (&l[..], "") };
        let cfg = parse_cfg(&cfgpart.replacen("PS", "S", 1));
        let choices: Vec<usize> = chpart.split_whitespace().map(|t| t.parse().unwrap()).collect();
        let ctl = Arc::new(Ctl {
            m: Mutex::new(Sched { status: vec![Status::NotStarted; cfg.threads], running: None, choices, pos: 0, last: None,
                                  trace: vec![], enabled_log: vec![], steps: 0, limit: 20000, verdict: None }),
            cv: Condvar::new(),
        });
        let c2 = ctl.clone();
        verif_hooks::set_hook(Some(Arc::new(move |e: Event| {
            let mut s = c2.m.lock();
            match e {
                Event::Start { worker } => { s.status[worker] = Status::Starting; }
                Event::Acquire { worker, site } => {
                    if worker == usize::MAX { return; }
                    s.status[worker] = Status::Want(site);
                    if s.running == Some(worker) { s.running = None; }
                    if s.decide() { c2.cv.notify_all(); }
                    loop {
                        if let Some(v) = &s.verdict {
                            // the run is over (deadlock / step limit): report from this thread, the solver will never return
                            println!("P end={} {}", v, trace_str(&s));
                            std::process::exit(0);
                        }
                        if s.running == Some(worker) && s.status[worker] == Status::Running { break; }
                        c2.cv.wait(&mut s);
                    }
                }
                Event::Release { .. } => {}
                Event::BeforeWait { worker } => {
                    s.status[worker] = Status::Parked;
                    if s.running == Some(worker) { s.running = None; }
                    if s.decide() { c2.cv.notify_all(); }
                    if let Some(v) = &s.verdict {
                        println!("P end={} {}", v, trace_str(&s));
                        std::process::exit(0);
                    }
                }
                Event::AfterNotify { .. } => {
                    for st in s.status.iter_mut() { if *st == Status::Parked { *st = Status::Waking; } }
                }
                Event::Exit { worker } => {
                    s.status[worker] = Status::Exited;
                    if s.running == Some(worker) { s.running = None; }
                    if s.decide() { c2.cv.notify_all(); }
                    if let Some(v) = &s.verdict {
                        println!("P end={} {}", v, trace_str(&s));
                        std::process::exit(0);
                    }
                }
            }
        })));
        let res = solve_one(&inst, &cfg);
        verif_hooks::set_hook(None);
        let s = ctl.m.lock();
        writeln!(out, "P end=finished {} {}", res, trace_str(&s)).unwrap();
        out.flush().unwrap();
    }
}
