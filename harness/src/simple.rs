//! Self-contained data structures: gap(), width combinators, SimpleCache,
//! SimpleDominanceChecker, SimpleFringe / NoDupFringe.
use std::io::Write;
use std::sync::Arc;
use std::cmp::Ordering;
use ddo::*;

pub fn ints(line: &str) -> Vec<i128> {
    line.split_whitespace().skip(1).map(|t| t.parse::<i128>().unwrap()).collect()
}
fn isz(x: i128) -> isize { x as isize }

// ------------------------------------------------------------------ gap
struct StubSolver { lb: isize, ub: isize }
impl Solver for StubSolver {
    fn maximize(&mut self) -> Completion { Completion { is_exact: false, best_value: None } }
    fn best_value(&self) -> Option<isize> { None }
    fn best_solution(&self) -> Option<Solution> { None }
    fn best_lower_bound(&self) -> isize { self.lb }
    fn best_upper_bound(&self) -> isize { self.ub }
    fn set_primal(&mut self, _: isize, _: Solution) {}
    fn explored(&self) -> usize { 0 }
}
/// `G lb ub`  ->  `G <bits as decimal | nan | CRASH>`
pub fn run_gap(lines: &[String], out: &mut dyn Write) {
    for l in lines {
        if !l.starts_with("G ") { continue; }
        let v = ints(l);
        let s = StubSolver { lb: isz(v[0]), ub: isz(v[1]) };
        let r = std::panic::catch_unwind(|| s.gap());
        match r {
            Ok(g) => if g.is_nan() { writeln!(out, "G nan").unwrap() } else { writeln!(out, "G {}", g.to_bits()).unwrap() },
            Err(_) => writeln!(out, "G CRASH").unwrap(),
        }
    }
}

// ------------------------------------------------------------------ width
/// `W kind k inner`: kind 0 = Times(k, FixedWidth(inner)), 1 = DivBy(k, FixedWidth(inner)),
/// 2 = Times(k, DivBy(k2=inner>>32.., ..)) not used.   -> `W <result | CRASH>`
pub fn run_width(lines: &[String], out: &mut dyn Write) {
    let sub = SubProblem { state: Arc::new(0usize), value: 0, path: vec![], ub: 0, depth: 0 };
    for l in lines {
        if !l.starts_with("W ") { continue; }
        let v = ints(l);
        let kind = v[0]; let k = v[1] as usize; let inner = v[2] as usize;
        let sub = sub.clone();
        let r = std::panic::catch_unwind(move || match kind {
            0 => Times(k, FixedWidth(inner)).max_width(&sub),
            1 => DivBy(k, FixedWidth(inner)).max_width(&sub),
            2 => Times(k, Times(k, FixedWidth(inner))).max_width(&sub),
            3 => DivBy(k, Times(k, FixedWidth(inner))).max_width(&sub),
            _ => Times(k, DivBy(k, FixedWidth(inner))).max_width(&sub),
        });
        match r {
            Ok(w) => writeln!(out, "W {}", w).unwrap(),
            Err(_) => writeln!(out, "W CRASH").unwrap(),
        }
    }
}

// ------------------------------------------------------------------ cache
struct NVars(usize);
impl Problem for NVars {
    type State = i64;
    fn nb_variables(&self) -> usize { self.0 }
    fn initial_state(&self) -> i64 { 0 }
    fn initial_value(&self) -> isize { 0 }
    fn transition(&self, s: &i64, _: Decision) -> i64 { *s }
    fn transition_cost(&self, _: &i64, _: &i64, _: Decision) -> isize { 0 }
    fn next_variable(&self, _: usize, _: &mut dyn Iterator<Item = &i64>) -> Option<Variable> { None }
    fn for_each_in_domain(&self, _: Variable, _: &i64, _: &mut dyn DecisionCallback) {}
}
fn dump_cache(c: &SimpleCache<i64>, nstates: i64, ndepth: usize) -> String {
    let mut s = String::new();
    for d in 0..ndepth {
        for st in 0..nstates {
            match c.get_threshold(&st, d) {
                None => s.push('-'),
                Some(t) => s.push_str(&format!("{}{}", t.value, if t.explored { "e" } else { "n" })),
            }
            s.push(',');
        }
    }
    s
}
/// `C nvars nstates <ops>` ; ops: `1 s d v e` update, `2 d` clear_layer, `3` clear, `4 s d v` must_explore
/// -> `C <dump after op1>|<dump after op2>|...` (must_explore prints m0/m1 before the dump)
pub fn run_cache(lines: &[String], out: &mut dyn Write) {
    for l in lines {
        if !l.starts_with("C ") { continue; }
        let v = ints(l);
        let nvars = v[0] as usize; let nstates = v[1] as i64;
        let r = std::panic::catch_unwind(|| {
            let mut c = SimpleCache::<i64>::default();
            c.initialize(&NVars(nvars));
            let mut res = String::new();
            let mut i = 2;
            while i < v.len() {
                match v[i] {
                    1 => { c.update_threshold(Arc::new(v[i+1] as i64), v[i+2] as usize, isz(v[i+3]), v[i+4] != 0); i += 5; }
                    2 => { c.clear_layer(v[i+1] as usize); i += 2; }
                    3 => { c.clear(); i += 1; }
                    4 => {
                        let sp = SubProblem { state: Arc::new(v[i+1] as i64), value: isz(v[i+3]), path: vec![], ub: 0, depth: v[i+2] as usize };
                        res.push_str(if c.must_explore(&sp) { "m1 " } else { "m0 " }); i += 4;
                    }
                    _ => panic!("bad op"),
                }
                res.push_str(&dump_cache(&c, nstates, nvars + 1));
                res.push('|');
            }
            res
        });
        match r { Ok(s) => writeln!(out, "C {}", s).unwrap(), Err(_) => writeln!(out, "C CRASH").unwrap() }
    }
}

/// concurrent phase: `P nvars nstates nthreads <updates: s d v e>*`: the updates are dealt round-robin
/// to the threads, all threads run their share concurrently (with interleaved reads checking
/// monotonicity of what they observe); prints the final dump, and `MONO0` if a thread observed a decrease.
pub fn run_cache_par(lines: &[String], out: &mut dyn Write) {
    for l in lines {
        if !l.starts_with("P ") { continue; }
        let v = ints(l);
        let nvars = v[0] as usize; let nstates = v[1] as i64; let nthreads = v[2] as usize;
        let ops: Vec<(i64, usize, isize, bool)> = v[3..].chunks(4).map(|c| (c[0] as i64, c[1] as usize, isz(c[2]), c[3] != 0)).collect();
        let mut c = SimpleCache::<i64>::default();
        c.initialize(&NVars(nvars));
        let mono = std::sync::atomic::AtomicBool::new(true);
        let barrier = std::sync::Barrier::new(nthreads);
        std::thread::scope(|s| {
            for t in 0..nthreads {
                let c = &c; let ops = &ops; let mono = &mono; let barrier = &barrier;
                s.spawn(move || {
                    barrier.wait();
                    let mut last: std::collections::HashMap<(i64, usize), Threshold> = Default::default();
                    for (k, (st, d, val, e)) in ops.iter().enumerate() {
                        if k % nthreads == t {
                            c.update_threshold(Arc::new(*st), *d, *val, *e);
                        }
                        if let Some(now) = c.get_threshold(st, *d) {
                            if let Some(prev) = last.get(&(*st, *d)) {
                                if now < *prev { mono.store(false, std::sync::atomic::Ordering::SeqCst); }
                            }
                            last.insert((*st, *d), now);
                        }
                    }
                });
            }
        });
        let m = if mono.load(std::sync::atomic::Ordering::SeqCst) { "MONO1" } else { "MONO0" };
        writeln!(out, "P {} {}", m, dump_cache(&c, nstates, nvars + 1)).unwrap();
    }
}

// ------------------------------------------------------------------ dominance
#[derive(Debug, Clone, PartialEq, Eq, Hash)]
pub struct DState { key: Option<i64>, coords: Vec<isize> }
pub struct DRule { use_value: bool }
impl Dominance for DRule {
    type State = DState;
    type Key = i64;
    fn get_key(&self, state: Arc<DState>) -> Option<i64> { state.key }
    fn nb_dimensions(&self, state: &DState) -> usize { state.coords.len() }
    fn get_coordinate(&self, state: &DState, i: usize) -> isize { state.coords[i] }
    fn use_value(&self) -> bool { self.use_value }
}
fn ord_str(o: Ordering) -> &'static str { match o { Ordering::Less => "L", Ordering::Equal => "E", Ordering::Greater => "G" } }
/// `D usevalue ncoord nvars <ops>`; ops: `1 key(-1=None) depth c1..cn value` query-or-insert,
///  `2 depth` clear_layer, `3 (key c1..cn value) (key c1..cn value)` cmp + partial_cmp of two states
/// -> `D r1 r2 ...` with r = `0` (inserted) | `1:<thr|none>` (dominated) | `-` | `c<L|E|G>:p<L|E|G|N><0|1>`
pub fn run_dom(lines: &[String], out: &mut dyn Write) {
    for l in lines {
        if !l.starts_with("D ") { continue; }
        let v = ints(l);
        let usev = v[0] != 0; let nc = v[1] as usize; let nvars = v[2] as usize;
        let r = std::panic::catch_unwind(|| {
            let chk = SimpleDominanceChecker::new(DRule { use_value: usev }, nvars);
            let rule = DRule { use_value: usev };
            let mut res = String::new();
            let mut i = 3;
            while i < v.len() {
                match v[i] {
                    1 => {
                        let key = if v[i+1] < 0 { None } else { Some(v[i+1] as i64) };
                        let depth = v[i+2] as usize;
                        let coords: Vec<isize> = v[i+3..i+3+nc].iter().map(|x| isz(*x)).collect();
                        let value = isz(v[i+3+nc]);
                        let r = chk.is_dominated_or_insert(Arc::new(DState { key, coords }), depth, value);
                        if r.dominated {
                            res.push_str(&format!("1:{} ", match r.threshold { None => "none".to_string(), Some(t) => t.to_string() }));
                        } else {
                            res.push_str(&format!("0{} ", match r.threshold { None => "".to_string(), Some(t) => format!(":{}", t) }));
                        }
                        i += 4 + nc;
                    }
                    2 => { chk.clear_layer(v[i+1] as usize); res.push_str("- "); i += 2; }
                    3 => {
                        let a = DState { key: Some(v[i+1] as i64), coords: v[i+2..i+2+nc].iter().map(|x| isz(*x)).collect() };
                        let va = isz(v[i+2+nc]);
                        let j = i + 3 + nc;
                        let b = DState { key: Some(v[j] as i64), coords: v[j+1..j+1+nc].iter().map(|x| isz(*x)).collect() };
                        let vb = isz(v[j+1+nc]);
                        let c = chk.cmp(&a, va, &b, vb);
                        let p = rule.partial_cmp(&a, va, &b, vb);
                        let ps = match p { None => "N0".to_string(), Some(r) => format!("{}{}", ord_str(r.ordering), if r.only_val_diff { 1 } else { 0 }) };
                        res.push_str(&format!("c{}:p{} ", ord_str(c), ps));
                        i = j + 2 + nc;
                    }
                    _ => panic!("bad op"),
                }
            }
            res
        });
        match r { Ok(s) => writeln!(out, "D {}", s.trim_end()).unwrap(), Err(_) => writeln!(out, "D CRASH").unwrap() }
    }
}

/// concurrent phase: `Q usevalue ncoord nthreads <inserts: key c1..cn value>* | <probes: key c1..cn value>*`
/// all inserts at depth 0, dealt round-robin to threads running concurrently; afterwards each probe is
/// answered *non-destructively* by querying a fresh clone?  The store cannot be cloned, so probes are
/// asked sequentially in order (each probe may insert) — the model does the same from the Pareto front.
pub fn run_dom_par(lines: &[String], out: &mut dyn Write) {
    for l in lines {
        if !l.starts_with("Q ") { continue; }
        let toks: Vec<&str> = l.split_whitespace().skip(1).collect();
        let bar = toks.iter().position(|t| *t == "|").unwrap();
        let head: Vec<i128> = toks[..bar].iter().map(|t| t.parse().unwrap()).collect();
        let probes: Vec<i128> = toks[bar+1..].iter().map(|t| t.parse().unwrap()).collect();
        let usev = head[0] != 0; let nc = head[1] as usize; let nthreads = head[2] as usize;
        let w = nc + 2;
        let ins: Vec<(i64, Vec<isize>, isize)> = head[3..].chunks(w).map(|c| (c[0] as i64, c[1..1+nc].iter().map(|x| isz(*x)).collect(), isz(c[1+nc]))).collect();
        let chk = SimpleDominanceChecker::new(DRule { use_value: usev }, 0);
        let barrier = std::sync::Barrier::new(nthreads);
        std::thread::scope(|s| {
            for t in 0..nthreads {
                let chk = &chk; let ins = &ins; let barrier = &barrier;
                s.spawn(move || {
                    barrier.wait();
                    for (k, (key, coords, value)) in ins.iter().enumerate() {
                        if k % nthreads == t {
                            chk.is_dominated_or_insert(Arc::new(DState { key: Some(*key), coords: coords.clone() }), 0, *value);
                        }
                    }
                });
            }
        });
        let mut res = String::new();
        for c in probes.chunks(w) {
            let r = chk.is_dominated_or_insert(Arc::new(DState { key: Some(c[0] as i64), coords: c[1..1+nc].iter().map(|x| isz(*x)).collect() }), 0, isz(c[1+nc]));
            res.push_str(if r.dominated { "1 " } else { "0 " });
        }
        writeln!(out, "Q {}", res.trim_end()).unwrap();
    }
}

// ------------------------------------------------------------------ fringes
pub struct IntRanking;
impl StateRanking for IntRanking {
    type State = i64;
    fn compare(&self, a: &i64, b: &i64) -> Ordering { a.cmp(b) }
}
fn sp_str(sp: &SubProblem<i64>) -> String {
    let p: Vec<String> = sp.path.iter().map(|d| format!("{}={}", d.variable.0, d.value)).collect();
    format!("({},{},{},{},[{}])", sp.state, sp.depth, sp.value, sp.ub, p.join(";"))
}
/// `F kind <ops>`; kind 0 = SimpleFringe, 1 = NoDupFringe (both with MaxUB over integer states);
/// ops: `1 state depth value ub pathtag` push (path = [x0 = pathtag]), `2` pop, `3` clear
/// -> `F <len>[:popped] ...` one token per op
pub fn run_fringe(lines: &[String], out: &mut dyn Write) {
    for l in lines {
        if !l.starts_with("F ") { continue; }
        let v = ints(l);
        let kind = v[0];
        let r = std::panic::catch_unwind(|| {
            let rk = IntRanking;
            let mut simple = SimpleFringe::new(MaxUB::new(&rk));
            let mut nodup = NoDupFringe::new(MaxUB::new(&rk));
            let f: &mut dyn Fringe<State = i64> = if kind == 0 { &mut simple } else { &mut nodup };
            let mut res = String::new();
            let mut i = 1;
            while i < v.len() {
                match v[i] {
                    1 => {
                        f.push(SubProblem { state: Arc::new(v[i+1] as i64), depth: v[i+2] as usize, value: isz(v[i+3]), ub: isz(v[i+4]),
                                            path: vec![Decision { variable: Variable(0), value: isz(v[i+5]) }] });
                        res.push_str(&format!("{} ", f.len()));
                        i += 6;
                    }
                    2 => {
                        let p = f.pop();
                        res.push_str(&format!("{}:{} ", f.len(), match p { None => "-".to_string(), Some(sp) => sp_str(&sp) }));
                        i += 1;
                    }
                    3 => { f.clear(); res.push_str(&format!("{} ", f.len())); i += 1; }
                    _ => panic!("bad op"),
                }
            }
            res
        });
        match r { Ok(s) => writeln!(out, "F {}", s.trim_end()).unwrap(), Err(_) => writeln!(out, "F CRASH").unwrap() }
    }
}
