//! Diagram-level runs: compile one sub-problem with one of the three diagram
//! implementations and dump everything observable through the public API.
use std::io::Write;
use std::sync::Arc;
use parking_lot::Mutex;
use ddo::*;
use crate::table::*;

fn esc(s: &str) -> String { s.replace('\n', "@@").replace('\t', "@t") }

fn viz(flags: i128) -> VizConfig {
    VizConfigBuilder::default()
        .show_value(flags & 1 != 0)
        .show_locb(flags & 2 != 0)
        .show_rub(flags & 4 != 0)
        .show_threshold(flags & 8 != 0)
        .show_deleted(flags & 16 != 0)
        .group_merged(flags & 32 != 0)
        .build().unwrap()
}

enum AnyDD { Lel(DefaultMDDLEL<St>), Fc(DefaultMDDFC<St>), Pooled(Pooled<St>) }
impl AnyDD {
    fn compile(&mut self, i: &CompilationInput<St>) -> Result<Completion, Reason> {
        match self { AnyDD::Lel(d) => d.compile(i), AnyDD::Fc(d) => d.compile(i), AnyDD::Pooled(d) => d.compile(i) }
    }
    fn dot(&self, c: &VizConfig) -> String {
        match self { AnyDD::Lel(d) => d.as_graphviz(c), AnyDD::Fc(d) => d.as_graphviz(c), AnyDD::Pooled(d) => d.as_graphviz(c) }
    }
    fn is_exact(&self) -> bool { match self { AnyDD::Lel(d) => d.is_exact(), AnyDD::Fc(d) => d.is_exact(), AnyDD::Pooled(d) => d.is_exact() } }
    fn best_value(&self) -> Option<isize> { match self { AnyDD::Lel(d) => d.best_value(), AnyDD::Fc(d) => d.best_value(), AnyDD::Pooled(d) => d.best_value() } }
    fn best_solution(&self) -> Option<Solution> { match self { AnyDD::Lel(d) => d.best_solution(), AnyDD::Fc(d) => d.best_solution(), AnyDD::Pooled(d) => d.best_solution() } }
    fn best_exact_value(&self) -> Option<isize> { match self { AnyDD::Lel(d) => d.best_exact_value(), AnyDD::Fc(d) => d.best_exact_value(), AnyDD::Pooled(d) => d.best_exact_value() } }
    fn best_exact_solution(&self) -> Option<Solution> { match self { AnyDD::Lel(d) => d.best_exact_solution(), AnyDD::Fc(d) => d.best_exact_solution(), AnyDD::Pooled(d) => d.best_exact_solution() } }
    fn drain(&mut self, f: &mut dyn FnMut(SubProblem<St>)) {
        match self { AnyDD::Lel(d) => d.drain_cutset(|s| f(s)), AnyDD::Fc(d) => d.drain_cutset(|s| f(s)), AnyDD::Pooled(d) => d.drain_cutset(|s| f(s)) }
    }
}

pub fn sub_str(sp: &SubProblem<St>) -> String {
    format!("({},{},{},{},{})", sp.depth, state_str(&sp.state), sp.value, sp.ub, dec_str(&sp.path))
}

/// `M flv ct width lb usecache usedom cutoffk depth value nst s1..sn plen (var val)*`
/// `V flv flags`   — DOT of the last diagram compiled with flavour flv, under the 6 flag bits
/// `CP depth value explored nst s1..sn` — preload the shared cache; `RS` — reset cache + dominance store
pub fn run(lines: &[String], out: &mut dyn Write) {
    let mut inst: Arc<Inst> = Arc::new(Inst::default());
    let mut dds: Vec<AnyDD> = vec![];
    let mut compiled: Vec<bool> = vec![false; 3];
    let log: Log = Arc::new(Mutex::new(vec![]));
    let mut cache = LogCache::default();
    let mut nocache = LogCache::default();
    let mut dom = TotalDom::new(&inst, false, None);
    let mut nodom = TotalDom::new(&inst, false, None);
    for l in lines {
        if l.starts_with("I ") {
            inst = Arc::new(parse_inst(l));
            dds = vec![AnyDD::Lel(Default::default()), AnyDD::Fc(Default::default()), AnyDD::Pooled(Default::default())];
            compiled = vec![false; 3];
            let pb = TProblem { inst: inst.clone(), log: None };
            cache = LogCache { inner: Some(SimpleCache::default()), log: Some(log.clone()) };
            cache.initialize(&pb);
            nocache = LogCache { inner: None, log: Some(log.clone()) };
            dom = TotalDom::new(&inst, true, Some(log.clone()));
            nodom = TotalDom::new(&inst, false, Some(log.clone()));
        } else if l.starts_with("RK") {
            crate::table::COARSE_RANKING.store(l.trim().ends_with('1'), std::sync::atomic::Ordering::Relaxed);
        } else if l.starts_with("RS") {
            cache.clear();
            dom = TotalDom::new(&inst, true, Some(log.clone()));
        } else if l.starts_with("CP ") {
            let v = crate::simple::ints(l);
            let nst = v[3] as usize;
            let st = St(v[4..4+nst].iter().map(|x| *x as u32).collect());
            cache.inner.as_ref().unwrap().update_threshold(Arc::new(st), v[0] as usize, v[1] as isize, v[2] != 0);
        } else if l.starts_with("V ") {
            let v = crate::simple::ints(l);
            let flv = v[0] as usize;
            if !compiled[flv] { writeln!(out, "V NODIAGRAM").unwrap(); continue; }
            let dd = &dds[flv];
            let r = std::panic::catch_unwind(std::panic::AssertUnwindSafe(|| dd.dot(&viz(v[1]))));
            match r { Ok(s) => writeln!(out, "V {}", esc(&s)).unwrap(), Err(_) => writeln!(out, "V CRASH").unwrap() }
        } else if l.starts_with("M ") {
            let v = crate::simple::ints(l);
            let flv = v[0] as usize;
            let ct = match v[1] { 0 => CompilationType::Exact, 1 => CompilationType::Relaxed, _ => CompilationType::Restricted };
            let width = v[2] as usize; let lb = v[3] as isize;
            let usecache = v[4] != 0; let usedom = v[5] != 0; let cutk = v[6] as usize;
            let depth = v[7] as usize; let value = v[8] as isize;
            let nst = v[9] as usize;
            let st = St(v[10..10+nst].iter().map(|x| *x as u32).collect());
            let mut p = 10 + nst;
            let plen = v[p] as usize; p += 1;
            let mut path = vec![];
            for _ in 0..plen { path.push(Decision { variable: Variable(v[p] as usize), value: v[p+1] as isize }); p += 2; }
            let residual = SubProblem { state: Arc::new(st), value, path, ub: isize::MAX, depth };
            log.lock().clear();
            let pb = TProblem { inst: inst.clone(), log: Some(log.clone()) };
            let rx = TRelax { inst: inst.clone(), log: Some(log.clone()) };
            let rk = TRanking;
            let cutoff = CountCutoff::new(cutk, 100000);
            let input = CompilationInput {
                comp_type: ct, problem: &pb, relaxation: &rx, ranking: &rk, cutoff: &cutoff, max_width: width,
                residual: &residual, best_lb: lb,
                cache: if usecache { &cache } else { &nocache },
                dominance: if usedom { &dom } else { &nodom },
            };
            let dd = &mut dds[flv];
            let r = std::panic::catch_unwind(std::panic::AssertUnwindSafe(|| {
                let c = dd.compile(&input);
                let mut s = String::new();
                match c {
                    Err(_) => { s.push_str("cut"); return (s, false); }
                    Ok(c) => { s.push_str(&format!("ok # cx={} cv={}", c.is_exact as u8, opt_str(c.best_value))); }
                }
                s.push_str(&format!(" # x={} # bv={} # bs={} # ev={} # es={}", dd.is_exact() as u8, opt_str(dd.best_value()),
                    dd.best_solution().map(|p| dec_str(&p)).unwrap_or("none".to_string()),
                    opt_str(dd.best_exact_value()),
                    dd.best_exact_solution().map(|p| dec_str(&p)).unwrap_or("none".to_string())));
                let dot = dd.dot(&viz(63));
                let mut cs: Vec<String> = vec![];
                if ct == CompilationType::Relaxed { dd.drain(&mut |sp| cs.push(sub_str(&sp))); }
                cs.sort();
                s.push_str(&format!(" # CS={}", cs.join(" ")));
                s.push_str(&format!(" # DOT={}", esc(&dot)));
                (s, true)
            }));
            match r {
                Ok((s, okc)) => {
                    compiled[flv] = okc;
                    let lg = log.lock().join(" ; ");
                    writeln!(out, "M {} # POLLS={} # LOG={}", s, cutoff.polls(), lg).unwrap()
                }
                Err(_) => { compiled[flv] = false; writeln!(out, "M CRASH").unwrap() }
            }
        }
    }
}
