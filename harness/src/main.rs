//! ddoharness — runs the *implementation* side of the correspondence checks.
//! Reads a case file (one case per line / block), prints one canonical result
//! line per case on stdout.  The OCaml driver (`extract/ddomodel`) reads the same
//! file and prints the model's answer in the same format.
mod simple;
mod table;
mod mddrun;
mod solve;
mod sched;
mod kp;
mod misp;

use std::io::{BufRead, Write};

fn main() {
    let args: Vec<String> = std::env::args().collect();
    if args.len() < 3 {
        eprintln!("usage: ddoharness <cmd> <casefile>");
        std::process::exit(2);
    }
    let cmd = args[1].as_str();
    let file = std::fs::File::open(&args[2]).expect("cannot open case file");
    let lines: Vec<String> = std::io::BufReader::new(file).lines().map(|l| l.unwrap()).collect();
    let stdout = std::io::stdout();
    let mut out = std::io::BufWriter::new(stdout.lock());
    // silence panic messages: panics are mapped to CRASH result lines
    std::panic::set_hook(Box::new(|_| {}));
    match cmd {
        "gap" => simple::run_gap(&lines, &mut out),
        "width" => simple::run_width(&lines, &mut out),
        "cache" => simple::run_cache(&lines, &mut out),
        "cachepar" => simple::run_cache_par(&lines, &mut out),
        "dom" => simple::run_dom(&lines, &mut out),
        "dompar" => simple::run_dom_par(&lines, &mut out),
        "fringe" => simple::run_fringe(&lines, &mut out),
        "mdd" => mddrun::run(&lines, &mut out),
        "solve" => solve::run(&lines, &mut out),
        "par" => sched::run(&lines, &mut out),
        "kp" => kp::run(&lines, &mut out),
        "misp" => misp::run(&lines, &mut out),
        _ => { eprintln!("unknown command {cmd}"); std::process::exit(2); }
    }
    out.flush().unwrap();
}
