//! Correspondence for the Coq model of the SHIPPED knapsack example (coq/theories/Knapsack.v): the example's own source file is
//! compiled into the harness and driven through the `Problem` / `Relaxation` / `StateRanking` traits only (its fields are private).
//!   K cap n p1 w1 ... pn wn    (items in file order)        -> `K order=i0,i1,...`  (the order chosen by Knapsack::new)
//!   Q v1 ... vk                decisions on the first k variables of that order
//!   G v.. | v.. | ...          merge of the states reached by several prefixes; ranking of the first two
#[path = "/repo/ddo/examples/knapsack/main.rs"]
#[allow(dead_code, unused_imports, clippy::all)]
mod example;
use example::*;
use ddo::*;
use std::io::Write;

fn st(s: &KnapsackState) -> String {
    let d = format!("{:?}", s);
    let nums: Vec<&str> = d.split(|c: char| !c.is_ascii_digit()).filter(|t| !t.is_empty()).collect();
    format!("({},{})", nums[0], nums[1])
}

fn domain(pb: &Knapsack, var: Variable, s: &KnapsackState) -> Vec<isize> {
    let mut dom = vec![];
    pb.for_each_in_domain(var, s, &mut |d: Decision| dom.push(d.value));
    dom
}

fn reach(pb: &Knapsack, vals: &[isize]) -> Option<(KnapsackState, isize)> {
    let mut s = pb.initial_state();
    let mut value = pb.initial_value();
    for (depth, val) in vals.iter().enumerate() {
        let var = pb.next_variable(depth, &mut std::iter::empty())?;
        if !domain(pb, var, &s).contains(val) { return None; }
        let d = Decision { variable: var, value: *val };
        let s2 = pb.transition(&s, d);
        value += pb.transition_cost(&s, &s2, d);
        s = s2;
    }
    Some((s, value))
}

pub fn run(lines: &[String], out: &mut dyn Write) {
    let mut pb: Option<Knapsack> = None;
    let mut pos_of: Vec<usize> = vec![];
    for l in lines {
        if l.starts_with("K ") {
            let v = crate::simple::ints(l);
            let cap = v[0] as usize; let n = v[1] as usize;
            let profit: Vec<isize> = (0..n).map(|i| v[2 + 2 * i] as isize).collect();
            let weight: Vec<usize> = (0..n).map(|i| v[3 + 2 * i] as usize).collect();
            let k = Knapsack::new(cap, profit, weight);
            let order: Vec<usize> = (0..n).map(|d| k.next_variable(d, &mut std::iter::empty()).unwrap().id()).collect();
            pos_of = vec![0; n];
            for (p, i) in order.iter().enumerate() { pos_of[*i] = p; }
            writeln!(out, "K order={} nvars={} past_end={}", order.iter().map(|x| x.to_string()).collect::<Vec<_>>().join(","), k.nb_variables(),
                     k.next_variable(n, &mut std::iter::empty()).is_none()).unwrap();
            pb = Some(k);
        } else if l.starts_with('Q') {
            let pb = pb.as_ref().unwrap();
            let vals: Vec<isize> = crate::simple::ints(l).iter().map(|x| *x as isize).collect();
            let r = std::panic::catch_unwind(std::panic::AssertUnwindSafe(|| {
                match reach(pb, &vals) {
                    None => "Q invalid".to_string(),
                    Some((s, value)) => {
                        let rx = KPRelax { pb };
                        let (var, dom, succ) = match pb.next_variable(vals.len(), &mut std::iter::empty()) {
                            None => ("none".to_string(), String::new(), String::new()),
                            Some(x) => {
                                let dm = domain(pb, x, &s);
                                // variables are reported by their POSITION in the order (the Coq model numbers them so)
                                (pos_of[x.id()].to_string(), dm.iter().map(|v| v.to_string()).collect::<Vec<_>>().join(","),
                                 dm.iter().map(|v| { let d = Decision { variable: x, value: *v }; let s2 = pb.transition(&s, d);
                                                     format!("{}:{}:{}", v, st(&s2), pb.transition_cost(&s, &s2, d)) }).collect::<Vec<_>>().join(";"))
                            }
                        };
                        format!("Q state={} value={} var={} dom=[{}] succ=[{}] rub={}", st(&s), value, var, dom, succ, rx.fast_upper_bound(&s))
                    }
                }
            }));
            writeln!(out, "{}", r.unwrap_or("Q CRASH".to_string())).unwrap();
        } else if l.starts_with('G') {
            let pb = pb.as_ref().unwrap();
            let groups: Vec<Vec<isize>> = l[1..].split('|').map(|g| g.split_whitespace().map(|t| t.parse().unwrap()).collect()).collect();
            let sts: Vec<Option<(KnapsackState, isize)>> = groups.iter().map(|g| reach(pb, g)).collect();
            if sts.iter().any(|o| o.is_none()) { writeln!(out, "G invalid").unwrap(); continue; }
            let sts: Vec<KnapsackState> = sts.into_iter().map(|o| o.unwrap().0).collect();
            let rx = KPRelax { pb };
            let mg = rx.merge(&mut sts.iter());
            let cmp = if sts.len() >= 2 { match KPRanking.compare(&sts[0], &sts[1]) { std::cmp::Ordering::Less => "lt", std::cmp::Ordering::Equal => "eq", _ => "gt" } } else { "na" };
            let relaxed = rx.relax(&mg, &mg, &mg, Decision { variable: Variable(0), value: 0 }, 7);
            writeln!(out, "G merged={} cmp={} relax7={}", st(&mg), cmp, relaxed).unwrap();
        }
    }
}
