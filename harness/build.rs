// The misp example's main.rs starts with inner doc comments (`//!`), which cannot be `include!`d into a module; its struct fields and its
// parser are private, so `#[path] mod` is not enough either. This script copies the file with `//!` turned into `//` (nothing else is
// touched) to OUT_DIR, from where src/misp.rs includes it. Re-run whenever the example changes.
use std::{env, fs, path::Path};
fn main() {
    let src = "/repo/ddo/examples/misp/main.rs";
    println!("cargo:rerun-if-changed={}", src);
    println!("cargo:rerun-if-changed=build.rs");
    let text = fs::read_to_string(src).expect("misp example source");
    let out: String = text.lines().map(|l| if l.trim_start().starts_with("//!") { l.replacen("//!", "//", 1) } else { l.to_string() }).collect::<Vec<_>>().join("\n");
    fs::write(Path::new(&env::var("OUT_DIR").unwrap()).join("misp_example.rs"), out).unwrap();
}
