(* ExSpec.v — independent specifications of the twelve example problems shipped with ddo (property C16).

   Every [*_opt] function below defines the optimum objective value of the underlying combinatorial problem
   by EXHAUSTIVE ENUMERATION of the candidate solutions (all subsets / permutations / assignments / schedules),
   a feasibility filter, an objective evaluation of one candidate, and min / max over the survivors.
   None of them is a dynamic program and none of them looks at the example's DP model (states, transitions,
   merge, bounds): they only fix the meaning of the instance data.  [None] means "no feasible solution".

   The functions are extracted (ExtractEx.v) and used as the oracle of the end-to-end check
   tools/check_examples.py.  Only the Coq standard library is used; there is no axiom. *)
Require Import ZArith List Bool Arith Lia.
Import ListNotations.
Open Scope Z_scope.

(* ------------------------------------------------------------------------------------------------ *)
(** * Enumerators *)

(** all sub-sequences (= subsets by position) of a list: 2^n of them *)
Fixpoint sublists {A} (l : list A) : list (list A) :=
  match l with
  | [] => [[]]
  | x :: r => let s := sublists r in map (cons x) s ++ s
  end.

(** all ways to insert [x] into [l] *)
Fixpoint inserts {A} (x : A) (l : list A) : list (list A) :=
  match l with
  | [] => [[x]]
  | y :: r => (x :: y :: r) :: map (cons y) (inserts x r)
  end.

(** all permutations of a list: n! of them *)
Fixpoint perms {A} (l : list A) : list (list A) :=
  match l with
  | [] => [[]]
  | x :: r => flat_map (inserts x) (perms r)
  end.

(** all words of length n over an alphabet: |alphabet|^n of them *)
Fixpoint tuples {A} (alphabet : list A) (n : nat) : list (list A) :=
  match n with
  | O => [[]]
  | S k => flat_map (fun t => map (fun a => a :: t) alphabet) (tuples alphabet k)
  end.

(** all sub-sequences of length exactly k *)
Fixpoint subsets_k {A} (l : list A) (k : nat) : list (list A) :=
  match l with
  | [] => match k with O => [[]] | S _ => [] end
  | x :: r => match k with
              | O => [[]]
              | S k' => map (cons x) (subsets_k r k') ++ subsets_k r k
              end
  end.

(* ------------------------------------------------------------------------------------------------ *)
(** * Optimum of a list of candidate values *)

Definition zsum (l : list Z) : Z := fold_left Z.add l 0.

Definition pick (better : Z -> Z -> bool) (acc : option Z) (x : option Z) : option Z :=
  match acc, x with
  | None, _ => x
  | _, None => acc
  | Some a, Some b => if better b a then Some b else Some a
  end.

(** largest / smallest defined value of a list of optional values *)
Definition zmax_opt (l : list (option Z)) : option Z := fold_left (pick Z.gtb) l None.
Definition zmin_opt (l : list (option Z)) : option Z := fold_left (pick Z.ltb) l None.
Definition zmax_list (l : list Z) : option Z := zmax_opt (map Some l).
Definition zmin_list (l : list Z) : option Z := zmin_opt (map Some l).

Definition mget (m : list (list Z)) (i j : nat) : Z := nth j (nth i m []) 0.

(* ------------------------------------------------------------------------------------------------ *)
(** * 1. knapsack: items = (profit, weight); choose a subset of total weight <= capacity, maximise total profit *)

Definition ks_profit (s : list (Z * Z)) : Z := zsum (map fst s).
Definition ks_weight (s : list (Z * Z)) : Z := zsum (map snd s).

Definition knapsack_opt (capacity : Z) (items : list (Z * Z)) : option Z :=
  zmax_list (map ks_profit (filter (fun s => ks_weight s <=? capacity) (sublists items))).

(* ------------------------------------------------------------------------------------------------ *)
(** * 2. misp: vertices 0..n-1 with weights, undirected edges; maximise the weight of a vertex set containing
      no edge (the empty set is a candidate, so the optimum is >= 0 even with negative weights) *)

Definition memb (x : nat) (s : list nat) : bool := existsb (Nat.eqb x) s.

Definition misp_independent (edges : list (nat * nat)) (s : list nat) : bool :=
  forallb (fun e => negb (memb (fst e) s && memb (snd e) s)) edges.

Definition misp_opt (weights : list Z) (edges : list (nat * nat)) : option Z :=
  zmax_list (map (fun s => zsum (map (fun v => nth v weights 0) s))
                 (filter (misp_independent edges) (sublists (seq 0 (length weights))))).

(* ------------------------------------------------------------------------------------------------ *)
(** * 3. max2sat: clauses (weight, lit1, lit2), literals are non-zero integers +-(1..n) (a unit clause has
      lit1 = lit2); maximise, over all 2^n truth assignments, the total weight of the satisfied clauses.
      A clause that occurs twice counts twice. *)

Definition lit_true (a : list bool) (l : Z) : bool :=
  if 0 <? l then nth (Z.to_nat (l - 1)) a false else negb (nth (Z.to_nat (- l - 1)) a false).

Definition clause_value (a : list bool) (c : Z * (Z * Z)) : Z :=
  let '(w, (x, y)) := c in if lit_true a x || lit_true a y then w else 0.

Definition max2sat_opt (n : nat) (clauses : list (Z * (Z * Z))) : option Z :=
  zmax_list (map (fun a => zsum (map (clause_value a) clauses)) (tuples [true; false] n)).

(* ------------------------------------------------------------------------------------------------ *)
(** * 4. mcp (max cut): edges (u, v, w) over vertices 0..n-1; maximise, over all 2^n side assignments, the
      total weight of the edges whose end points are on different sides (weights may be negative; the cut
      with everything on one side has weight 0) *)

Definition cut_value (a : list bool) (e : nat * nat * Z) : Z :=
  let '(u, v, w) := e in if Bool.eqb (nth u a false) (nth v a false) then 0 else w.

Definition mcp_opt (n : nat) (edges : list (nat * nat * Z)) : option Z :=
  zmax_list (map (fun a => zsum (map (cut_value a) edges)) (tuples [true; false] n)).

(* ------------------------------------------------------------------------------------------------ *)
(** * 5. lcs: the largest length of a string that is a sub-sequence of every given string *)

(** [is_subseq s t]: s can be obtained from t by deleting characters *)
Fixpoint is_subseq (s t : list nat) : bool :=
  match t with
  | [] => match s with [] => true | _ :: _ => false end
  | y :: t' => match s with
               | [] => true
               | x :: s' => if Nat.eqb x y then is_subseq s' t' else is_subseq s t'
               end
  end.

Definition lcs_opt (strings : list (list nat)) : option Z :=
  match strings with
  | [] => None
  | s0 :: rest =>
      zmax_list (map (fun s => Z.of_nat (length s))
                     (filter (fun s => forallb (is_subseq s) rest) (sublists s0)))
  end.

(* ------------------------------------------------------------------------------------------------ *)
(** * 6. golomb: the smallest length L of a ruler with n marks 0 = m1 < ... < mn = L whose pairwise
      differences are all distinct.  The search over L is bounded by 2^(n-1) - 1, the length of the ruler
      0,1,3,7,... which is a Golomb ruler. *)

Fixpoint diffs (m : list nat) : list nat :=      (* m increasing *)
  match m with
  | [] => []
  | x :: r => map (fun y => (y - x)%nat) r ++ diffs r
  end.

Fixpoint nodupb (l : list nat) : bool :=
  match l with
  | [] => true
  | x :: r => negb (memb x r) && nodupb r
  end.

Definition golomb_ok (marks : list nat) : bool := nodupb (diffs marks).

Definition golomb_exists (n L : nat) : bool :=
  match n with
  | O => false
  | S O => Nat.eqb L 0
  | S (S k) => Nat.leb 1 L && existsb (fun mid => golomb_ok (O :: mid ++ [L])) (subsets_k (seq 1 (L - 1)) k)
  end.

Definition golomb_opt (n : nat) : option Z :=
  option_map Z.of_nat (find (golomb_exists n) (seq 0 (2 ^ (n - 1)))).

(* ------------------------------------------------------------------------------------------------ *)
(** * 7. sop: n nodes, matrix d; d i j = -1 means "j must come before i".  Minimise the length of a path
      0, (a permutation of 1..n-2), n-1 that respects every precedence. *)

Fixpoint index_of (x : nat) (l : list nat) : nat :=
  match l with
  | [] => O
  | y :: r => if Nat.eqb x y then O else S (index_of x r)
  end.

Definition sop_respects (d : list (list Z)) (n : nat) (path : list nat) : bool :=
  forallb (fun i => forallb (fun j => if mget d i j =? -1 then Nat.ltb (index_of j path) (index_of i path) else true)
                            (seq 0 n)) (seq 0 n).

Fixpoint path_cost (d : list (list Z)) (path : list nat) : Z :=
  match path with
  | a :: r => match r with
              | b :: _ => mget d a b + path_cost d r
              | [] => 0
              end
  | [] => 0
  end.

Definition sop_opt (d : list (list Z)) : option Z :=
  let n := length d in
  match n with
  | O => None
  | S O => Some 0
  | _ => zmin_list (map (path_cost d)
                        (filter (sop_respects d n)
                                (map (fun p => O :: p ++ [(n - 1)%nat]) (perms (seq 1 (n - 2))))))
  end.

(* ------------------------------------------------------------------------------------------------ *)
(** * 8. tsptw: n nodes, travel times d, time windows (earliest, latest).  A tour leaves the depot 0 at time 0,
      visits every other node once and returns to the depot.  Arriving at j at time a is allowed iff
      a <= latest j; the visit then starts at max a (earliest j) (waiting is allowed).  Minimise the time at
      which the tour is back at the depot (= travel + waiting time). *)

Fixpoint tsptw_run (d : list (list Z)) (tw : list (Z * Z)) (cur : nat) (t : Z) (rest : list nat) : option Z :=
  match rest with
  | [] => Some t
  | j :: r =>
      let arr := t + mget d cur j in
      let '(e, l) := nth j tw (0, 0) in
      if arr <=? l then tsptw_run d tw j (Z.max arr e) r else None
  end.

Definition tsptw_opt (d : list (list Z)) (tw : list (Z * Z)) : option Z :=
  let n := length d in
  zmin_opt (map (fun p => tsptw_run d tw O 0 (p ++ [O])) (perms (seq 1 (n - 1)))).

(* ------------------------------------------------------------------------------------------------ *)
(** * 9. srflp: departments with lengths placed side by side on a row; flow c a b between departments
      (symmetric; the upper triangle is read).  Minimise sum_{a<b} c a b * (distance between the centres).
      The function returns TWICE the objective (so it stays an integer). *)

Definition flow (flows : list (list Z)) (a b : nat) : Z := mget flows (Nat.min a b) (Nat.max a b).

(** a is placed; [gap2] = twice the total length strictly between a and the head of [rest] *)
Fixpoint srflp_from (lens : list Z) (flows : list (list Z)) (a : nat) (gap2 : Z) (rest : list nat) : Z :=
  match rest with
  | [] => 0
  | b :: r => flow flows a b * (nth a lens 0 + gap2 + nth b lens 0)
              + srflp_from lens flows a (gap2 + 2 * nth b lens 0) r
  end.

Fixpoint srflp_cost2 (lens : list Z) (flows : list (list Z)) (p : list nat) : Z :=
  match p with
  | [] => 0
  | a :: r => srflp_from lens flows a 0 r + srflp_cost2 lens flows r
  end.

Definition srflp_opt2 (lens : list Z) (flows : list (list Z)) : option Z :=
  zmin_list (map (srflp_cost2 lens flows) (perms (seq 0 (length lens)))).

(* ------------------------------------------------------------------------------------------------ *)
(** * 10. talentsched: scenes with durations, actors with a daily cost and the set of scenes they play in.
      For an order of the scenes an actor is paid for every scene from her first to her last one (inclusive).
      Minimise the total pay over all orders of the scenes. *)

Fixpoint drop_absent (present : nat -> bool) (p : list nat) : list nat :=
  match p with
  | [] => []
  | s :: r => if present s then p else drop_absent present r
  end.

(** the scenes during which the actor is on location: from her first to her last scene *)
Definition on_location (present : nat -> bool) (p : list nat) : list nat :=
  rev (drop_absent present (rev (drop_absent present p))).

Definition talent_cost (dur : list Z) (actors : list (Z * list bool)) (p : list nat) : Z :=
  zsum (map (fun a => fst a * zsum (map (fun s => nth s dur 0) (on_location (fun s => nth s (snd a) false) p))) actors).

Definition talent_opt (dur : list Z) (actors : list (Z * list bool)) : option Z :=
  zmin_list (map (talent_cost dur actors) (perms (seq 0 (length dur)))).

(* ------------------------------------------------------------------------------------------------ *)
(** * 11. psp (pigment sequencing / discrete lot sizing): T periods, one machine producing at most one unit of
      one item per period; demand i t in {0,1} is due at the end of period t.  A schedule assigns an item or
      idle to every period.  It is feasible iff the inventory of every item (produced so far - demanded so
      far) is never negative and is 0 at the end.  Cost = sum over items and periods of stocking i * inventory
      + changeover a b for every two consecutive productions a, b (idle periods skipped).  Minimise. *)

Definition produced (sched : list (option nat)) (i : nat) (t : nat) : Z :=
  Z.of_nat (length (filter (fun x => match x with Some j => Nat.eqb i j | None => false end) (firstn (S t) sched))).

Definition demanded (dem : list (list Z)) (i : nat) (t : nat) : Z := zsum (firstn (S t) (nth i dem [])).

Definition inventory (dem : list (list Z)) (sched : list (option nat)) (i t : nat) : Z :=
  produced sched i t - demanded dem i t.

Definition psp_feasible (T nitems : nat) (dem : list (list Z)) (sched : list (option nat)) : bool :=
  forallb (fun i => forallb (fun t => 0 <=? inventory dem sched i t) (seq 0 T)
                    && (match T with O => true | S t => inventory dem sched i t =? 0 end)) (seq 0 nitems).

Fixpoint productions (sched : list (option nat)) : list nat :=
  match sched with
  | [] => []
  | Some i :: r => i :: productions r
  | None :: r => productions r
  end.

Definition psp_cost (T nitems : nat) (change : list (list Z)) (stock : list Z) (dem : list (list Z))
           (sched : list (option nat)) : Z :=
  zsum (map (fun i => nth i stock 0 * zsum (map (inventory dem sched i) (seq 0 T))) (seq 0 nitems))
  + path_cost change (productions sched).

Definition psp_opt (T nitems : nat) (change : list (list Z)) (stock : list Z) (dem : list (list Z)) : option Z :=
  zmin_list (map (psp_cost T nitems change stock dem)
                 (filter (psp_feasible T nitems dem) (tuples (None :: map Some (seq 0 nitems)) T))).

(* ------------------------------------------------------------------------------------------------ *)
(** * 12. alp (aircraft landing): aircraft a has (target, latest, class); R runways; sep c1 c2 = minimum time
      between a landing of class c1 and a LATER landing of class c2 on the same runway.  A solution gives
      every aircraft a runway and a landing time x with target <= x <= latest such that the separations hold
      between every two aircraft of one runway; minimise sum (x - target).
      Enumeration: every global landing order (n! permutations) x every runway assignment (R^n); for a given
      order and assignment every aircraft lands as early as the aircraft before it on its runway allow
      (delays only hurt: landing earlier never invalidates a later landing). *)

Definition alp_time (ac : list (Z * Z * nat)) (sep : list (list Z)) (landed : list (nat * nat * Z)) (a r : nat) : Z :=
  let '(tgt, _, ca) := nth a ac (0, 0, O) in
  fold_left (fun acc l => let '(b, rb, xb) := l in
                          let '(_, _, cb) := nth b ac (0, 0, O) in
                          if Nat.eqb rb r then Z.max acc (xb + mget sep cb ca) else acc) landed tgt.

Fixpoint alp_run (ac : list (Z * Z * nat)) (sep : list (list Z)) (order : list (nat * nat))
         (landed : list (nat * nat * Z)) (cost : Z) : option Z :=
  match order with
  | [] => Some cost
  | (a, r) :: rest =>
      let '(tgt, lat, _) := nth a ac (0, 0, O) in
      let x := alp_time ac sep landed a r in
      if x <=? lat then alp_run ac sep rest ((a, r, x) :: landed) (cost + (x - tgt)) else None
  end.

Definition alp_opt (nrunways : nat) (ac : list (Z * Z * nat)) (sep : list (list Z)) : option Z :=
  let n := length ac in
  zmin_opt (flat_map (fun p => map (fun rs => alp_run ac sep (combine p rs) [] 0) (tuples (seq 0 nrunways) n))
                     (perms (seq 0 n))).

(* ------------------------------------------------------------------------------------------------ *)
(** * Sanity checks (instances of /repo/resources with the optima asserted by the examples' tests.rs) *)

Example enum_sizes :
  (length (sublists [1;2;3;4]), length (perms [1;2;3;4]), length (tuples [1;2;3] 3), length (subsets_k [1;2;3;4;5] 2))
  = (16, 24, 27, 10)%nat.
Proof. vm_compute. reflexivity. Qed.

(* resources/knapsack/f4_l-d_kp_4_11 : 23,  f3_l-d_kp_4_20 : 35 *)
Example knapsack_f4 : knapsack_opt 11 [(6,2); (10,4); (12,6); (13,7)] = Some 23.
Proof. vm_compute. reflexivity. Qed.
Example knapsack_f3 : knapsack_opt 20 [(9,6); (11,5); (13,9); (15,7)] = Some 35.
Proof. vm_compute. reflexivity. Qed.

(* a triangle with a pendant vertex, one negative weight *)
Example misp_small : misp_opt [3; 4; -2; 5] [(0,1); (1,2); (0,2); (2,3)]%nat = Some 9.
Proof. vm_compute. reflexivity. Qed.

(* resources/max2sat/debug2.wcnf : 13, negative_wt.wcnf : 4258, tautology.wcnf : 7, unit.wcnf : 6 *)
Example max2sat_debug2 : max2sat_opt 3 [(2,(-1,-1)); (4,(-2,1)); (4,(2,3)); (3,(1,3))] = Some 13.
Proof. vm_compute. reflexivity. Qed.
Example max2sat_negative_wt : max2sat_opt 2 [(-2842,(-1,-1)); (4258,(-2,-1))] = Some 4258.
Proof. vm_compute. reflexivity. Qed.
Example max2sat_tautology : max2sat_opt 2 [(2,(-2,-1)); (2,(-1,1)); (1,(-1,2)); (2,(1,2))] = Some 7.
Proof. vm_compute. reflexivity. Qed.
Example max2sat_unit : max2sat_opt 2 [(2,(-2,-2)); (2,(-2,1)); (0,(-1,1)); (2,(-2,-1))] = Some 6.
Proof. vm_compute. reflexivity. Qed.

(* a 4-cycle with one negative chord *)
Example mcp_small : mcp_opt 4 [(0,1,3%Z); (1,2,2%Z); (2,3,4%Z); (3,0,1%Z); (0,2,(-5)%Z)]%nat = Some 10.
Proof. vm_compute. reflexivity. Qed.
Example mcp_all_negative : mcp_opt 3 [(0,1,(-1)%Z); (1,2,(-1)%Z)]%nat = Some 0.
Proof. vm_compute. reflexivity. Qed.

(* "abcbdab" / "bdcaba" : 4 *)
Example lcs_small : lcs_opt [[0;1;2;1;3;0;1]; [1;3;2;0;1;0]]%nat = Some 4.
Proof. vm_compute. reflexivity. Qed.

(* examples/golomb/tests.rs : 1, 3, 6, 11, 17 *)
Example golomb_2_6 : map golomb_opt [1; 2; 3; 4; 5; 6]%nat = [Some 0; Some 1; Some 3; Some 6; Some 11; Some 17].
Proof. vm_compute. reflexivity. Qed.

(* resources/sop/ESC07.sop : 2125 *)
Example sop_esc07 : sop_opt
  [[0; 0; 0; 0; 0; 0; 0; 0; 1000000];
   [-1; 0; 100; 200; 75; 0; 300; 100; 0];
   [-1; 400; 0; 500; 325; 400; 600; 0; 0];
   [-1; 700; 800; 0; 550; 700; 900; 800; 0];
   [-1; -1; 250; 225; 0; 275; 525; 250; 0];
   [-1; -1; 100; 200; -1; 0; -1; -1; 0];
   [-1; -1; 1100; 1200; 1075; 1000; 0; 1100; 0];
   [-1; -1; 0; 500; 325; 400; 600; 0; 0];
   [-1; -1; -1; -1; -1; -1; -1; -1; 0]] = Some 2125.
Proof. vm_compute. reflexivity. Qed.

(* a 3-node tour where waiting is needed, and an infeasible variant *)
Example tsptw_small : tsptw_opt [[0; 2; 5]; [2; 0; 1]; [5; 1; 0]] [(0, 100); (10, 20); (0, 4)] = None.
Proof. vm_compute. reflexivity. Qed.
Example tsptw_small2 : tsptw_opt [[0; 2; 5]; [2; 0; 1]; [5; 1; 0]] [(0, 100); (10, 20); (0, 5)] = Some 12.
Proof. vm_compute. reflexivity. Qed.

(* resources/srflp/Cl5 (lengths + 10 for the clearance) : 1100 *)
Example srflp_cl5 : srflp_opt2 [50; 30; 60; 40; 20]
  [[0;5;2;4;1]; [5;0;3;0;2]; [2;3;0;0;0]; [4;0;0;0;5]; [1;2;0;5;0]] = Some 2200.
Proof. vm_compute. reflexivity. Qed.

(* resources/talentsched/tiny : 29, tiny2 : 9 *)
Example talent_tiny : talent_opt [1; 2; 3; 1]
  [(1, [true; false; true; false]); (2, [true; true; false; true]); (3, [false; true; true; false])] = Some 29.
Proof. vm_compute. reflexivity. Qed.
Example talent_tiny2 : talent_opt [1; 1; 1; 1; 1]
  [(1, [true; true; false; true; false]); (1, [false; true; true; false; true]); (1, [false; false; true; true; false])] = Some 9.
Proof. vm_compute. reflexivity. Qed.

(* resources/psp/instancesWith2items/1 : 13 *)
Example psp_2items_1 : psp_opt 4 2 [[0; 10]; [5; 0]] [5; 2] [[0; 0; 1; 1]; [0; 0; 1; 1]] = Some 13.
Proof. vm_compute. reflexivity. Qed.
Example psp_infeasible : psp_opt 2 2 [[0; 1]; [1; 0]] [1; 1] [[1; 0]; [1; 0]] = None.
Proof. vm_compute. reflexivity. Qed.

(* one runway, two aircraft of one class with separation 10: the second is delayed by 7 *)
Example alp_small : alp_opt 1 [(0, 50, 0%nat); (3, 50, 0%nat)] [[10]] = Some 7.
Proof. vm_compute. reflexivity. Qed.
Example alp_small_two_runways : alp_opt 2 [(0, 50, 0%nat); (3, 50, 0%nat)] [[10]] = Some 0.
Proof. vm_compute. reflexivity. Qed.
Example alp_small_infeasible : alp_opt 1 [(0, 5, 0%nat); (3, 6, 0%nat)] [[10]] = None.
Proof. vm_compute. reflexivity. Qed.
