(* Conc.v — order-independence facts behind the concurrency clause of C18:
   under assumption A-dashmap (every trait method is one atomic map operation on one key) a concurrent
   history is an interleaving of atomic steps; these theorems show the outcome does not depend on it. *)
From Coq Require Import Permutation.
Require Import DDO.Base DDO.Cache DDO.Dom DDO.DomProofs.
Open Scope Z_scope.

Section CacheConc.
  Context {St : Type}.
  Variable eqb : St -> St -> bool.
  Hypothesis eqb_spec : forall a b, eqb a b = true <-> a = b.

  Definition is_update (o : @cop St) : Prop := match o with OpUpdate _ _ _ _ => True | _ => False end.

  Lemma spec_get_from_swap acc o1 o2 ops s d : is_update o1 -> is_update o2 ->
    spec_get_from eqb acc (o1 :: o2 :: ops) s d = spec_get_from eqb acc (o2 :: o1 :: ops) s d.
  Proof.
    destruct o1 as [s1 d1 v1 e1| |]; destruct o2 as [s2 d2 v2 e2| |]; simpl; try tauto. intros _ _.
    destruct (Nat.eqb d1 d && eqb s1 s); destruct (Nat.eqb d2 d && eqb s2 s); auto.
    rewrite (th_max_assoc_comm {| th_value := v1; th_explored := e1 |} {| th_value := v2; th_explored := e2 |} acc).
    reflexivity.
  Qed.

  Lemma spec_get_from_perm ops1 ops2 : Permutation ops1 ops2 -> Forall is_update ops1 ->
    forall acc s d, spec_get_from eqb acc ops1 s d = spec_get_from eqb acc ops2 s d.
  Proof.
    induction 1 as [|o l1 l2 Hp IH|o1 o2 l|l1 l2 l3 Hp1 IH1 Hp2 IH2]; intros HF acc s d.
    - reflexivity.
    - inversion HF as [|? ? Ho HF']; subst. destruct o as [s0 d0 v0 e0| |]; simpl in Ho; try tauto. simpl.
      destruct (Nat.eqb d0 d && eqb s0 s); apply IH; auto.
    - inversion HF as [|? ? Ho1 HF']; subst. inversion HF' as [|? ? Ho2 HF'']; subst.
      apply spec_get_from_swap; auto.
    - rewrite IH1 by auto. apply IH2. eapply Permutation_Forall; eauto.
  Qed.

  (* any two interleavings of the same update operations leave the same observable cache content *)
  Theorem cache_updates_order_independent c ops1 ops2 c1 c2 s d :
    Permutation ops1 ops2 -> Forall is_update ops1 ->
    crun eqb c ops1 = Some c1 -> crun eqb c ops2 = Some c2 -> (d < length c)%nat ->
    cget eqb c1 s d = cget eqb c2 s d.
  Proof.
    intros Hp HF H1 H2 Hd.
    rewrite (crun_spec_from eqb eqb_spec _ _ _ s d H1 Hd), (crun_spec_from eqb eqb_spec _ _ _ s d H2 Hd).
    apply spec_get_from_perm; auto.
  Qed.

  (* no update is lost: after running updates, the stored threshold is at least each recorded one *)
  Lemma spec_get_from_ge ops : Forall is_update ops -> forall acc s d t,
    (acc = Some t \/ exists v e, In (OpUpdate s d v e) ops /\ t = {| th_value := v; th_explored := e |}) ->
    exists t', spec_get_from eqb acc ops s d = Some t' /\ th_le t t'.
  Proof.
    induction ops as [|o ops IH]; intros HF acc s d t H.
    - destruct H as [->|(v & e & [] & _)]. exists t. split; auto. unfold th_le. rewrite th_cmp_refl. discriminate.
    - inversion HF as [|? ? Ho HF']; subst. destruct o as [s0 d0 v0 e0| |]; simpl in Ho; try tauto. simpl.
      destruct (Nat.eqb_spec d0 d) as [->|Hd]; simpl.
      + destruct (eqb s0 s) eqn:Es.
        * apply eqb_spec in Es; subst s0.
          set (t0 := {| th_value := v0; th_explored := e0 |}).
          destruct H as [->|(v & e & [Hin|Hin] & ->)].
          -- destruct (IH HF' (omax_th (Some t) t0) s d (th_max t0 t) (or_introl eq_refl)) as (t' & E & L).
             exists t'. split; auto. unfold th_le in *. rewrite th_cmp_key in *. pose proof (th_max_key t0 t). 
             intros HG. apply Z.compare_gt_iff in HG. apply L. apply Z.compare_gt_iff. lia.
          -- inversion Hin; subst v e.
             destruct (IH HF' (omax_th acc t0) s d (match acc with None => t0 | Some a => th_max t0 a end)) as (t' & E & L).
             { left. destruct acc; reflexivity. }
             exists t'. split; auto. unfold th_le in *. rewrite th_cmp_key in *.
             intros HG. apply Z.compare_gt_iff in HG. apply L. apply Z.compare_gt_iff.
             destruct acc as [a|]; [pose proof (th_max_key t0 a); fold t0 in HG; lia|fold t0 in HG; lia].
          -- apply (IH HF' _ s d). right. eauto.
        * destruct H as [->|(v & e & [Hin|Hin] & ->)].
          -- apply (IH HF' _ s d). left; reflexivity.
          -- inversion Hin; subst. rewrite (proj2 (eqb_spec s s) eq_refl) in Es. discriminate.
          -- apply (IH HF' _ s d). right. eauto.
      + destruct H as [->|(v & e & [Hin|Hin] & ->)].
        -- apply (IH HF' _ s d). left; reflexivity.
        -- inversion Hin; subst. contradiction.
        -- apply (IH HF' _ s d). right. eauto.
  Qed.

  Theorem cache_no_update_lost c ops c' s d v e :
    Forall is_update ops -> crun eqb c ops = Some c' -> (d < length c)%nat -> In (OpUpdate s d v e) ops ->
    exists t', cget eqb c' s d = Some t' /\ th_le {| th_value := v; th_explored := e |} t'.
  Proof.
    intros HF Hrun Hd Hin. rewrite (crun_spec_from eqb eqb_spec _ _ _ s d Hrun Hd).
    apply spec_get_from_ge; auto. right. eauto.
  Qed.
End CacheConc.

Section DomConc.
  Context {St Key : Type}.
  Variable get_key : St -> option Key.
  Variable nd : nat.
  Variable coord : St -> nat -> Z.
  Variable use_value : bool.

  (* the verdict on a later query depends only on the SET of states recorded before, not on their order *)
  Theorem dominance_order_independent (qs1 qs2 : list (St * Z)) s v :
    Permutation qs1 qs2 ->
    dc_dominated (snd (bucket_query nd coord use_value s v (bucket_after nd coord use_value qs1))) =
    dc_dominated (snd (bucket_query nd coord use_value s v (bucket_after nd coord use_value qs2))).
  Proof.
    intros Hp.
    pose proof (pareto_front_history get_key nd coord use_value qs1 s v) as H1.
    pose proof (pareto_front_history get_key nd coord use_value qs2 s v) as H2.
    destruct (dc_dominated (snd (bucket_query nd coord use_value s v (bucket_after nd coord use_value qs1)))) eqn:E1;
    destruct (dc_dominated (snd (bucket_query nd coord use_value s v (bucket_after nd coord use_value qs2)))) eqn:E2; auto.
    - destruct (proj1 H1 eq_refl) as (s' & v' & Hin & Hle).
      assert (Hf : false = true); [|discriminate Hf]. apply H2. exists s', v'. split; auto.
      eapply Permutation_in; eauto.
    - destruct (proj1 H2 eq_refl) as (s' & v' & Hin & Hle).
      assert (Hf : false = true); [|discriminate Hf]. apply H1. exists s', v'. split; auto.
      eapply Permutation_in; [apply Permutation_sym|]; eauto.
  Qed.
End DomConc.
