(* Mdd.v — executable transliteration of the three decision-diagram implementations:
     ddo/src/implementation/mdd/clean.rs   (Mdd<T, LAST_EXACT_LAYER>, Mdd<T, FRONTIER>)
     ddo/src/implementation/mdd/pooled.rs  (Pooled<T>)
   One parametric model; the flavour switches sit where `diff clean.rs pooled.rs` differs.
   A compilation is a function of its input (the Rust `_compile` starts with `_clear`), it threads
   the threshold cache, the dominance store, the call log and the cutoff poll counter.

   Hash-map iteration order (next_l / pool) is abstracted as follows (DESIGN.md section 3):
   the layer is sorted by the DominanceChecker's comparator, assumed TOTAL on the states of a layer;
   the residual choice among equally valued terminal nodes is the oracle argument (tb, tb2). *)
Require Import DDO.Base DDO.Fringe DDO.DP DDO.Cache DDO.Dom.
Open Scope Z_scope.

Inductive flavour := CleanLEL | CleanFC | Pooled.
Inductive comptype := Exact | Relaxed | Restricted.
Definition flavour_eqb (a b : flavour) : bool :=
  match a, b with CleanLEL, CleanLEL | CleanFC, CleanFC | Pooled, Pooled => true | _, _ => false end.
Definition is_pooled (f : flavour) : bool := match f with Pooled => true | _ => false end.
Definition is_relaxed_ct (c : comptype) : bool := match c with Relaxed => true | _ => false end.

(* NodeFlags: one boolean per bit *)
Record flags := {
  f_exact : bool; f_relaxed : bool; f_marked : bool; f_cutset : bool;
  f_deleted : bool; f_cache : bool; f_above : bool }.
Definition fl_new_exact : flags :=
  {| f_exact := true; f_relaxed := false; f_marked := false; f_cutset := false; f_deleted := false; f_cache := false; f_above := false |}.
Definition fl_new_relaxed : flags :=
  {| f_exact := false; f_relaxed := true; f_marked := false; f_cutset := false; f_deleted := false; f_cache := false; f_above := false |}.
Definition fl_is_exact (f : flags) : bool := f_exact f && negb (f_relaxed f).
Definition fl_set_exact (f : flags) (b : bool) : flags :=
  {| f_exact := b; f_relaxed := f_relaxed f; f_marked := f_marked f; f_cutset := f_cutset f; f_deleted := f_deleted f; f_cache := f_cache f; f_above := f_above f |}.
Definition fl_set_relaxed (f : flags) (b : bool) : flags :=
  {| f_exact := f_exact f; f_relaxed := b; f_marked := f_marked f; f_cutset := f_cutset f; f_deleted := f_deleted f; f_cache := f_cache f; f_above := f_above f |}.
Definition fl_set_marked (f : flags) (b : bool) : flags :=
  {| f_exact := f_exact f; f_relaxed := f_relaxed f; f_marked := b; f_cutset := f_cutset f; f_deleted := f_deleted f; f_cache := f_cache f; f_above := f_above f |}.
Definition fl_set_cutset (f : flags) (b : bool) : flags :=
  {| f_exact := f_exact f; f_relaxed := f_relaxed f; f_marked := f_marked f; f_cutset := b; f_deleted := f_deleted f; f_cache := f_cache f; f_above := f_above f |}.
Definition fl_set_deleted (f : flags) (b : bool) : flags :=
  {| f_exact := f_exact f; f_relaxed := f_relaxed f; f_marked := f_marked f; f_cutset := f_cutset f; f_deleted := b; f_cache := f_cache f; f_above := f_above f |}.
Definition fl_set_cache (f : flags) (b : bool) : flags :=
  {| f_exact := f_exact f; f_relaxed := f_relaxed f; f_marked := f_marked f; f_cutset := f_cutset f; f_deleted := f_deleted f; f_cache := b; f_above := f_above f |}.
Definition fl_set_above (f : flags) (b : bool) : flags :=
  {| f_exact := f_exact f; f_relaxed := f_relaxed f; f_marked := f_marked f; f_cutset := f_cutset f; f_deleted := f_deleted f; f_cache := f_cache f; f_above := b |}.

Record edge := { e_from : nat; e_to : nat; e_dec : decision; e_cost : Z }.

Section Mdd.
  Context {St : Type}.
  Variable st_eqb : St -> St -> bool.

  Record node := {
    n_state : St; n_vtop : Z; n_vbot : Z;
    n_best : option nat;          (* id of the last edge of the longest path from the root *)
    n_inb : list nat;             (* inbound edge ids, most recently appended first (the linked edge list) *)
    n_rub : Z; n_theta : option Z; n_flags : flags; n_depth : nat }.

  Definition set_flags (n : node) (f : flags) : node :=
    {| n_state := n_state n; n_vtop := n_vtop n; n_vbot := n_vbot n; n_best := n_best n; n_inb := n_inb n;
       n_rub := n_rub n; n_theta := n_theta n; n_flags := f; n_depth := n_depth n |}.
  Definition set_theta (n : node) (t : option Z) : node :=
    {| n_state := n_state n; n_vtop := n_vtop n; n_vbot := n_vbot n; n_best := n_best n; n_inb := n_inb n;
       n_rub := n_rub n; n_theta := t; n_flags := n_flags n; n_depth := n_depth n |}.
  Definition set_vbot (n : node) (v : Z) : node :=
    {| n_state := n_state n; n_vtop := n_vtop n; n_vbot := v; n_best := n_best n; n_inb := n_inb n;
       n_rub := n_rub n; n_theta := n_theta n; n_flags := n_flags n; n_depth := n_depth n |}.
  Definition set_rub (n : node) (v : Z) : node :=
    {| n_state := n_state n; n_vtop := n_vtop n; n_vbot := n_vbot n; n_best := n_best n; n_inb := n_inb n;
       n_rub := v; n_theta := n_theta n; n_flags := n_flags n; n_depth := n_depth n |}.
  Definition set_depth (n : node) (d : nat) : node :=
    {| n_state := n_state n; n_vtop := n_vtop n; n_vbot := n_vbot n; n_best := n_best n; n_inb := n_inb n;
       n_rub := n_rub n; n_theta := n_theta n; n_flags := n_flags n; n_depth := d |}.

  (* the environment of one compilation: CompilationInput *)
  Record cinput := {
    ci_flavour : flavour;
    ci_type : comptype;
    ci_problem : problem St;
    ci_relax : relaxation St;
    ci_ranking : St -> St -> comparison;                    (* StateRanking::compare *)
    ci_domcmp : St -> Z -> St -> Z -> comparison;           (* DominanceChecker::cmp *)
    ci_width : nat;
    ci_root : @subproblem St;                               (* residual *)
    ci_best_lb : Z;
    ci_use_cache : bool;                                    (* SimpleCache vs EmptyCache *)
    ci_domrule : option ((St -> option Z) * nat * (St -> nat -> Z) * bool);  (* key, nb_dimensions, coordinate, use_value *)
    ci_cutoff : nat }.                                      (* the cutoff fires from poll number ci_cutoff on; 0 = never *)

  Record mdd := {
    m_nodes : list node;
    m_edges : list edge;
    m_layers : list (list nat);      (* node ids of each recorded layer, in insertion (= depth) order *)
    m_layer_end : nat;               (* clean: `to` of the last pushed Layer *)
    m_next : list nat;               (* next_l / pool: ids of the not yet expanded nodes, creation order *)
    m_curr_depth : nat;              (* curr_depth / curr_l *)
    m_path : list decision;
    m_lel : option nat;
    m_cutset : list nat;
    m_best : option nat;
    m_best_exact : option nat;
    m_is_exact : bool;
    m_has_ebp : bool;
    (* threaded environment *)
    m_cache : @cache St;
    m_dom : @dstore St Z;
    m_log : list (event St);         (* most recent first *)
    m_polls : nat;
    m_crash : bool }.                (* an operation of the Rust code would have panicked *)

  Definition default_node (s : St) : node :=
    {| n_state := s; n_vtop := IMIN; n_vbot := IMIN; n_best := None; n_inb := []; n_rub := IMAX;
       n_theta := None; n_flags := fl_new_exact; n_depth := O |}.

  Section WithInput.
  Variable inp : cinput.
  Let pb := ci_problem inp.
  Let rlx := ci_relax inp.
  Let flv := ci_flavour inp.
  Let dflt := default_node (sp_state (ci_root inp)).
  Definition get_node (m : mdd) (id : nat) : node := nth id (m_nodes m) dflt.
  Definition default_edge : edge := {| e_from := O; e_to := O; e_dec := {| d_var := O; d_val := 0 |}; e_cost := 0 |}.
  Definition get_edge (m : mdd) (id : nat) : edge := nth id (m_edges m) default_edge.

  Definition with_nodes (m : mdd) (ns : list node) : mdd :=
    {| m_nodes := ns; m_edges := m_edges m; m_layers := m_layers m; m_layer_end := m_layer_end m; m_next := m_next m;
       m_curr_depth := m_curr_depth m; m_path := m_path m; m_lel := m_lel m; m_cutset := m_cutset m; m_best := m_best m;
       m_best_exact := m_best_exact m; m_is_exact := m_is_exact m; m_has_ebp := m_has_ebp m;
       m_cache := m_cache m; m_dom := m_dom m; m_log := m_log m; m_polls := m_polls m; m_crash := m_crash m |}.
  Definition upd_node (m : mdd) (id : nat) (f : node -> node) : mdd := with_nodes m (upd_nth id f (m_nodes m)).
  Definition add_log (m : mdd) (e : event St) : mdd :=
    {| m_nodes := m_nodes m; m_edges := m_edges m; m_layers := m_layers m; m_layer_end := m_layer_end m; m_next := m_next m;
       m_curr_depth := m_curr_depth m; m_path := m_path m; m_lel := m_lel m; m_cutset := m_cutset m; m_best := m_best m;
       m_best_exact := m_best_exact m; m_is_exact := m_is_exact m; m_has_ebp := m_has_ebp m;
       m_cache := m_cache m; m_dom := m_dom m; m_log := e :: m_log m; m_polls := m_polls m; m_crash := m_crash m |}.
  Definition set_crash (m : mdd) : mdd :=
    {| m_nodes := m_nodes m; m_edges := m_edges m; m_layers := m_layers m; m_layer_end := m_layer_end m; m_next := m_next m;
       m_curr_depth := m_curr_depth m; m_path := m_path m; m_lel := m_lel m; m_cutset := m_cutset m; m_best := m_best m;
       m_best_exact := m_best_exact m; m_is_exact := m_is_exact m; m_has_ebp := m_has_ebp m;
       m_cache := m_cache m; m_dom := m_dom m; m_log := m_log m; m_polls := m_polls m; m_crash := true |}.

  (* ---------------------------------------------------------------- append_edge_to! *)
  Definition append_edge (m : mdd) (e : edge) : mdd :=
    let eid := length (m_edges m) in
    let parent := get_node m (e_from e) in
    let parent_exact := fl_is_exact (n_flags parent) in
    let value := sat_add (n_vtop parent) (e_cost e) in
    let nodes' := upd_nth (e_to e) (fun n =>
        let exact := parent_exact && fl_is_exact (n_flags n) in
        let fl := fl_set_exact (n_flags n) exact in
        let better := value >=? n_vtop n in
        {| n_state := n_state n; n_vtop := if better then value else n_vtop n; n_vbot := n_vbot n;
           n_best := if better then Some eid else n_best n; n_inb := eid :: n_inb n;
           n_rub := n_rub n; n_theta := n_theta n; n_flags := fl; n_depth := n_depth n |}) (m_nodes m) in
    {| m_nodes := nodes'; m_edges := m_edges m ++ [e]; m_layers := m_layers m; m_layer_end := m_layer_end m; m_next := m_next m;
       m_curr_depth := m_curr_depth m; m_path := m_path m; m_lel := m_lel m; m_cutset := m_cutset m; m_best := m_best m;
       m_best_exact := m_best_exact m; m_is_exact := m_is_exact m; m_has_ebp := m_has_ebp m;
       m_cache := m_cache m; m_dom := m_dom m; m_log := m_log m; m_polls := m_polls m; m_crash := m_crash m |}.

  Definition find_next (m : mdd) (s : St) : option nat :=
    find (fun id => st_eqb (n_state (get_node m id)) s) (m_next m).

  Definition with_next (m : mdd) (nx : list nat) : mdd :=
    {| m_nodes := m_nodes m; m_edges := m_edges m; m_layers := m_layers m; m_layer_end := m_layer_end m; m_next := nx;
       m_curr_depth := m_curr_depth m; m_path := m_path m; m_lel := m_lel m; m_cutset := m_cutset m; m_best := m_best m;
       m_best_exact := m_best_exact m; m_is_exact := m_is_exact m; m_has_ebp := m_has_ebp m;
       m_cache := m_cache m; m_dom := m_dom m; m_log := m_log m; m_polls := m_polls m; m_crash := m_crash m |}.

  (* ---------------------------------------------------------------- _branch_on *)
  Definition branch_on (m : mdd) (from_id : nat) (d : decision) : mdd :=
    let parent := get_node m from_id in
    let state := n_state parent in
    let next_state := transition pb state d in
    let m := add_log m (EvTransition state d next_state) in
    let cost := transition_cost pb state next_state d in
    let m := add_log m (EvCost state next_state d cost) in
    match find_next m next_state with
    | None =>
        let node_id := length (m_nodes m) in
        let n := {| n_state := next_state; n_vtop := sat_add (n_vtop parent) cost; n_vbot := IMIN; n_best := None;
                    n_inb := []; n_rub := IMAX; n_theta := None;
                    n_flags := fl_set_exact fl_new_exact (fl_is_exact (n_flags parent));
                    n_depth := S (n_depth parent) |} in
        let m := with_nodes m (m_nodes m ++ [n]) in
        let m := append_edge m {| e_from := from_id; e_to := node_id; e_dec := d; e_cost := cost |} in
        with_next m (m_next m ++ [node_id])
    | Some node_id =>
        append_edge m {| e_from := from_id; e_to := node_id; e_dec := d; e_cost := cost |}
    end.

  (* ---------------------------------------------------------------- cache / dominance access *)
  Definition with_cache (m : mdd) (c : @cache St) : mdd :=
    {| m_nodes := m_nodes m; m_edges := m_edges m; m_layers := m_layers m; m_layer_end := m_layer_end m; m_next := m_next m;
       m_curr_depth := m_curr_depth m; m_path := m_path m; m_lel := m_lel m; m_cutset := m_cutset m; m_best := m_best m;
       m_best_exact := m_best_exact m; m_is_exact := m_is_exact m; m_has_ebp := m_has_ebp m;
       m_cache := c; m_dom := m_dom m; m_log := m_log m; m_polls := m_polls m; m_crash := m_crash m |}.
  Definition with_dom (m : mdd) (c : @dstore St Z) : mdd :=
    {| m_nodes := m_nodes m; m_edges := m_edges m; m_layers := m_layers m; m_layer_end := m_layer_end m; m_next := m_next m;
       m_curr_depth := m_curr_depth m; m_path := m_path m; m_lel := m_lel m; m_cutset := m_cutset m; m_best := m_best m;
       m_best_exact := m_best_exact m; m_is_exact := m_is_exact m; m_has_ebp := m_has_ebp m;
       m_cache := m_cache m; m_dom := c; m_log := m_log m; m_polls := m_polls m; m_crash := m_crash m |}.

  Definition cache_get (m : mdd) (s : St) (depth : nat) : mdd * option threshold :=
    let m := add_log m (EvCacheGet s depth) in
    if ci_use_cache inp then
      match get_threshold st_eqb (m_cache m) s depth with
      | None => (set_crash m, None)
      | Some r => (m, r)
      end
    else (m, None).

  Definition cache_update (m : mdd) (s : St) (depth : nat) (v : Z) (e : bool) : mdd :=
    let m := add_log m (EvCacheUpd s depth v e) in
    if ci_use_cache inp then
      match update_threshold st_eqb (m_cache m) s depth v e with
      | None => set_crash m
      | Some c => with_cache m c
      end
    else m.

  Definition dom_query (m : mdd) (s : St) (depth : nat) (v : Z) : mdd * dcheck :=
    let '(m, r) :=
      match ci_domrule inp with
      | None => (m, {| dc_dominated := false; dc_threshold := None |})
      | Some (key, nd, coord, usev) =>
          match is_dominated_or_insert Z.eqb key nd coord usev (m_dom m) s depth v with
          | None => (set_crash m, {| dc_dominated := false; dc_threshold := None |})
          | Some (st', r) => (with_dom m st', r)
          end
      end in
    (add_log m (EvDomQuery s depth v (dc_dominated r) (dc_threshold r)), r).

  (* ---------------------------------------------------------------- layer filters *)
  (* _filter_with_cache: Vec::retain *)
  Fixpoint filter_with_cache (m : mdd) (l : list nat) : mdd * list nat :=
    match l with
    | [] => (m, [])
    | id :: l' =>
        let n := get_node m id in
        let '(m, th) := cache_get m (n_state n) (n_depth n) in
        match th with
        | Some t =>
            if n_vtop n >? th_value t then
              let '(m, r) := filter_with_cache m l' in (m, id :: r)
            else
              let m := upd_node m id (fun n => set_theta (set_flags n (fl_set_cache (n_flags n) true)) (Some (th_value t))) in
              filter_with_cache m l'
        | None => let '(m, r) := filter_with_cache m l' in (m, id :: r)
        end
    end.

  Definition dom_order (m : mdd) (a b : nat) : comparison :=
    let na := get_node m a in let nb := get_node m b in
    CompOpp (ci_domcmp inp (n_state na) (n_vtop na) (n_state nb) (n_vtop nb)).

  Fixpoint dom_retain (m : mdd) (l : list nat) : mdd * list nat :=
    match l with
    | [] => (m, [])
    | id :: l' =>
        let n := get_node m id in
        if fl_is_exact (n_flags n) then
          let '(m, r) := dom_query m (n_state n) (n_depth n) (n_vtop n) in
          if dc_dominated r then
            let m := upd_node m id (fun n => set_theta n (dc_threshold r)) in
            dom_retain m l'
          else let '(m, k) := dom_retain m l' in (m, id :: k)
        else let '(m, k) := dom_retain m l' in (m, id :: k)
    end.

  (* _filter_with_dominance: sort_unstable_by(cmp.reverse()) then retain *)
  Definition filter_with_dominance (m : mdd) (l : list nat) : mdd * list nat :=
    dom_retain m (sort_by (dom_order m) l).

  (* ---------------------------------------------------------------- squash *)
  Definition rank_order (m : mdd) (a b : nat) : comparison :=
    let na := get_node m a in let nb := get_node m b in
    CompOpp (cmp_then (Zcmp (n_vtop na) (n_vtop nb)) (ci_ranking inp (n_state na) (n_state nb))).

  Definition mark_deleted (m : mdd) (ids : list nat) : mdd :=
    fold_left (fun m id => upd_node m id (fun n => set_flags n (fl_set_deleted (n_flags n) true))) ids m.

  Definition with_lel_exact (m : mdd) (lel : option nat) (ex : bool) : mdd :=
    {| m_nodes := m_nodes m; m_edges := m_edges m; m_layers := m_layers m; m_layer_end := m_layer_end m; m_next := m_next m;
       m_curr_depth := m_curr_depth m; m_path := m_path m; m_lel := lel; m_cutset := m_cutset m; m_best := m_best m;
       m_best_exact := m_best_exact m; m_is_exact := ex; m_has_ebp := m_has_ebp m;
       m_cache := m_cache m; m_dom := m_dom m; m_log := m_log m; m_polls := m_polls m; m_crash := m_crash m |}.

  (* clean: _maybe_save_lel ; pooled: self.is_exact = false *)
  Definition note_squash (m : mdd) : mdd :=
    if is_pooled flv then with_lel_exact m (m_lel m) false
    else match m_lel m with
         | Some _ => m
         | None => with_lel_exact m (Some (length (m_layers m) - 1)%nat) (m_is_exact m)
         end.

  Definition restrict_layer (m : mdd) (l : list nat) : mdd * list nat :=
    let m := note_squash m in
    let sorted := sort_by (rank_order m) l in
    let w := ci_width inp in
    (mark_deleted m (skipn w sorted), firstn w sorted).

  (* the inner loop of _relax: redirect every inbound edge of drop_id to merged_id *)
  Definition redirect_edges (m : mdd) (merged : St) (merged_id drop_id : nat) : mdd :=
    fold_left (fun m eid =>
        let e := get_edge m eid in
        let src := n_state (get_node m (e_from e)) in
        let dst := n_state (get_node m (e_to e)) in
        let rcost := relax rlx src dst merged (e_dec e) (e_cost e) in
        let m := add_log m (EvRelax src dst merged (e_dec e) (e_cost e) rcost) in
        append_edge m {| e_from := e_from e; e_to := merged_id; e_dec := e_dec e; e_cost := rcost |})
      (n_inb (get_node m drop_id)) m.

  Definition relax_layer (m : mdd) (l : list nat) : mdd * list nat :=
    let m := note_squash m in
    let sorted := sort_by (rank_order m) l in
    let w := ci_width inp in
    match w with
    | O => (set_crash m, l)                       (* max_width - 1 underflows *)
    | S w1 =>
        let keep := firstn w1 sorted in
        let mrg := skipn w1 sorted in
        let mstates := map (fun id => n_state (get_node m id)) mrg in
        let merged := merge rlx mstates in
        let m := add_log m (EvMerge mstates merged) in
        let recycled := find (fun id => st_eqb (n_state (get_node m id)) merged) keep in
        let '(m, merged_id) :=
          match recycled with
          | Some id => (m, id)
          | None =>
              let node_id := length (m_nodes m) in
              let n := {| n_state := merged; n_vtop := IMIN; n_vbot := IMIN; n_best := None; n_inb := [];
                          n_rub := IMAX; n_theta := None; n_flags := fl_new_relaxed;
                          n_depth := n_depth (get_node m (hd O mrg)) |} in
              (with_nodes m (m_nodes m ++ [n]), node_id)
          end in
        let m := upd_node m merged_id (fun n => set_flags n (fl_set_relaxed (n_flags n) true)) in
        let m := fold_left (fun m drop_id =>
                   let m := upd_node m drop_id (fun n => set_flags n (fl_set_deleted (n_flags n) true)) in
                   redirect_edges m merged merged_id drop_id) mrg m in
        match recycled with
        | Some _ =>
            let kept := firstn w sorted in
            let saved := nth w1 sorted O in
            (upd_node m saved (fun n => set_flags n (fl_set_deleted (n_flags n) false)), kept)
        | None => (m, keep ++ [merged_id])
        end
    end.

  Definition squash_if_needed (m : mdd) (l : list nat) : mdd * list nat :=
    match ci_type inp with
    | Exact => (m, l)
    | Restricted => if Nat.ltb (ci_width inp) (length l) then restrict_layer m l else (m, l)
    | Relaxed =>
        if Nat.ltb (ci_width inp) (length l) && Nat.ltb 1 (length (m_layers m))
        then relax_layer m l else (m, l)
    end.

  Definition push_layer (m : mdd) (ids : list nat) (new_end : nat) : mdd :=
    {| m_nodes := m_nodes m; m_edges := m_edges m; m_layers := m_layers m ++ [ids]; m_layer_end := new_end; m_next := m_next m;
       m_curr_depth := m_curr_depth m; m_path := m_path m; m_lel := m_lel m; m_cutset := m_cutset m; m_best := m_best m;
       m_best_exact := m_best_exact m; m_is_exact := m_is_exact m; m_has_ebp := m_has_ebp m;
       m_cache := m_cache m; m_dom := m_dom m; m_log := m_log m; m_polls := m_polls m; m_crash := m_crash m |}.

  (* ---------------------------------------------------------------- _move_to_next_layer
     returns the nodes to expand; None = the clean implementation found the layer empty (break) *)
  Definition move_to_next_layer_clean (m : mdd) : mdd * option (list nat) :=
    let curr := m_next m in
    let m := with_next m [] in
    match curr with
    | [] => (push_layer m [] O, None)             (* Layer { from: 0, to: 0 } *)
    | _ =>
        let '(m, l) := if Nat.ltb 0 (length (m_layers m)) then filter_with_cache m curr else (m, curr) in
        let '(m, l) := filter_with_dominance m l in
        let '(m, l) := squash_if_needed m l in
        let from := m_layer_end m in
        let to := length (m_nodes m) in
        (push_layer m (seq from (to - from)) to, Some l)
    end.

  Definition move_to_next_layer_pooled (m : mdd) (var : nat) : mdd * option (list nat) :=
    let d := m_curr_depth m in
    let curr := filter (fun id => is_impacted_by pb var (n_state (get_node m id))) (m_next m) in
    let m := fold_left (fun m id => upd_node m id (fun n => set_depth n d)) curr m in
    let m := with_next m (filter (fun id => negb (is_impacted_by pb var (n_state (get_node m id)))) (m_next m)) in
    let '(m, l) := if Nat.ltb 0 (length (m_layers m)) then filter_with_cache m curr else (m, curr) in
    let '(m, l) := filter_with_dominance m l in
    let len := length (m_nodes m) in
    let '(m, l) := squash_if_needed m l in
    let curr' := if Nat.ltb len (length (m_nodes m)) then curr ++ [len] else curr in
    let m := match curr' with [] => m | _ => push_layer m curr' O end in
    (m, Some l).

  (* the expansion loop body:  for node_id in curr_l { rub; if ub > best_lb { for_each_in_domain(branch_on) } } *)
  Definition expand_node (var : nat) (m : mdd) (id : nat) : mdd :=
    let state := n_state (get_node m id) in
    let rub := fast_upper_bound rlx state in
    let m := upd_node m id (fun n => set_rub n rub) in
    let ub := sat_add rub (n_vtop (get_node m id)) in
    if ub >? ci_best_lb inp then
      let m := add_log m (EvDomain var state) in
      fold_left (fun m val => branch_on m id {| d_var := var; d_val := val |}) (domain pb var state) m
    else m.

  Definition with_depth (m : mdd) (d : nat) : mdd :=
    {| m_nodes := m_nodes m; m_edges := m_edges m; m_layers := m_layers m; m_layer_end := m_layer_end m; m_next := m_next m;
       m_curr_depth := d; m_path := m_path m; m_lel := m_lel m; m_cutset := m_cutset m; m_best := m_best m;
       m_best_exact := m_best_exact m; m_is_exact := m_is_exact m; m_has_ebp := m_has_ebp m;
       m_cache := m_cache m; m_dom := m_dom m; m_log := m_log m; m_polls := m_polls m; m_crash := m_crash m |}.
  Definition with_polls (m : mdd) (p : nat) : mdd :=
    {| m_nodes := m_nodes m; m_edges := m_edges m; m_layers := m_layers m; m_layer_end := m_layer_end m; m_next := m_next m;
       m_curr_depth := m_curr_depth m; m_path := m_path m; m_lel := m_lel m; m_cutset := m_cutset m; m_best := m_best m;
       m_best_exact := m_best_exact m; m_is_exact := m_is_exact m; m_has_ebp := m_has_ebp m;
       m_cache := m_cache m; m_dom := m_dom m; m_log := m_log m; m_polls := p; m_crash := m_crash m |}.

  Inductive loop_end := LoopDone | LoopCut | LoopOutOfFuel.

  (* the `while let Some(var) = next_variable(..)` loop; fuel bounds the number of layers *)
  Fixpoint layer_loop (fuel : nat) (m : mdd) : mdd * loop_end :=
    match fuel with
    | O => (m, LoopOutOfFuel)
    | S fuel' =>
        let states := map (fun id => n_state (get_node m id)) (m_next m) in
        let ov := next_variable pb (m_curr_depth m) states in
        let m := add_log m (EvNextVar (m_curr_depth m) states ov) in
        match ov with
        | None => (m, LoopDone)
        | Some var =>
            let m := with_polls m (S (m_polls m)) in
            if Nat.ltb 0 (ci_cutoff inp) && Nat.leb (ci_cutoff inp) (m_polls m) then (m, LoopCut)
            else
              let '(m, ol) :=
                if is_pooled flv then
                  match m_next m with
                  | [] => (m, None)                       (* if self.pool.is_empty() { break } *)
                  | _ => move_to_next_layer_pooled m var
                  end
                else move_to_next_layer_clean m in
              match ol with
              | None => (m, LoopDone)
              | Some l =>
                  let m := fold_left (expand_node var) l m in
                  layer_loop fuel' (with_depth m (S (m_curr_depth m)))
              end
        end
    end.

  (* ---------------------------------------------------------------- _initialize (after _clear) *)
  Definition initialize (c : @cache St) (ds : @dstore St Z) (polls : nat) : mdd :=
    let r := ci_root inp in
    let root := {| n_state := sp_state r; n_vtop := sp_value r; n_vbot := IMIN; n_best := None; n_inb := [];
                   n_rub := IMAX; n_theta := None; n_flags := fl_new_exact; n_depth := sp_depth r |} in
    {| m_nodes := [root]; m_edges := []; m_layers := []; m_layer_end := O; m_next := [O];
       m_curr_depth := sp_depth r; m_path := sp_path r; m_lel := None; m_cutset := []; m_best := None;
       m_best_exact := None; m_is_exact := true; m_has_ebp := false;
       m_cache := c; m_dom := ds; m_log := []; m_polls := polls; m_crash := false |}.

  (* ---------------------------------------------------------------- _finalize *)
  Definition finalize_layers (m : mdd) : mdd :=
    if is_pooled flv then
      let d := m_curr_depth m in
      let m := fold_left (fun m id => upd_node m id (fun n => set_depth n d)) (m_next m) m in
      push_layer m (m_next m) O
    else
      match m_next m with
      | [] => m
      | _ => let from := m_layer_end m in let to := length (m_nodes m) in push_layer m (seq from (to - from)) to
      end.

  (* max_by_key over the hash map: any node of maximal value may be returned; [tb] picks one *)
  Definition argmax_candidates (m : mdd) (ids : list nat) : list nat :=
    match zmax_list (map (fun id => n_vtop (get_node m id)) ids) with
    | None => []
    | Some mx => filter (fun id => n_vtop (get_node m id) =? mx) ids
    end.
  Definition pick (tb : nat) (cands : list nat) : option nat :=
    match cands with [] => None | _ => nth_error cands (Nat.modulo tb (length cands)) end.

  Definition with_best (m : mdd) (b be : option nat) : mdd :=
    {| m_nodes := m_nodes m; m_edges := m_edges m; m_layers := m_layers m; m_layer_end := m_layer_end m; m_next := m_next m;
       m_curr_depth := m_curr_depth m; m_path := m_path m; m_lel := m_lel m; m_cutset := m_cutset m; m_best := b;
       m_best_exact := be; m_is_exact := m_is_exact m; m_has_ebp := m_has_ebp m;
       m_cache := m_cache m; m_dom := m_dom m; m_log := m_log m; m_polls := m_polls m; m_crash := m_crash m |}.

  Definition find_best_node (tb tb2 : nat) (m : mdd) : mdd :=
    let b := pick tb (argmax_candidates m (m_next m)) in
    let be := pick tb2 (argmax_candidates m (filter (fun id => fl_is_exact (n_flags (get_node m id))) (m_next m))) in
    with_best m b be.

  Fixpoint has_exact_best_path (fuel : nat) (m : mdd) (o : option nat) : bool :=
    match fuel with
    | O => true
    | S fuel' =>
        match o with
        | None => true
        | Some id =>
            let n := get_node m id in
            if fl_is_exact (n_flags n) then true
            else negb (f_relaxed (n_flags n)) &&
                 has_exact_best_path fuel' m (option_map (fun e => e_from (get_edge m e)) (n_best n))
        end
    end.

  Definition finalize_exact (m : mdd) : mdd :=
    let ex := if is_pooled flv then m_is_exact m else match m_lel m with None => true | Some _ => false end in
    let ebp := is_relaxed_ct (ci_type inp) && has_exact_best_path (S (length (m_nodes m))) m (m_best m) in
    {| m_nodes := m_nodes m; m_edges := m_edges m; m_layers := m_layers m; m_layer_end := m_layer_end m; m_next := m_next m;
       m_curr_depth := m_curr_depth m; m_path := m_path m; m_lel := m_lel m; m_cutset := m_cutset m; m_best := m_best m;
       m_best_exact := if ebp then m_best m else m_best_exact m; m_is_exact := ex; m_has_ebp := ebp;
       m_cache := m_cache m; m_dom := m_dom m; m_log := m_log m; m_polls := m_polls m; m_crash := m_crash m |}.

  Definition with_cutset (m : mdd) (cs : list nat) : mdd :=
    {| m_nodes := m_nodes m; m_edges := m_edges m; m_layers := m_layers m; m_layer_end := m_layer_end m; m_next := m_next m;
       m_curr_depth := m_curr_depth m; m_path := m_path m; m_lel := m_lel m; m_cutset := cs; m_best := m_best m;
       m_best_exact := m_best_exact m; m_is_exact := m_is_exact m; m_has_ebp := m_has_ebp m;
       m_cache := m_cache m; m_dom := m_dom m; m_log := m_log m; m_polls := m_polls m; m_crash := m_crash m |}.

  (* bottom-up traversal order: layers reversed, ids of a layer in stored order *)
  Definition bottom_up (m : mdd) : list nat := concat (rev (m_layers m)).

  (* _compute_last_exact_layer_cutset *)
  Definition lel_cutset (m : mdd) (lel : nat) : mdd :=
    let m :=
      match nth_error (m_layers m) lel with
      | Some ids =>
          let m := fold_left (fun m id => upd_node m id (fun n =>
                     set_flags n (fl_set_above (fl_set_cutset (n_flags n) true) true))) ids m in
          with_cutset m (m_cutset m ++ ids)
      | None => m
      end in
    fold_left (fun m id => upd_node m id (fun n => set_flags n (fl_set_above (n_flags n) true)))
      (concat (rev (firstn lel (m_layers m)))) m.

  (* _compute_frontier_cutset; [push] = whether parents are pushed onto the cutset vector
     (clean: always, pooled: only if !self.is_exact) *)
  Definition frontier_cutset (m : mdd) (push : bool) : mdd :=
    fold_left (fun m id =>
        let n := get_node m id in
        if fl_is_exact (n_flags n) then upd_node m id (fun n => set_flags n (fl_set_above (n_flags n) true))
        else fold_left (fun m eid =>
               let e := get_edge m eid in
               let p := get_node m (e_from e) in
               if fl_is_exact (n_flags p) && negb (f_cutset (n_flags p)) then
                 let m := if push then with_cutset m (m_cutset m ++ [e_from e]) else m in
                 upd_node m (e_from e) (fun n => set_flags n (fl_set_cutset (n_flags n) true))
               else m) (n_inb n) m)
      (bottom_up m) m.

  Definition finalize_cutset (m : mdd) : mdd :=
    let go := is_relaxed_ct (ci_type inp) || m_is_exact m in
    match flv with
    | Pooled => if go then frontier_cutset m (negb (m_is_exact m)) else m
    | _ =>
        let m := match m_lel m with
                 | None => with_lel_exact m (Some (length (m_layers m))) (m_is_exact m)
                 | Some _ => m end in
        if go then
          match flv with
          | CleanLEL => lel_cutset m (opt_default O (m_lel m))
          | _ => frontier_cutset m true
          end
        else m
    end.

  (* _compute_local_bounds *)
  Definition compute_local_bounds (m : mdd) : mdd :=
    let go :=
      (if is_pooled flv then Nat.ltb 0 (length (m_cutset m))
       else Nat.ltb (opt_default O (m_lel m)) (length (m_layers m)))
      && is_relaxed_ct (ci_type inp) in
    if go then
      let m := fold_left (fun m id => upd_node m id (fun n => set_vbot (set_flags n (fl_set_marked (n_flags n) true)) 0))
                 (last (m_layers m) []) m in
      fold_left (fun m id =>
          let n := get_node m id in
          if f_marked (n_flags n) then
            fold_left (fun m eid =>
                let e := get_edge m eid in
                let using_edge := sat_add (n_vbot n) (e_cost e) in
                upd_node m (e_from e) (fun p =>
                  set_vbot (set_flags p (fl_set_marked (n_flags p) true)) (Z.max (n_vbot p) using_edge)))
              (n_inb n) m
          else m)
        (bottom_up m) m
    else m.

  (* _maybe_update_cache *)
  Definition maybe_update_cache (m : mdd) (id : nat) : mdd :=
    let n := get_node m id in
    match n_theta n with
    | Some theta =>
        if f_above (n_flags n) then cache_update m (n_state n) (n_depth n) theta (negb (f_cutset (n_flags n))) else m
    | None => m
    end.

  (* _compute_thresholds *)
  Definition compute_thresholds (m : mdd) : mdd :=
    if is_relaxed_ct (ci_type inp) || m_is_exact m then
      let '(m, best_known) :=
        match m_best_exact m with
        | Some be =>
            let bk := Z.max (ci_best_lb inp) (n_vtop (get_node m be)) in
            let m := fold_left (fun m id =>
                       let cond := match flv with
                                   | CleanLEL => m_is_exact m
                                   | _ => fl_is_exact (n_flags (get_node m id)) end in
                       if cond then upd_node m id (fun n => set_theta n (Some bk)) else m) (m_next m) m in
            (m, bk)
        | None => (m, ci_best_lb inp)
        end in
      fold_left (fun m id =>
          let n := get_node m id in
          if f_deleted (n_flags n) then m
          else
            let m :=
              if negb (f_cache (n_flags n)) then
                let tot_rub := sat_add (n_vtop n) (n_rub n) in
                let m :=
                  if tot_rub <=? best_known then upd_node m id (fun n => set_theta n (Some (sat_sub best_known (n_rub n))))
                  else if f_cutset (n_flags n) then
                    let tot_locb := sat_add (n_vtop n) (n_vbot n) in
                    if tot_locb <=? best_known then
                      upd_node m id (fun n => set_theta n (Some (Z.min (opt_default IMAX (n_theta n)) (sat_sub best_known (n_vbot n)))))
                    else upd_node m id (fun n => set_theta n (Some (n_vtop n)))
                  else if fl_is_exact (n_flags n) && match n_theta n with None => true | Some _ => false end then
                    upd_node m id (fun n => set_theta n (Some IMAX))
                  else m in
                maybe_update_cache m id
              else m in
            match n_theta (get_node m id) with
            | Some my_theta =>
                fold_left (fun m eid =>
                    let e := get_edge m eid in
                    upd_node m (e_from e) (fun p =>
                      set_theta p (Some (Z.min (opt_default IMAX (n_theta p)) (sat_sub my_theta (e_cost e))))))
                  (n_inb (get_node m id)) m
            | None => m
            end)
        (bottom_up m) m
    else m.

  Definition finalize (tb tb2 : nat) (m : mdd) : mdd :=
    compute_thresholds (compute_local_bounds (finalize_cutset (finalize_exact (find_best_node tb tb2 (finalize_layers m))))).

  (* ---------------------------------------------------------------- _compile *)
  Inductive outcome := Compiled | CutoffOccurred | OutOfFuel.

  Definition compile (tb tb2 : nat) (c : @cache St) (ds : @dstore St Z) (polls : nat) : mdd * outcome :=
    let m0 := initialize c ds polls in
    let fuel := S (S (nb_vars pb)) in
    let '(m, e) := layer_loop fuel m0 in
    match e with
    | LoopCut => (m, CutoffOccurred)
    | LoopOutOfFuel => (m, OutOfFuel)
    | LoopDone => (finalize tb tb2 m, Compiled)
    end.

  (* ---------------------------------------------------------------- the DecisionDiagram trait *)
  Definition dd_is_exact (m : mdd) : bool := m_is_exact m || m_has_ebp m.
  Definition dd_best_value (m : mdd) : option Z := option_map (fun id => n_vtop (get_node m id)) (m_best m).
  Definition dd_best_exact_value (m : mdd) : option Z := option_map (fun id => n_vtop (get_node m id)) (m_best_exact m).

  (* _best_path: root path followed by the decisions met walking the `best` edges up to the root *)
  Fixpoint walk_up (fuel : nat) (m : mdd) (oe : option nat) : list decision :=
    match fuel with
    | O => []
    | S fuel' =>
        match oe with
        | None => []
        | Some eid => let e := get_edge m eid in e_dec e :: walk_up fuel' m (n_best (get_node m (e_from e)))
        end
    end.
  Definition best_path (m : mdd) (id : nat) : list decision :=
    m_path m ++ walk_up (S (length (m_nodes m))) m (n_best (get_node m id)).
  Definition dd_best_solution (m : mdd) : option (list decision) := option_map (best_path m) (m_best m).
  Definition dd_best_exact_solution (m : mdd) : option (list decision) := option_map (best_path m) (m_best_exact m).

  (* _drain_cutset: the sub-problems handed to the callback, in order *)
  Definition drain_cutset (m : mdd) : list (@subproblem St) :=
    match dd_best_value m with
    | None => []
    | Some bv =>
        flat_map (fun id =>
            let n := get_node m id in
            if f_marked (n_flags n) then
              let rub := sat_add (n_vtop n) (n_rub n) in
              let locb := sat_add (n_vtop n) (n_vbot n) in
              [{| sp_state := n_state n; sp_value := n_vtop n; sp_path := best_path m id;
                  sp_ub := Z.min (Z.min rub locb) bv; sp_depth := n_depth n |}]
            else [])
          (m_cutset m)
    end.
  End WithInput.
End Mdd.
