(* DP.v — the user-facing abstractions (ddo/src/abstraction/dp.rs, heuristics.rs) as records of
   functions, the semantics of a DP model (replay, feasible completions, optimum) and the
   events of the callback log. *)
Require Import DDO.Base DDO.Fringe.
Open Scope Z_scope.

Section DP.
  Context {St : Type}.

  Record problem := {
    nb_vars : nat;
    init_state : St;
    init_value : Z;
    transition : St -> decision -> St;
    transition_cost : St -> St -> decision -> Z;
    (* next_variable(depth, iterator over the states of the next layer) *)
    next_variable : nat -> list St -> option nat;
    (* for_each_in_domain: the values handed to the callback, in call order *)
    domain : nat -> St -> list Z;
    is_impacted_by : nat -> St -> bool }.

  Record relaxation := {
    merge : list St -> St;
    relax : St -> St -> St -> decision -> Z -> Z;
    fast_upper_bound : St -> Z }.

  (* every call into user code (and into the cache / dominance traits) made by a compilation *)
  Inductive event :=
  | EvNextVar (depth : nat) (layer : list St) (res : option nat)
  | EvDomain (var : nat) (s : St)
  | EvTransition (s : St) (d : decision) (r : St)
  | EvCost (src dst : St) (d : decision) (c : Z)
  | EvMerge (args : list St) (r : St)
  | EvRelax (src dst merged : St) (d : decision) (c r : Z)
  | EvCacheGet (s : St) (depth : nat)
  | EvCacheUpd (s : St) (depth : nat) (v : Z) (e : bool)
  | EvDomQuery (s : St) (depth : nat) (v : Z) (dominated : bool) (thr : option Z).

  (* ------------------------------------------------------------ semantics *)
  Variable pb : problem.

  (* one step: decision d taken in state s with accumulated value v *)
  Definition step (s : St) (v : Z) (d : decision) : St * Z :=
    let s' := transition pb s d in (s', v + transition_cost pb s s' d).

  Definition in_domain (s : St) (d : decision) : bool :=
    existsb (Z.eqb (d_val d)) (domain pb (d_var d) s).

  (* replay a decision sequence, checking each decision against the domain of its variable in the
     state reached by the preceding ones (variables are whatever the sequence says) *)
  Fixpoint replay (ds : list decision) (s : St) (v : Z) : option (St * Z) :=
    match ds with
    | [] => Some (s, v)
    | d :: ds' => if in_domain s d then let '(s', v') := step s v d in replay ds' s' v' else None
    end.

  Definition vars_of (ds : list decision) : list nat := map d_var ds.

  (* ------------------------------------------------------------ static variable orders:
     exhaustive enumeration of all complete decision sequences from depth k (fuel = remaining depth) *)
  Fixpoint enum_from (fuel : nat) (k : nat) (s : St) (v : Z) : list (list decision * Z) :=
    match fuel with
    | O => [([], v)]
    | S fuel' =>
        match next_variable pb k [s] with
        | None => [([], v)]
        | Some x =>
            flat_map (fun val =>
              let d := {| d_var := x; d_val := val |} in
              let '(s', v') := step s v d in
              map (fun '(ds, w) => (d :: ds, w)) (enum_from fuel' (S k) s' v'))
              (domain pb x s)
        end
    end.

  Definition opt_enum_from (k : nat) (s : St) (v : Z) : option Z :=
    zmax_list (map snd (enum_from (S (nb_vars pb) - k) k s v)).

  (* the optimum of the whole problem by exhaustive enumeration; None = infeasible *)
  Definition opt_enum : option Z := opt_enum_from 0 (init_state pb) (init_value pb).

  (* exact value-to-go by backward recursion (Bellman), None = no feasible completion *)
  Fixpoint hstar (fuel : nat) (k : nat) (s : St) : option Z :=
    match fuel with
    | O => Some 0
    | S fuel' =>
        match next_variable pb k [s] with
        | None => Some 0
        | Some x =>
            fold_right (fun val acc =>
              let d := {| d_var := x; d_val := val |} in
              let s' := transition pb s d in
              omax (oadd (transition_cost pb s s' d) (hstar fuel' (S k) s')) acc) None (domain pb x s)
        end
    end.
  Definition H (k : nat) (s : St) : option Z := hstar (S (nb_vars pb) - k) k s.
End DP.

Arguments problem St : clear implicits.
Arguments relaxation St : clear implicits.
Arguments event St : clear implicits.
