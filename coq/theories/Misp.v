(* Misp.v — model of the SHIPPED maximum-weight-independent-set example (ddo/examples/misp/main.rs) and the facts that make it a
   well-formed model in the sense of property C01 / C16, for EVERY variable order (the example branches on a variable chosen
   dynamically, per layer: the solver-level assembly of Assembly.v, which needs a static order, is not instantiated here):
     - the DP is the independent-set problem: along ANY duplicate-free sequence of variables the feasible decision sequences are exactly
       the independent sets (restricted to the decided vertices), with the same weight (misp_run_sound / misp_run_complete);
     - merge (union) over-approximates each merged state, and over-approximation is a simulation for domains, transitions and costs
       (misp_merge_cov, misp_cov_sim): every completion of a member is a completion of the merged state with the same cost;
     - the rough upper bound (sum of the POSITIVE weights of the remaining vertices — after fix a75761f) is admissible, monotone along
       the over-approximation, and the pre-fix bound (plain sum) is refuted (misp_rub_adm, misp_rub_mono, misp_prefix_rub_refuted).
   States are characteristic functions nat -> bool (a BitSet); nothing below needs equality of states. *)
From Coq Require Import List ZArith Lia Bool Arith.
Import ListNotations.
Open Scope Z_scope.

Record graph := { g_n : nat; g_w : nat -> Z; g_edges : list (nat * nat) }.
Definition state := nat -> bool.

Definition adj (g : graph) (u v : nat) : bool :=
  existsb (fun e => (Nat.eqb (fst e) u && Nat.eqb (snd e) v) || (Nat.eqb (fst e) v && Nat.eqb (snd e) u)) (g_edges g).

Lemma adj_sym g u v : adj g u v = adj g v u.
Proof.
  unfold adj. induction (g_edges g) as [|e r IH]; cbn [existsb]; [reflexivity|].
  rewrite IH. f_equal. apply orb_comm.
Qed.

(* Problem *)
Definition m_init (g : graph) : state := fun u => Nat.ltb u (g_n g).
Definition m_trans (g : graph) (s : state) (v : nat) (yes : bool) : state :=
  fun u => s u && negb (Nat.eqb u v) && (if yes then negb (adj g v u) else true).
Definition m_cost (g : graph) (v : nat) (yes : bool) : Z := if yes then g_w g v else 0.
Definition m_dom (s : state) (v : nat) : list bool := if s v then [true; false] else [false].
Definition m_impacted (s : state) (v : nat) : bool := s v.
(* Relaxation *)
Definition m_merge (ss : list state) : state := fun u => existsb (fun s => s u) ss.
Definition m_relax (c : Z) : Z := c.
Fixpoint sum_upto (n : nat) (f : nat -> Z) : Z := match n with O => 0 | S k => sum_upto k f + f k end.
Definition m_rub (g : graph) (s : state) : Z := sum_upto (g_n g) (fun u => if s u then Z.max 0 (g_w g u) else 0).
Definition m_rub_prefix (g : graph) (s : state) : Z := sum_upto (g_n g) (fun u => if s u then g_w g u else 0).

(* the combinatorial problem *)
Definition weight (g : graph) (I : state) : Z := sum_upto (g_n g) (fun u => if I u then g_w g u else 0).
Definition IS (g : graph) (s I : state) : Prop :=
  (forall u, I u = true -> (u < g_n g)%nat /\ s u = true) /\
  (forall u v, I u = true -> I v = true -> u <> v -> adj g u v = false).
Definition le_st (s t : state) : Prop := forall u, s u = true -> t u = true.
Definition add (v : nat) (I : state) : state := fun u => Nat.eqb u v || I u.
Definition rem (v : nat) (I : state) : state := fun u => negb (Nat.eqb u v) && I u.
Definition empty_on (g : graph) (s : state) : Prop := forall u, (u < g_n g)%nat -> s u = false.

Lemma sum_upto_ext n f h : (forall u, (u < n)%nat -> f u = h u) -> sum_upto n f = sum_upto n h.
Proof. induction n as [|k IH]; intros E; cbn [sum_upto]; [reflexivity|]. rewrite IH, (E k) by (intros; try apply E; lia). reflexivity. Qed.
Lemma sum_upto_le n f h : (forall u, (u < n)%nat -> f u <= h u) -> sum_upto n f <= sum_upto n h.
Proof. induction n as [|k IH]; intros E; cbn [sum_upto]; [lia|]. specialize (E k ltac:(lia)) as Ek. specialize (IH ltac:(intros; apply E; lia)). lia. Qed.
Lemma sum_upto_add n f h : sum_upto n (fun u => f u + h u) = sum_upto n f + sum_upto n h.
Proof. induction n as [|k IH]; cbn [sum_upto]; lia. Qed.
Lemma sum_upto_single n v c : sum_upto n (fun u => if Nat.eqb u v then c else 0) = if Nat.ltb v n then c else 0.
Proof.
  induction n as [|k IH]; cbn [sum_upto]; [reflexivity|]. rewrite IH.
  destruct (Nat.ltb_spec v k), (Nat.ltb_spec v (S k)), (Nat.eqb_spec k v); lia.
Qed.

(* taking v out of I *)
Lemma weight_rem g I v : weight g I = (if I v && Nat.ltb v (g_n g) then g_w g v else 0) + weight g (rem v I).
Proof.
  unfold weight.
  rewrite (sum_upto_ext _ _ (fun u => (if Nat.eqb u v then (if I v then g_w g v else 0) else 0) + (if rem v I u then g_w g u else 0))).
  - rewrite sum_upto_add, sum_upto_single. destruct (I v), (Nat.ltb v (g_n g)); reflexivity.
  - intros u _. unfold rem. destruct (Nat.eqb_spec u v) as [->|]; cbn [negb andb]; [destruct (I v)|destruct (I u)]; lia.
Qed.

(* ---- the DP is the independent set problem --------------------------------------------------------------------------- *)
Lemma trans_yes_sound g s v I : s v = true -> (v < g_n g)%nat -> IS g (m_trans g s v true) I ->
  IS g s (add v I) /\ weight g (add v I) = g_w g v + weight g I.
Proof.
  intros Hs Hv [H1 H2].
  assert (Iv : I v = false).
  { destruct (I v) eqn:E; [|reflexivity]. destruct (H1 v E) as [_ T]. unfold m_trans in T. rewrite Nat.eqb_refl in T.
    rewrite andb_false_r in T. discriminate. }
  split; [split|].
  - intros u Hu. unfold add in Hu. destruct (Nat.eqb_spec u v) as [E|E]; [subst u; tauto|]. cbn [orb] in Hu.
    destruct (H1 u Hu) as [L T]. unfold m_trans in T. apply andb_prop in T as [T _]. apply andb_prop in T as [T _]. tauto.
  - intros a b Ha Hb Hab. unfold add in Ha, Hb.
    assert (K : forall x, I x = true -> adj g v x = false).
    { intros x Hx. destruct (H1 x Hx) as [_ T]. unfold m_trans in T. apply andb_prop in T as [_ T]. now apply negb_true_iff in T. }
    destruct (Nat.eqb_spec a v) as [Ea|Ea], (Nat.eqb_spec b v) as [Eb|Eb]; cbn [orb] in Ha, Hb; try subst a; try subst b.
    + congruence.
    + now apply K.
    + rewrite adj_sym. now apply K.
    + now apply H2.
  - rewrite (weight_rem g (add v I) v). unfold add at 1. rewrite Nat.eqb_refl. cbn [orb andb].
    apply Nat.ltb_lt in Hv. rewrite Hv. f_equal. unfold weight. apply sum_upto_ext. intros u _. unfold rem, add.
    destruct (Nat.eqb_spec u v) as [E|E]; cbn [negb andb orb]; [subst u; rewrite Iv|]; reflexivity.
Qed.

Lemma trans_no_sound g s v I : IS g (m_trans g s v false) I -> IS g s I.
Proof.
  intros [H1 H2]. split; [|exact H2]. intros u Hu. destruct (H1 u Hu) as [L T]. split; [exact L|].
  unfold m_trans in T. apply andb_prop in T as [T _]. apply andb_prop in T as [T _]. exact T.
Qed.

Lemma trans_complete g s v I : IS g s I ->
  In (I v) (m_dom s v) /\ IS g (m_trans g s v (I v)) (rem v I) /\ weight g I = m_cost g v (I v) + weight g (rem v I).
Proof.
  intros [H1 H2]. split; [|split; [split|]].
  - unfold m_dom. destruct (I v) eqn:E; [destruct (H1 v E) as [_ ->]; cbn; tauto|destruct (s v); cbn; tauto].
  - intros u Hu. unfold rem in Hu. apply andb_prop in Hu as [Hn Hu]. destruct (H1 u Hu) as [L T]. split; [exact L|].
    unfold m_trans. rewrite T, Hn. cbn [andb]. destruct (I v) eqn:E; [|reflexivity].
    apply negb_true_iff. apply H2; [exact E|exact Hu|]. apply negb_true_iff in Hn. apply Nat.eqb_neq in Hn. congruence.
  - intros a b Ha Hb Hab. unfold rem in Ha, Hb. apply andb_prop in Ha as [_ Ha]. apply andb_prop in Hb as [_ Hb]. now apply H2.
  - rewrite (weight_rem g I v). unfold m_cost. destruct (I v) eqn:E; cbn [andb]; [|reflexivity].
    destruct (H1 v E) as [L _]. apply Nat.ltb_lt in L. rewrite L. reflexivity.
Qed.

(* a run: variables decided in the order `vs` (any order), decisions `ds` *)
Fixpoint m_run (g : graph) (s : state) (vs : list nat) (ds : list bool) : option (state * Z) :=
  match vs, ds with
  | [], [] => Some (s, 0)
  | v :: vs', d :: ds' =>
      if existsb (Bool.eqb d) (m_dom s v) then
        match m_run g (m_trans g s v d) vs' ds' with Some (s', c) => Some (s', m_cost g v d + c) | None => None end
      else None
  | _, _ => None
  end.
(* the set selected by a run *)
Fixpoint chosen (vs : list nat) (ds : list bool) : state :=
  match vs, ds with v :: vs', d :: ds' => if d then add v (chosen vs' ds') else chosen vs' ds' | _, _ => fun _ => false end.
Definition union (I J : state) : state := fun u => I u || J u.

Lemma existsb_eqb d l : existsb (Bool.eqb d) l = true <-> In d l.
Proof. rewrite existsb_exists. split; [intros (x & Hx & E); apply eqb_prop in E; congruence|intros H; exists d; split; [exact H|apply eqb_reflx]]. Qed.

Lemma IS_ext g s I J : (forall u, I u = J u) -> IS g s I -> IS g s J.
Proof. intros E [H1 H2]. split; [intros u Hu; apply H1; now rewrite E|intros a b Ha Hb; apply H2; now rewrite E]. Qed.
Lemma weight_ext g I J : (forall u, I u = J u) -> weight g I = weight g J.
Proof. intros E. unfold weight. apply sum_upto_ext. intros u _. now rewrite E. Qed.

Definition vars_ok (g : graph) (vs : list nat) : Prop := Forall (fun v => (v < g_n g)%nat) vs.

(* soundness: whatever independent set J completes the final state, the run's choices plus J are an independent set of the start state
   and the run's value is the weight of its choices *)
Theorem misp_run_sound g : forall vs ds s s' c J, vars_ok g vs -> m_run g s vs ds = Some (s', c) -> IS g s' J ->
  IS g s (union (chosen vs ds) J) /\ weight g (union (chosen vs ds) J) = c + weight g J.
Proof.
  induction vs as [|v vs IH]; intros ds s s' c J Hok R HJ; destruct ds as [|d ds]; cbn [m_run] in R; try discriminate.
  - inversion R; subst. cbn [chosen]. split; [eapply IS_ext; [|exact HJ]; reflexivity|]. rewrite (weight_ext g _ J) by reflexivity. lia.
  - destruct (existsb (Bool.eqb d) (m_dom s v)) eqn:D; [|discriminate].
    destruct (m_run g (m_trans g s v d) vs ds) as [[s2 c2]|] eqn:R2; [|discriminate]. inversion R; subst.
    inversion Hok as [|? ? Hv Hok']; subst.
    destruct (IH ds _ _ _ J Hok' R2 HJ) as [A B]. apply existsb_eqb in D. cbn [chosen]. destruct d.
    + assert (Sv : s v = true) by (unfold m_dom in D; destruct (s v); [reflexivity|cbn in D; destruct D as [D|[]]; discriminate]).
      destruct (trans_yes_sound g s v _ Sv Hv A) as [A' B']. split.
      * eapply IS_ext; [|exact A']. intros u. unfold add, union. now rewrite orb_assoc.
      * rewrite (weight_ext g _ (add v (union (chosen vs ds) J))) by (intros u; unfold add, union; now rewrite orb_assoc).
        rewrite B', B. unfold m_cost. lia.
    + split; [eapply trans_no_sound; exact A|]. rewrite B. unfold m_cost. lia.
Qed.

Fixpoint rem_all (vs : list nat) (I : state) : state := match vs with [] => I | v :: r => rem_all r (rem v I) end.

Fixpoint decs (I : state) (vs : list nat) : list bool := match vs with [] => [] | v :: r => I v :: decs (rem v I) r end.

(* completeness: every independent set I of the start state is followed by a feasible run (deciding v iff v is still in the set); its value
   plus the weight of the undecided rest is the weight of I *)
Theorem misp_run_complete g : forall vs s I, IS g s I ->
  exists s' c, m_run g s vs (decs I vs) = Some (s', c) /\ IS g s' (rem_all vs I) /\ weight g I = c + weight g (rem_all vs I).
Proof.
  induction vs as [|v vs IH]; intros s I HI; cbn [decs m_run rem_all].
  - exists s, 0. split; [reflexivity|split; [exact HI|lia]].
  - destruct (trans_complete g s v I HI) as (D & A & W). apply existsb_eqb in D. rewrite D.
    destruct (IH _ _ A) as (s' & c & R & A' & W'). rewrite R. exists s', (m_cost g v (I v) + c). split; [reflexivity|split; [exact A'|lia]].
Qed.

(* when the diagram stops (next_variable = None: every state of the last layer is empty) nothing is left undecided *)
Lemma IS_empty g s I : empty_on g s -> IS g s I -> forall u, I u = false.
Proof. intros E [H1 _] u. destruct (I u) eqn:Iu; [|reflexivity]. destruct (H1 u Iu) as [L T]. rewrite (E u L) in T. discriminate. Qed.
Lemma weight_none g I : (forall u, I u = false) -> weight g I = 0.
Proof.
  intros E. unfold weight. rewrite (sum_upto_ext _ _ (fun _ => 0)) by (intros u _; now rewrite E).
  induction (g_n g) as [|k IH]; cbn [sum_upto]; lia.
Qed.
Lemma IS_none g s : IS g s (fun _ => false).
Proof. split; intros; discriminate. Qed.

(* The DP optimum IS the independent-set optimum, for every variable sequence that empties the state:
   (1) every feasible run ending in an empty state selects an independent set whose weight is the run's value;
   (2) every independent set is the selection of a feasible run with that value, provided the sequence empties the states it reaches. *)
Corollary misp_dp_sound g vs ds s s' c : vars_ok g vs -> m_run g s vs ds = Some (s', c) ->
  IS g s (chosen vs ds) /\ weight g (chosen vs ds) = c.
Proof.
  intros Hok R. destruct (misp_run_sound g vs ds s s' c (fun _ => false) Hok R (IS_none g s')) as [A B].
  split; [eapply IS_ext; [|exact A]; intros u; unfold union; apply orb_false_r|].
  rewrite (weight_ext g _ (union (chosen vs ds) (fun _ => false))) by (intros u; unfold union; now rewrite orb_false_r).
  rewrite B, weight_none by reflexivity. lia.
Qed.
Corollary misp_dp_complete g vs s I : IS g s I -> (forall s' c, m_run g s vs (decs I vs) = Some (s', c) -> empty_on g s') ->
  exists s' c, m_run g s vs (decs I vs) = Some (s', c) /\ c = weight g I.
Proof.
  intros HI E. destruct (misp_run_complete g vs s I HI) as (s' & c & R & A & W). exists s', c. split; [exact R|].
  rewrite (weight_none g (rem_all vs I)) in W by (eapply IS_empty; [eapply E; exact R|exact A]). lia.
Qed.
(* a sequence listing every vertex empties every state *)
Lemma run_removes g : forall vs ds s s' c, m_run g s vs ds = Some (s', c) -> forall u, s' u = true -> s u = true /\ ~ In u vs.
Proof.
  induction vs as [|v vs IH]; intros ds s s' c R u Hu; destruct ds as [|d ds]; cbn [m_run] in R; try discriminate.
  - inversion R; subst. split; [exact Hu|intros []].
  - destruct (existsb (Bool.eqb d) (m_dom s v)); [|discriminate].
    destruct (m_run g (m_trans g s v d) vs ds) as [[s2 c2]|] eqn:R2; [|discriminate]. inversion R; subst.
    destruct (IH _ _ _ _ R2 u Hu) as [T N]. unfold m_trans in T. apply andb_prop in T as [T _]. apply andb_prop in T as [T Q].
    split; [exact T|]. intros [->|X]; [|tauto]. rewrite Nat.eqb_refl in Q. discriminate.
Qed.
Corollary misp_dp_complete_all_vertices g vs s I : IS g s I -> (forall u, (u < g_n g)%nat -> In u vs) ->
  exists s' c, m_run g s vs (decs I vs) = Some (s', c) /\ c = weight g I.
Proof.
  intros HI All. apply misp_dp_complete; [exact HI|]. intros s' c R u L. destruct (s' u) eqn:E; [|reflexivity].
  destruct (run_removes g _ _ _ _ _ R u E) as [_ N]. exfalso. apply N, All, L.
Qed.

(* ---- the relaxation ---------------------------------------------------------------------------------------------------- *)
(* cov := le_st: the merged state contains every merged member; containment is a simulation *)
Theorem misp_merge_cov ss s : In s ss -> le_st s (m_merge ss).
Proof. intros H u Hu. unfold m_merge. apply existsb_exists. exists s. tauto. Qed.
Theorem misp_cov_refl s : le_st s s.
Proof. intros u H; exact H. Qed.
Theorem misp_cov_trans s t r : le_st s t -> le_st t r -> le_st s r.
Proof. intros A B u H. apply B, A, H. Qed.
Theorem misp_cov_sim g s t v d : le_st s t -> In d (m_dom s v) ->
  In d (m_dom t v) /\ le_st (m_trans g s v d) (m_trans g t v d).
Proof.
  intros L D. split.
  - unfold m_dom in *. destruct (s v) eqn:Sv; [rewrite (L v Sv); exact D|]. destruct D as [<-|[]]. destruct (t v); cbn; tauto.
  - intros u Hu. unfold m_trans in *. apply andb_prop in Hu as [Hu C]. apply andb_prop in Hu as [Hu B]. rewrite (L u Hu), B, C. reflexivity.
Qed.
(* the cost of an arc does not depend on the states, and relax leaves it unchanged: relaxed arcs cost exactly what the covered arcs cost *)
Theorem misp_relax_ge c : c <= m_relax c.
Proof. unfold m_relax; lia. Qed.
(* a relaxed state admits every completion of the states it covers *)
Theorem misp_cov_IS g s t I : le_st s t -> IS g s I -> IS g t I.
Proof. intros L [H1 H2]. split; [intros u Hu; destruct (H1 u Hu); split; [assumption|now apply L]|exact H2]. Qed.
(* long arcs: a state that does not contain v is left unchanged by its only decision, at no cost *)
Theorem misp_not_impacted g s v : m_impacted s v = false ->
  m_dom s v = [false] /\ (forall u, m_trans g s v false u = s u) /\ m_cost g v false = 0.
Proof.
  unfold m_impacted, m_dom, m_trans. intros Sv. rewrite Sv. split; [reflexivity|split; [|reflexivity]].
  intros u. rewrite andb_true_r. destruct (Nat.eqb_spec u v) as [E|E]; [subst u; rewrite Sv; reflexivity|apply andb_true_r].
Qed.

(* the rough upper bound *)
Theorem misp_rub_adm g s I : IS g s I -> weight g I <= m_rub g s.
Proof.
  intros [H1 _]. unfold weight, m_rub. apply sum_upto_le. intros u _. destruct (I u) eqn:Iu.
  - destruct (H1 u Iu) as [_ ->]. lia.
  - destruct (s u); lia.
Qed.
Theorem misp_rub_mono g s t : le_st s t -> m_rub g s <= m_rub g t.
Proof. intros L. unfold m_rub. apply sum_upto_le. intros u _. destruct (s u) eqn:Su; [rewrite (L u Su); lia|destruct (t u); lia]. Qed.
Theorem misp_rub_nonneg g s : 0 <= m_rub g s.
Proof. unfold m_rub. induction (g_n g) as [|k IH]; cbn [sum_upto]; [lia|]. destruct (s k); lia. Qed.
(* hence the bound of a state covers the value of every run from every state it covers *)
Corollary misp_rub_bounds_runs g s t vs ds s' c : le_st s t -> vars_ok g vs -> m_run g s vs ds = Some (s', c) -> c <= m_rub g t.
Proof.
  intros L Hok R. destruct (misp_dp_sound g vs ds s s' c Hok R) as [A B]. rewrite <- B.
  etransitivity; [apply misp_rub_adm; exact A|apply misp_rub_mono; exact L].
Qed.

(* the bound before fix a75761f (plain sum of the remaining weights) is NOT admissible: finding D6 *)
Definition g_neg : graph := {| g_n := 3; g_w := fun u => match u with O => 5 | S O => -6 | _ => 7 end; g_edges := [(1, 2); (2, 0)]%nat |}.
Theorem misp_prefix_rub_refuted : exists g s I, IS g s I /\ m_rub_prefix g s < weight g I.
Proof.
  exists g_neg, (m_init g_neg), (fun u => Nat.eqb u 2). split; [split|vm_compute; reflexivity].
  - intros u Hu. apply Nat.eqb_eq in Hu. subst. split; [cbn; lia|reflexivity].
  - intros u v Hu Hv. apply Nat.eqb_eq in Hu, Hv. congruence.
Qed.

(* isize: with sum |w| <= IMAX every value and bound the library computes on this model is a machine integer *)
Definition abs_total (g : graph) : Z := sum_upto (g_n g) (fun u => Z.abs (g_w g u)).
Lemma sum_upto_opp n f : sum_upto n (fun u => - f u) = - sum_upto n f.
Proof. induction n as [|k IH]; cbn [sum_upto]; [reflexivity|rewrite IH; lia]. Qed.
Theorem misp_values_in_range g I : - abs_total g <= weight g I <= abs_total g.
Proof.
  unfold weight, abs_total. split.
  - rewrite <- sum_upto_opp. apply sum_upto_le. intros u _. destruct (I u); lia.
  - apply sum_upto_le. intros u _. destruct (I u); lia.
Qed.
Theorem misp_rub_in_range g s : 0 <= m_rub g s <= abs_total g.
Proof. split; [apply misp_rub_nonneg|]. unfold m_rub, abs_total. apply sum_upto_le. intros u _. destruct (s u); lia. Qed.

(* ---- the dynamic variable order: branch on the vertex contained in the fewest states of the layer (first such vertex) ------------- *)
Definition count (ss : list state) (u : nat) : nat := length (filter (fun s => s u) ss).
Fixpoint argmin_from (ss : list state) (k : nat) (u : nat) (best : option (nat * nat)) : option (nat * nat) :=
  match k with
  | O => best
  | S k' =>
      let c := count ss u in
      let best' := if Nat.eqb c 0 then best
                   else match best with None => Some (u, c) | Some (_, cb) => if Nat.ltb c cb then Some (u, c) else best end in
      argmin_from ss k' (S u) best'
  end.
Definition m_next_var (g : graph) (ss : list state) : option nat := option_map fst (argmin_from ss (g_n g) 0 None).

Lemma argmin_from_inv ss : forall k u best,
  (forall v c, best = Some (v, c) -> c = count ss v /\ c <> 0%nat /\ (v < u)%nat) ->
  (best = None -> forall v, (v < u)%nat -> count ss v = 0%nat) ->
  (forall v c, argmin_from ss k u best = Some (v, c) -> c = count ss v /\ c <> 0%nat /\ (v < u + k)%nat) /\
  (argmin_from ss k u best = None -> forall v, (v < u + k)%nat -> count ss v = 0%nat).
Proof.
  induction k as [|k IH]; intros u best HS HN; cbn [argmin_from].
  - rewrite Nat.add_0_r. split; assumption.
  - replace (u + S k)%nat with (S u + k)%nat by lia. apply IH.
    + intros v c. destruct (Nat.eqb_spec (count ss u) 0) as [Z|NZ].
      * intros E. destruct (HS v c E) as (A & B & C). repeat split; try assumption; lia.
      * destruct best as [[vb cb]|].
        -- destruct (Nat.ltb (count ss u) cb); intros E.
           ++ inversion E; subst. repeat split; try assumption; lia.
           ++ destruct (HS v c E) as (A & B & C). repeat split; try assumption; lia.
        -- intros E. inversion E; subst. repeat split; try assumption; lia.
    + destruct (Nat.eqb_spec (count ss u) 0) as [Z|NZ].
      * intros E v Hv. destruct (Nat.eq_dec v u) as [->|]; [exact Z|apply HN; [exact E|lia]].
      * destruct best as [[vb cb]|]; [destruct (Nat.ltb (count ss u) cb)|]; discriminate.
Qed.

Lemma count_pos ss u : count ss u <> 0%nat -> exists s, In s ss /\ s u = true.
Proof.
  unfold count. intros H. destruct (filter (fun s => s u) ss) as [|s r] eqn:F; [cbn in H; congruence|].
  assert (I : In s (filter (fun s => s u) ss)) by (rewrite F; left; reflexivity). apply filter_In in I. exists s. exact I.
Qed.
Lemma count_zero ss u s : count ss u = 0%nat -> In s ss -> s u = false.
Proof.
  unfold count. intros H I. destruct (s u) eqn:E; [|reflexivity].
  assert (X : In s (filter (fun s => s u) ss)) by (apply filter_In; tauto). destruct (filter (fun s => s u) ss); [destruct X|cbn in H; discriminate].
Qed.

(* the chosen vertex is below n and still present in some state of the layer (so it has not been decided on the way to that state);
   when none is chosen every state of the layer is empty: the diagram stops exactly when nothing is left to decide *)
Theorem misp_next_var_some g ss v : m_next_var g ss = Some v -> (v < g_n g)%nat /\ exists s, In s ss /\ s v = true.
Proof.
  unfold m_next_var. intros H. destruct (argmin_from ss (g_n g) 0 None) as [[v' c]|] eqn:E; [|discriminate]. cbn in H. inversion H; subst.
  destruct (argmin_from_inv ss (g_n g) 0%nat None) as [A _]; [discriminate|intros _ x Hx; lia|].
  destruct (A v c E) as (C1 & C2 & C3). split; [lia|]. apply count_pos. congruence.
Qed.
Theorem misp_next_var_none g ss : m_next_var g ss = None -> forall s, In s ss -> empty_on g s.
Proof.
  unfold m_next_var. intros H s I u L. destruct (argmin_from ss (g_n g) 0 None) as [[v' c]|] eqn:E; [discriminate|].
  destruct (argmin_from_inv ss (g_n g) 0%nat None) as [_ B]; [discriminate|intros _ x Hx; lia|].
  eapply count_zero; [apply B; [exact E|lia]|exact I].
Qed.

(* ---- executable views for the correspondence check and non-vacuity ------------------------------------------------------------ *)
Definition of_list (l : list nat) : state := fun u => existsb (Nat.eqb u) l.
Definition to_list (g : graph) (s : state) : list nat := filter s (seq 0 (g_n g)).
Definition mk_graph (n : nat) (ws : list Z) (es : list (nat * nat)) : graph := {| g_n := n; g_w := fun u => nth u ws 1; g_edges := es |}.
(* brute force over all subsets of the vertices *)
Fixpoint subsets (l : list nat) : list (list nat) := match l with [] => [[]] | x :: r => subsets r ++ map (cons x) (subsets r) end.
Definition indepb (g : graph) (l : list nat) : bool := forallb (fun u => forallb (fun v => Nat.eqb u v || negb (adj g u v)) l) l.
Definition best_enum (g : graph) (s : state) : Z :=
  fold_right Z.max 0 (map (fun l => weight g (of_list l)) (filter (indepb g) (subsets (to_list g s)))).

(* best_enum IS the maximum weight of an independent set of the state: an upper bound of all, attained by one *)
Lemma of_list_spec l u : of_list l u = true <-> In u l.
Proof.
  unfold of_list. rewrite existsb_exists. split; [intros (x & Hx & E); apply Nat.eqb_eq in E; now subst|intros H; exists u; split; [exact H|apply Nat.eqb_refl]].
Qed.
Lemma to_list_spec g s u : In u (to_list g s) <-> (u < g_n g)%nat /\ s u = true.
Proof. unfold to_list. rewrite filter_In, in_seq. split; intros [A B]; split; try assumption; lia. Qed.
Lemma In_subsets_filter (f : nat -> bool) : forall L, In (filter f L) (subsets L).
Proof.
  induction L as [|x r IH]; cbn [filter subsets]; [left; reflexivity|]. apply in_or_app. destruct (f x); [right; apply in_map; exact IH|left; exact IH].
Qed.
Lemma subsets_incl : forall L l, In l (subsets L) -> incl l L.
Proof.
  induction L as [|x r IH]; cbn [subsets]; intros l H.
  - destruct H as [<-|[]]. intros u [].
  - apply in_app_or in H as [H|H]; [intros u Hu; right; now apply (IH l H)|].
    apply in_map_iff in H as (l' & <- & H'). intros u [<-|Hu]; [left; reflexivity|right; now apply (IH l' H')].
Qed.
Lemma fold_max_ge : forall L x, In x L -> x <= fold_right Z.max 0 L.
Proof. induction L as [|y r IH]; intros x []; cbn [fold_right]; [subst; lia|specialize (IH x H); lia]. Qed.
Lemma fold_max_in : forall L, fold_right Z.max 0 L = 0 \/ In (fold_right Z.max 0 L) L.
Proof.
  induction L as [|y r IH]; cbn [fold_right]; [left; reflexivity|].
  destruct (Z.max_spec y (fold_right Z.max 0 r)) as [[_ ->]|[_ ->]]; [destruct IH as [->|H]; [left; reflexivity|right; right; exact H]|right; left; reflexivity].
Qed.
Lemma indepb_spec g l : indepb g l = true <-> forall u v, In u l -> In v l -> u <> v -> adj g u v = false.
Proof.
  unfold indepb. rewrite forallb_forall. split.
  - intros H u v Hu Hv Ne. specialize (H u Hu). rewrite forallb_forall in H. specialize (H v Hv).
    apply orb_prop in H as [E|E]; [apply Nat.eqb_eq in E; congruence|now apply negb_true_iff in E].
  - intros H u Hu. apply forallb_forall. intros v Hv. destruct (Nat.eqb_spec u v) as [E|E]; [reflexivity|]. cbn [orb]. apply negb_true_iff. now apply H.
Qed.

Theorem best_enum_upper g s I : IS g s I -> weight g I <= best_enum g s.
Proof.
  intros [H1 H2]. unfold best_enum. set (l := filter I (to_list g s)).
  assert (Hl : forall u, In u l <-> I u = true).
  { intros u. unfold l. rewrite filter_In, to_list_spec. split; [tauto|]. intros Iu. destruct (H1 u Iu). tauto. }
  assert (E : weight g I = weight g (of_list l)).
  { apply weight_ext. intros u. destruct (I u) eqn:Iu.
    - symmetry. apply of_list_spec, Hl, Iu.
    - destruct (of_list l u) eqn:O; [|reflexivity]. apply of_list_spec, Hl in O. congruence. }
  rewrite E. apply fold_max_ge. apply (in_map (fun l0 => weight g (of_list l0))). apply filter_In. split; [apply In_subsets_filter|].
  apply indepb_spec. intros u v Hu Hv. apply H2; now apply Hl.
Qed.
Theorem best_enum_attained g s : exists I, IS g s I /\ weight g I = best_enum g s.
Proof.
  unfold best_enum. destruct (fold_max_in (map (fun l => weight g (of_list l)) (filter (indepb g) (subsets (to_list g s))))) as [Z|H].
  - exists (fun _ => false). split; [apply IS_none|]. rewrite Z. now apply weight_none.
  - apply in_map_iff in H as (l & E & Hl). apply filter_In in Hl as [Hs Hi]. exists (of_list l). split; [|exact E].
    apply subsets_incl in Hs. split.
    + intros u Hu. apply of_list_spec in Hu. now apply to_list_spec, Hs.
    + intros u v Hu Hv. apply of_list_spec in Hu, Hv. apply (proj1 (indepb_spec g l) Hi); assumption.
Qed.
(* so: the value of every feasible run from s is at most best_enum g s, and some run over any sequence listing all vertices has that value *)
Corollary misp_dp_optimum g s vs : vars_ok g vs -> (forall u, (u < g_n g)%nat -> In u vs) ->
  (forall ds s' c, m_run g s vs ds = Some (s', c) -> c <= best_enum g s) /\
  (exists ds s' c, m_run g s vs ds = Some (s', c) /\ c = best_enum g s).
Proof.
  intros Hok All. split.
  - intros ds s' c R. destruct (misp_dp_sound g vs ds s s' c Hok R) as [A <-]. now apply best_enum_upper.
  - destruct (best_enum_attained g s) as (I & HI & W). destruct (misp_dp_complete_all_vertices g vs s I HI All) as (s' & c & R & E).
    exists (decs I vs), s', c. split; [exact R|congruence].
Qed.

Definition g_ex : graph := mk_graph 4 [3; 4; 2; -1] [(0, 1); (1, 2)]%nat.
Example misp_example :
  (best_enum g_ex (m_init g_ex) = 5) /\ (m_rub g_ex (m_init g_ex) = 9) /\ (to_list g_ex (m_trans g_ex (m_init g_ex) 1%nat true) = [3%nat]) /\
  (m_run g_ex (m_init g_ex) [1; 0]%nat [true; true] = None) /\
  (option_map snd (m_run g_ex (m_init g_ex) [1; 0; 2; 3]%nat [false; true; true; false]) = Some 5).
Proof. vm_compute. repeat split. Qed.
