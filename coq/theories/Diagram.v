(* Diagram.v — the DIAGRAM-level theorems about Mdd.compile, in the form a user's model can actually meet.

   1. Machine-integer variants of the simulation theorems S1..S4 of MddSim.v.
      MddSim.v assumes   relax_ge : forall src dst mg d c, c <= relax rlx src dst mg d c   for EVERY integer c, which no
      relaxation returning a machine integer (isize) can satisfy (take c = IMAX + 1).  Here that premise is replaced by
          cost_isize     : forall s d, in_isize (transition_cost pb s (transition pb s d) d)
          relax_isize    : forall src dst mg d c, in_isize c -> in_isize (relax rlx src dst mg d c)
          relax_ge_isize : forall src dst mg d c, in_isize c -> c <= relax rlx src dst mg d c
      for an ARBITRARY compilation input [inp] and arbitrary tie-break oracles tb tb2 (the generality of S1..S4):
          S1_relaxed_upper_bound_isize, S2_exact_truthful_isize, S2_exact_mode_isize, S3_cutset_ub_isize,
          S4_cutset_covers_isize.
      Method (that of Assembly.SimContractsSat, one level down): Assembly.clip_compile says that compiling with the relaxation
      clipped to isize costs (clip_relaxation) yields the very same diagram; the clipped relaxation meets relax_ge for every
      integer (clip_relax_ge_all); the conclusions do not mention the relaxation (vstar, dd_best_value, dd_best_exact_value,
      drain_cutset, H, ci_best_lb of [set_relax inp r] are those of inp, by conversion: section SetRelax).

   2. C07, "restricted diagrams are feasible lower bounds", at the cinput level (any inp, tb, tb2, ANY cutoff):
          C07_restricted_value_is_feasible   the best value of a completed Restricted / Exact compilation is the value of a
                                             COMPLETE feasible run (exact integer arithmetic) from the root sub-problem, and
                                             the best solution is the root path followed by the decisions of that run
          C07_restricted_lower_bound         hence it is at most the optimum vstar inp (= opt_enum_from .., vstar_opt_enum)
          C07_best_exact_value_is_feasible / C07_best_exact_lower_bound
                                             the same for dd_best_exact_value / dd_best_exact_solution of ANY compilation
                                             type (Relaxed included): the exact best node is a genuine solution
          C07_restricted_lower_bound_any_outcome   cutoff 0: whatever the outcome component says (it is Compiled)
      No relaxation premise is involved (no cov, merge, relax, rough bound); premises: st_eqb_spec, clean flavour, no cache,
      no dominance rule, 1 <= width, static variable order (nv_static, nv_some, nv_none), root depth <= nb_vars, guard B.
      ORDER OF THE DECISIONS: the model lists a solution as  sp_path root ++ chain  where chain walks the best edges from
      the terminal node UP to the root, i.e. last decision first; the feasible run takes them root first.  So the statement
      reads  dd_best_solution inp m = Some (sp_path root ++ rev ds)  for the run  frun .. ds  — an equality, not merely a
      permutation.

   3. Non-vacuity: the table-driven family of Table.v / TableWf.v (instances with t_wf ti C) meets every premise of the
      theorems above (section TableDiagram: table_S1 .. table_C07), and on the concrete instance ex_ti (optimum 12):
          ex_S1   Relaxed, width 1: the diagram is not exact (ex_relaxed1_inexact) and its best value is >= 12
          ex_S3   every cut-set node whose exact best completion is o has an upper bound >= o
          ex_S4   some cut-set node has an exact best completion of exactly 12, and its bound is >= 12
          ex_S2_truthful   Relaxed, width 2: the diagram says it is exact and its best exact value is 12
          ex_S2_mode       Exact mode, width 1: the best value is 12
          ex_C07  Restricted, width 1, cutoff 5 (does not fire): the best value is the value of a complete feasible run
                  whose reversed decisions are the best solution, and it is <= 12
      On ex_ti the bounds happen to be tight (both 12); a second instance ex2_ti (optimum 7) shows strict gaps: the relaxed
      diagram of width 1 says 8, the restricted one 3 (ex2_shape), with ex2_S1 : 7 <= 8, ex2_S4, ex2_C07 : 3 <= 7 by the
      theorems.  The compilations themselves are evaluated by vm_compute (always in the GOAL, so that the kernel replays
      them with the VM); the inequalities / equalities come from the theorems.

   Stdlib only, no axioms (Print Assumptions at the end). *)
Require Import DDO.Base DDO.Fringe DDO.DP DDO.Cache DDO.Dom DDO.Mdd DDO.MddStruct DDO.MddExact DDO.Solver DDO.SolverProofs.
Require Import DDO.MddProgress DDO.MddSim DDO.SolverCutoff DDO.Assembly DDO.Table DDO.Run DDO.TableWf.
From Coq Require Import Lia List Arith ZArith Bool Permutation.
Import ListNotations.
Local Open Scope Z_scope.

(* ================================================================== 0. what does not depend on the relaxation *)
Section SetRelax.
  Context {St : Type}.
  Variable inp : @cinput St.
  Variable r : relaxation St.

  Lemma set_relax_vstar : vstar (set_relax inp r) = vstar inp.
  Proof. reflexivity. Qed.
  Lemma set_relax_best_lb : ci_best_lb (set_relax inp r) = ci_best_lb inp.
  Proof. reflexivity. Qed.
  Lemma set_relax_type : ci_type (set_relax inp r) = ci_type inp.
  Proof. reflexivity. Qed.
  Lemma set_relax_problem : ci_problem (set_relax inp r) = ci_problem inp.
  Proof. reflexivity. Qed.
  Lemma set_relax_root : ci_root (set_relax inp r) = ci_root inp.
  Proof. reflexivity. Qed.
  Lemma set_relax_best_value m : dd_best_value (set_relax inp r) m = dd_best_value inp m.
  Proof. reflexivity. Qed.
  Lemma set_relax_best_exact_value m : dd_best_exact_value (set_relax inp r) m = dd_best_exact_value inp m.
  Proof. reflexivity. Qed.
  Lemma set_relax_best_solution m : dd_best_solution (set_relax inp r) m = dd_best_solution inp m.
  Proof. reflexivity. Qed.
  Lemma set_relax_drain_cutset m : drain_cutset (set_relax inp r) m = drain_cutset inp m.
  Proof. reflexivity. Qed.
End SetRelax.

(* the clipped relaxation does not decrease ANY integer cost (it is the identity outside isize) *)
Lemma clip_relax_ge_all {St : Type} (r : relaxation St) :
  (forall src dst mg d c, in_isize c -> c <= relax r src dst mg d c) ->
  forall src dst mg d c, c <= relax (clip_relaxation r) src dst mg d c.
Proof.
  intros Hge src dst mg d c. cbn [clip_relaxation relax].
  destruct (in_isize_b c) eqn:E; [|lia].
  apply Hge. unfold in_isize_b in E. apply andb_true_iff in E. destruct E as [E1 E2].
  apply Z.leb_le in E1. apply Z.leb_le in E2. split; assumption.
Qed.

(* ================================================================== 1. S1 .. S4 for relaxations returning machine integers *)
Section SimIsize.
  Context {St : Type}.
  Variable st_eqb : St -> St -> bool.
  Hypothesis st_eqb_spec : forall a b, st_eqb a b = true <-> a = b.
  Variable inp : @cinput St.
  Local Notation pb := (ci_problem inp).
  Local Notation rlx := (ci_relax inp).
  Local Notation root := (ci_root inp).
  Local Notation N := (nb_vars (ci_problem inp)).
  Hypothesis Hclean : ci_flavour inp = CleanLEL \/ ci_flavour inp = CleanFC.
  Hypothesis Hnocache : ci_use_cache inp = false.
  Hypothesis Hnodom : ci_domrule inp = None.
  Hypothesis Hnocut : ci_cutoff inp = 0%nat.
  Hypothesis Hwidth : (1 <= ci_width inp)%nat.
  Hypothesis Hrd : (sp_depth root <= N)%nat.
  Hypothesis nv_static : forall k l1 l2, next_variable pb k l1 = next_variable pb k l2.
  Hypothesis nv_some : forall k l, (k < N)%nat -> exists x, next_variable pb k l = Some x.
  Hypothesis nv_none : forall k l, (N <= k)%nat -> next_variable pb k l = None.
  Variable cov : St -> St -> Prop.
  Hypothesis cov_refl : forall s, cov s s.
  Hypothesis cov_sim : forall s s' x v, cov s s' -> In v (domain pb x s') ->
    let d := {| d_var := x; d_val := v |} in
    In v (domain pb x s) /\ cov (transition pb s d) (transition pb s' d) /\
    (transition_cost pb s' (transition pb s' d) d <= transition_cost pb s (transition pb s d) d)%Z.
  Hypothesis merge_cov : forall L s s', In s L -> cov s s' -> cov (merge rlx L) s'.
  Hypothesis rub_adm : forall k s s' h, cov s s' -> H pb k s' = Some h -> (h <= fast_upper_bound rlx s)%Z.
  (* machine-integer costs, instead of relax_ge for every integer *)
  Hypothesis cost_isize : forall s d, in_isize (transition_cost pb s (transition pb s d) d).
  Hypothesis relax_isize : forall src dst mg d c, in_isize c -> in_isize (relax rlx src dst mg d c).
  Hypothesis relax_ge_isize : forall src dst mg d c, in_isize c -> (c <= relax rlx src dst mg d c)%Z.
  Variable B : Z.
  Hypothesis HB : 2 * B <= IMAX.
  Hypothesis Hguard : forall ds s' v',
    frun pb (sp_depth root) (sp_state root) (sp_value root) ds = Some (s', v') -> - B <= v' <= B.

  (* the input whose relaxation is clipped: it compiles to the same diagram and meets MddSim's relax_ge *)
  Local Notation inp' := (set_relax inp (clip_relaxation (ci_relax inp))).

  Lemma to_clipped tb tb2 c ds polls m out :
    compile st_eqb inp tb tb2 c ds polls = (m, out) -> compile st_eqb inp' tb tb2 c ds polls = (m, out).
  Proof. intros Hc. rewrite (clip_compile st_eqb inp Hclean cost_isize relax_isize). exact Hc. Qed.

  Lemma clipped_relax_ge : forall src dst mg d c, (c <= relax (ci_relax inp') src dst mg d c)%Z.
  Proof. exact (clip_relax_ge_all (ci_relax inp) relax_ge_isize). Qed.

  (* S1 (C06, bound): a Relaxed / Exact diagram over-approximates the optimum of its root sub-problem *)
  Theorem S1_relaxed_upper_bound_isize tb tb2 c ds polls m o :
    compile st_eqb inp tb tb2 c ds polls = (m, Compiled) ->
    ci_type inp = Relaxed \/ ci_type inp = Exact ->
    vstar inp = Some o -> o > ci_best_lb inp ->
    exists b, dd_best_value inp m = Some b /\ o <= b.
  Proof.
    intros Hc Ht Hv Hlb. apply to_clipped in Hc.
    exact (S1_relaxed_upper_bound st_eqb st_eqb_spec inp' Hclean Hnocache Hnodom Hnocut Hwidth Hrd
             nv_static nv_some nv_none cov cov_refl cov_sim merge_cov clipped_relax_ge rub_adm B HB Hguard
             tb tb2 c ds polls m o Hc Ht Hv Hlb).
  Qed.

  (* S2 (K2; C06 b): a diagram that says it is exact returns the optimum as its best exact value *)
  Theorem S2_exact_truthful_isize tb tb2 c ds polls m o :
    compile st_eqb inp tb tb2 c ds polls = (m, Compiled) ->
    dd_is_exact m = true -> vstar inp = Some o -> o > ci_best_lb inp ->
    dd_best_exact_value inp m = Some o.
  Proof.
    intros Hc Hex Hv Hlb. apply to_clipped in Hc.
    exact (S2_exact_truthful st_eqb st_eqb_spec inp' Hclean Hnocache Hnodom Hnocut Hwidth Hrd
             nv_static nv_some nv_none cov cov_refl cov_sim merge_cov clipped_relax_ge rub_adm B HB Hguard
             tb tb2 c ds polls m o Hc Hex Hv Hlb).
  Qed.

  (* C07, exact mode: an Exact compilation returns the optimum whatever the width *)
  Theorem S2_exact_mode_isize tb tb2 c ds polls m o :
    compile st_eqb inp tb tb2 c ds polls = (m, Compiled) ->
    ci_type inp = Exact -> vstar inp = Some o -> o > ci_best_lb inp ->
    dd_best_value inp m = Some o.
  Proof.
    intros Hc Ht Hv Hlb. apply to_clipped in Hc.
    exact (S2_exact_mode st_eqb st_eqb_spec inp' Hclean Hnocache Hnodom Hnocut Hwidth Hrd
             nv_static nv_some nv_none cov cov_refl cov_sim merge_cov clipped_relax_ge rub_adm B HB Hguard
             tb tb2 c ds polls m o Hc Ht Hv Hlb).
  Qed.

  (* S3 (K3_ub, C08 iii): the upper bound of every cut-set node is valid *)
  Theorem S3_cutset_ub_isize tb tb2 c ds polls m sp o :
    compile st_eqb inp tb tb2 c ds polls = (m, Compiled) ->
    ci_type inp = Relaxed -> dd_is_exact m = false ->
    In sp (drain_cutset inp m) ->
    oadd (sp_value sp) (H pb (sp_depth sp) (sp_state sp)) = Some o -> o > ci_best_lb inp ->
    o <= sp_ub sp.
  Proof.
    intros Hc Ht Hnex Hsp Ho Hlb. apply to_clipped in Hc.
    exact (S3_cutset_ub st_eqb st_eqb_spec inp' Hclean Hnocache Hnodom Hnocut Hwidth Hrd
             nv_static nv_some nv_none cov cov_refl cov_sim merge_cov clipped_relax_ge rub_adm B HB Hguard
             tb tb2 c ds polls m sp o Hc Ht Hnex Hsp Ho Hlb).
  Qed.

  (* S4 (K4, C08 iv): when the diagram is not exact and its exact best value is below the optimum, some
     cut-set node has the optimum as its exact best completion (and carries a valid upper bound) *)
  Theorem S4_cutset_covers_isize tb tb2 c ds polls m o :
    compile st_eqb inp tb tb2 c ds polls = (m, Compiled) ->
    ci_type inp = Relaxed -> dd_is_exact m = false -> vstar inp = Some o -> o > ci_best_lb inp ->
    (forall e, dd_best_exact_value inp m = Some e -> e < o) ->
    exists sp, In sp (drain_cutset inp m) /\
      oadd (sp_value sp) (H pb (sp_depth sp) (sp_state sp)) = Some o /\ o <= sp_ub sp.
  Proof.
    intros Hc Ht Hnex Hv Hlb Hbe. apply to_clipped in Hc.
    exact (S4_cutset_covers st_eqb st_eqb_spec inp' Hclean Hnocache Hnodom Hnocut Hwidth Hrd
             nv_static nv_some nv_none cov cov_refl cov_sim merge_cov clipped_relax_ge rub_adm B HB Hguard
             tb tb2 c ds polls m o Hc Ht Hnex Hv Hlb Hbe).
  Qed.
End SimIsize.

(* ================================================================== 2. C07: restricted diagrams are feasible lower bounds *)
Section Restricted.
  Context {St : Type}.
  Variable st_eqb : St -> St -> bool.
  Hypothesis st_eqb_spec : forall a b, st_eqb a b = true <-> a = b.
  Variable inp : @cinput St.
  Local Notation pb := (ci_problem inp).
  Local Notation root := (ci_root inp).
  Local Notation N := (nb_vars (ci_problem inp)).
  Hypothesis Hclean : ci_flavour inp = CleanLEL \/ ci_flavour inp = CleanFC.
  Hypothesis Hnocache : ci_use_cache inp = false.
  Hypothesis Hnodom : ci_domrule inp = None.
  (* NO hypothesis on ci_cutoff inp: a compilation that completes under a cutoff is the compilation without cutoff *)
  Hypothesis Hwidth : (1 <= ci_width inp)%nat.
  Hypothesis Hrd : (sp_depth root <= N)%nat.
  Hypothesis nv_static : forall k l1 l2, next_variable pb k l1 = next_variable pb k l2.
  Hypothesis nv_some : forall k l, (k < N)%nat -> exists x, next_variable pb k l = Some x.
  Hypothesis nv_none : forall k l, (N <= k)%nat -> next_variable pb k l = None.
  Variable B : Z.
  Hypothesis HB : 2 * B <= IMAX.
  Hypothesis Hguard : forall ds s' v',
    frun pb (sp_depth root) (sp_state root) (sp_value root) ds = Some (s', v') -> - B <= v' <= B.

  Lemma compile_cutoff_zero tb tb2 c ds polls m :
    compile st_eqb inp tb tb2 c ds polls = (m, Compiled) ->
    compile st_eqb (set_cutoff inp 0) tb tb2 c ds polls = (m, Compiled).
  Proof.
    intros Hc.
    assert (E : inp = set_cutoff inp (ci_cutoff inp)) by (destruct inp; reflexivity).
    rewrite E in Hc.
    destruct (compile_agree st_eqb inp (ci_cutoff inp) tb tb2 c ds polls m Compiled Hc) as (B0 & _ & HB2); [discriminate|].
    exact (HB2 0%nat (or_introl eq_refl)).
  Qed.

  (* the best nodes of a completed compilation are terminal: their depth is the number of variables *)
  Lemma best_depth tb tb2 c ds polls m b :
    compile st_eqb inp tb tb2 c ds polls = (m, Compiled) ->
    m_best m = Some b \/ m_best_exact m = Some b -> n_depth (get_node inp m b) = N.
  Proof.
    intros Hc Hb. apply compile_cutoff_zero in Hc.
    exact (compile_best_depth st_eqb st_eqb_spec (set_cutoff inp 0) Hclean Hnocache Hnodom eq_refl Hwidth
             nv_some nv_none Hrd tb tb2 c ds polls m Compiled b Hc Hb).
  Qed.

  (* a complete feasible run from the root is bounded by the optimum of the root sub-problem *)
  Lemma complete_run_le_vstar dl s' v :
    frun pb (sp_depth root) (sp_state root) (sp_value root) dl = Some (s', v) ->
    length dl = (N - sp_depth root)%nat ->
    exists o, vstar inp = Some o /\ v <= o.
  Proof.
    intros Hr Hl.
    destruct (frun_le_H pb nv_static nv_none dl (sp_depth root) (sp_state root) (sp_value root) s' v ltac:(lia) Hr)
      as (h & Hh & Hle).
    exists (sp_value root + h). split; [|exact Hle].
    unfold vstar. rewrite Hh. reflexivity.
  Qed.

  (* the core: a terminal node with a clean chain is reached by a complete feasible run that ends on its value *)
  Lemma clean_terminal_run tb tb2 c ds polls m b :
    compile st_eqb inp tb tb2 c ds polls = (m, Compiled) ->
    (b < length (m_nodes m))%nat -> clean_chain inp m b -> n_depth (get_node inp m b) = N ->
    best_path inp m b = sp_path root ++ chain inp m b ->
    length (chain inp m b) = (n_depth (get_node inp m b) - sp_depth root)%nat ->
    exists dl s', frun pb (sp_depth root) (sp_state root) (sp_value root) dl = Some (s', n_vtop (get_node inp m b)) /\
                  length dl = (N - sp_depth root)%nat /\
                  best_path inp m b = sp_path root ++ rev dl.
  Proof.
    intros Hc Hlt Hcc Hdep Hpath Hlen.
    pose proof (Assembly.clean_chain_frun st_eqb st_eqb_spec inp Hclean nv_static B HB Hguard
                  tb tb2 c ds polls m b Hc Hcc Hlt) as Hr.
    exists (rev (chain inp m b)), (n_state (get_node inp m b)).
    split; [exact Hr|]. split.
    - rewrite rev_length, Hlen, Hdep. reflexivity.
    - rewrite rev_involutive. exact Hpath.
  Qed.

  (* C07: the best value of a Restricted (or Exact) diagram is the value of a complete feasible run from the root, in
     exact integer arithmetic, and the best solution lists the root path followed by the decisions of that run
     (last decision first, see the header) *)
  Theorem C07_restricted_value_is_feasible tb tb2 c ds polls m v :
    compile st_eqb inp tb tb2 c ds polls = (m, Compiled) ->
    ci_type inp = Restricted \/ ci_type inp = Exact ->
    dd_best_value inp m = Some v ->
    exists dl s', frun pb (sp_depth root) (sp_state root) (sp_value root) dl = Some (s', v) /\
                  length dl = (N - sp_depth root)%nat /\
                  dd_best_solution inp m = Some (sp_path root ++ rev dl).
  Proof.
    intros Hc Ht Hv. unfold dd_best_value in Hv. unfold dd_best_solution.
    destruct (m_best m) as [b|] eqn:Eb; [|discriminate]. cbn [option_map] in *. inversion Hv; subst v. clear Hv.
    destruct (restricted_solution_feasible st_eqb st_eqb_spec inp Hclean tb tb2 c ds polls m b Ht Hc (or_introl Eb))
      as (G1 & G2 & _ & G4 & G5).
    pose proof (best_depth tb tb2 c ds polls m b Hc (or_introl Eb)) as Hdep.
    destruct (clean_terminal_run tb tb2 c ds polls m b Hc G1 G2 Hdep G4 G5) as (dl & s' & R1 & R2 & R3).
    exists dl, s'. split; [exact R1|]. split; [exact R2|]. rewrite R3. reflexivity.
  Qed.

  Theorem C07_restricted_lower_bound tb tb2 c ds polls m v :
    compile st_eqb inp tb tb2 c ds polls = (m, Compiled) ->
    ci_type inp = Restricted \/ ci_type inp = Exact ->
    dd_best_value inp m = Some v ->
    exists o, vstar inp = Some o /\ v <= o.
  Proof.
    intros Hc Ht Hv.
    destruct (C07_restricted_value_is_feasible tb tb2 c ds polls m v Hc Ht Hv) as (dl & s' & R1 & R2 & _).
    exact (complete_run_le_vstar dl s' v R1 R2).
  Qed.

  (* the same for the best EXACT node of any compilation type: a Relaxed diagram's best exact value is feasible too *)
  Theorem C07_best_exact_value_is_feasible tb tb2 c ds polls m v :
    compile st_eqb inp tb tb2 c ds polls = (m, Compiled) ->
    dd_best_exact_value inp m = Some v ->
    exists dl s', frun pb (sp_depth root) (sp_state root) (sp_value root) dl = Some (s', v) /\
                  length dl = (N - sp_depth root)%nat /\
                  dd_best_exact_solution inp m = Some (sp_path root ++ rev dl).
  Proof.
    intros Hc Hv. unfold dd_best_exact_value in Hv. unfold dd_best_exact_solution.
    destruct (m_best_exact m) as [b|] eqn:Eb; [|discriminate]. cbn [option_map] in *. inversion Hv; subst v. clear Hv.
    destruct (best_exact_solution_genuine st_eqb st_eqb_spec inp Hclean tb tb2 c ds polls m b Hc Eb)
      as (G1 & G2 & _ & G4 & G5).
    pose proof (best_depth tb tb2 c ds polls m b Hc (or_intror Eb)) as Hdep.
    destruct (clean_terminal_run tb tb2 c ds polls m b Hc G1 G2 Hdep G4 G5) as (dl & s' & R1 & R2 & R3).
    exists dl, s'. split; [exact R1|]. split; [exact R2|]. rewrite R3. reflexivity.
  Qed.

  Theorem C07_best_exact_lower_bound tb tb2 c ds polls m v :
    compile st_eqb inp tb tb2 c ds polls = (m, Compiled) ->
    dd_best_exact_value inp m = Some v ->
    exists o, vstar inp = Some o /\ v <= o.
  Proof.
    intros Hc Hv.
    destruct (C07_best_exact_value_is_feasible tb tb2 c ds polls m v Hc Hv) as (dl & s' & R1 & R2 & _).
    exact (complete_run_le_vstar dl s' v R1 R2).
  Qed.

  (* without cutoff the outcome component is Compiled anyway (MddProgress.compile_completes) *)
  Theorem C07_restricted_lower_bound_any_outcome tb tb2 c ds polls m out v :
    ci_cutoff inp = 0%nat ->
    compile st_eqb inp tb tb2 c ds polls = (m, out) ->
    ci_type inp = Restricted \/ ci_type inp = Exact ->
    dd_best_value inp m = Some v ->
    out = Compiled /\ exists o, vstar inp = Some o /\ v <= o.
  Proof.
    intros Hnocut Hc Ht Hv.
    destruct (compile_completes st_eqb st_eqb_spec inp Hclean Hnocache Hnodom Hnocut Hwidth nv_some nv_none Hrd
                tb tb2 c ds polls m out Hc) as [-> _].
    split; [reflexivity|]. exact (C07_restricted_lower_bound tb tb2 c ds polls m v Hc Ht Hv).
  Qed.
End Restricted.

(* ================================================================== 3. non-vacuity: the table-driven family meets every premise *)
Definition t_root (ti : tinst) : @subproblem tstate :=
  {| sp_state := init_state (t_problem ti); sp_value := init_value (t_problem ti); sp_path := [];
     sp_ub := IMAX; sp_depth := 0 |}.

Section TableDiagram.
  Variable ti : tinst.
  Variable C : Z.
  Hypothesis Hwf : t_wf ti C.
  Variable flv : flavour.
  Hypothesis Hflv : flv = CleanLEL \/ flv = CleanFC.
  Variable ct : comptype.
  Variable width : nat.
  Hypothesis Hwidth : (1 <= width)%nat.
  Variable lb : Z.
  Variable cutoff : nat.
  (* no cache, no dominance rule; the root sub-problem of the instance *)
  Local Notation inpk k := (tb_input ti flv ct width lb false false k (t_root ti)).
  Local Notation inp := (inpk 0%nat).
  Local Notation pb := (t_problem ti).

  Lemma table_cost_isize s d : in_isize (transition_cost pb s (transition pb s d) d).
  Proof.
    pose proof (t_cost_bound ti (Horder ti C Hwf) C (proj1 (HC ti C Hwf)) (Hcosts ti C Hwf) s d) as Hb.
    pose proof (HC ti C Hwf) as HC'. unfold in_isize, IMIN, IMAX in *. lia.
  Qed.

  Lemma table_rub k s s' h : cov s s' -> H pb k s' = Some h -> h <= fast_upper_bound (t_relaxation ti) s.
  Proof. exact (table_rub_adm ti C Hwf flv width Hwidth 0%nat k s s' h). Qed.

  Lemma table_guard ds s' v' :
    frun pb (sp_depth (t_root ti)) (sp_state (t_root ti)) (sp_value (t_root ti)) ds = Some (s', v') ->
    - tB ti C <= v' <= tB ti C.
  Proof. exact (guard0 ti (Horder ti C Hwf) C (proj1 (HC ti C Hwf)) (Hcosts ti C Hwf) ds s' v'). Qed.

  (* every premise of section SimIsize, in order *)
  Local Ltac sim_premises thm :=
    exact (thm tstate tstate_eqb tstate_eqb_spec inp Hflv eq_refl eq_refl eq_refl Hwidth (Nat.le_0_l _)
             (nv_static ti) (nv_some ti (Horder ti C Hwf)) (nv_none ti (Horder ti C Hwf))
             cov cov_refl (cov_sim ti) (merge_cov ti (Hmerge ti C Hwf)) table_rub
             table_cost_isize (fun src dst mg d c _ => relax_isize ti src dst mg d c)
             (relax_ge_isize ti (Hslack ti C Hwf)) (tB ti C) (TableWf.HB ti C Hwf) table_guard).

  Theorem table_S1 tb tb2 c ds polls m o :
    compile tstate_eqb inp tb tb2 c ds polls = (m, Compiled) ->
    ct = Relaxed \/ ct = Exact -> vstar inp = Some o -> o > lb ->
    exists b, dd_best_value inp m = Some b /\ o <= b.
  Proof. revert tb tb2 c ds polls m o. sim_premises @S1_relaxed_upper_bound_isize. Qed.

  Theorem table_S2_truthful tb tb2 c ds polls m o :
    compile tstate_eqb inp tb tb2 c ds polls = (m, Compiled) ->
    dd_is_exact m = true -> vstar inp = Some o -> o > lb ->
    dd_best_exact_value inp m = Some o.
  Proof. revert tb tb2 c ds polls m o. sim_premises @S2_exact_truthful_isize. Qed.

  Theorem table_S2_mode tb tb2 c ds polls m o :
    compile tstate_eqb inp tb tb2 c ds polls = (m, Compiled) ->
    ct = Exact -> vstar inp = Some o -> o > lb ->
    dd_best_value inp m = Some o.
  Proof. revert tb tb2 c ds polls m o. sim_premises @S2_exact_mode_isize. Qed.

  Theorem table_S3 tb tb2 c ds polls m sp o :
    compile tstate_eqb inp tb tb2 c ds polls = (m, Compiled) ->
    ct = Relaxed -> dd_is_exact m = false ->
    In sp (drain_cutset inp m) ->
    oadd (sp_value sp) (H pb (sp_depth sp) (sp_state sp)) = Some o -> o > lb ->
    o <= sp_ub sp.
  Proof. revert tb tb2 c ds polls m sp o. sim_premises @S3_cutset_ub_isize. Qed.

  Theorem table_S4 tb tb2 c ds polls m o :
    compile tstate_eqb inp tb tb2 c ds polls = (m, Compiled) ->
    ct = Relaxed -> dd_is_exact m = false -> vstar inp = Some o -> o > lb ->
    (forall e, dd_best_exact_value inp m = Some e -> e < o) ->
    exists sp, In sp (drain_cutset inp m) /\
      oadd (sp_value sp) (H pb (sp_depth sp) (sp_state sp)) = Some o /\ o <= sp_ub sp.
  Proof. revert tb tb2 c ds polls m o. sim_premises @S4_cutset_covers_isize. Qed.

  (* C07, under ANY cutoff *)
  Local Ltac c07_premises thm :=
    exact (thm tstate tstate_eqb tstate_eqb_spec (inpk cutoff) Hflv eq_refl eq_refl Hwidth (Nat.le_0_l _)
             (nv_static ti) (nv_some ti (Horder ti C Hwf)) (nv_none ti (Horder ti C Hwf))
             (tB ti C) (TableWf.HB ti C Hwf) table_guard).

  Theorem table_C07_feasible tb tb2 c ds polls m v :
    compile tstate_eqb (inpk cutoff) tb tb2 c ds polls = (m, Compiled) ->
    ct = Restricted \/ ct = Exact ->
    dd_best_value (inpk cutoff) m = Some v ->
    exists dl s', frun pb 0 (init_state pb) (init_value pb) dl = Some (s', v) /\
                  length dl = (nb_vars pb - 0)%nat /\
                  dd_best_solution (inpk cutoff) m = Some ([] ++ rev dl).
  Proof. revert tb tb2 c ds polls m v. c07_premises @C07_restricted_value_is_feasible. Qed.

  Theorem table_C07 tb tb2 c ds polls m v :
    compile tstate_eqb (inpk cutoff) tb tb2 c ds polls = (m, Compiled) ->
    ct = Restricted \/ ct = Exact ->
    dd_best_value (inpk cutoff) m = Some v ->
    exists o, vstar (inpk cutoff) = Some o /\ v <= o.
  Proof. revert tb tb2 c ds polls m v. c07_premises @C07_restricted_lower_bound. Qed.

  Theorem table_C07_exact tb tb2 c ds polls m v :
    compile tstate_eqb (inpk cutoff) tb tb2 c ds polls = (m, Compiled) ->
    dd_best_exact_value (inpk cutoff) m = Some v ->
    exists o, vstar (inpk cutoff) = Some o /\ v <= o.
  Proof. revert tb tb2 c ds polls m v. c07_premises @C07_best_exact_lower_bound. Qed.
End TableDiagram.


(* ================================================================== 4. concrete compilations
   ex_ti (TableWf.v): 3 variables, optimum 12.  Compilations from the root sub-problem, CleanLEL, lower bound IMIN, no
   cache, no dominance rule, tie-breaks 0 0; the diagrams are computed by vm_compute, the facts come from the theorems. *)
(* notations, not definitions: the statements below are then syntactically instances of the theorems *)
Notation ex_inp ti ct w cutoff := (tb_input ti CleanLEL ct w IMIN false false cutoff (t_root ti)) (only parsing).
Notation ex_compile ti ct w cutoff :=
  (compile tstate_eqb (ex_inp ti ct w cutoff) 0 0 (tb_cache_init ti) (tb_dom_init ti) 0) (only parsing).
Definition ex_m (ti : tinst) (ct : comptype) (w cutoff : nat) : @mdd tstate := fst (ex_compile ti ct w cutoff).

Lemma ex_vstar ct w k : vstar (ex_inp ex_ti ct w k) = Some 12.
Proof. vm_compute. reflexivity. Qed.

(* ---- Relaxed, width 1: layers beyond the first are merged into one node; the diagram is NOT exact *)
Lemma ex_relaxed1 : ex_compile ex_ti Relaxed 1 0 = (ex_m ex_ti Relaxed 1 0, Compiled).
Proof. vm_compute. reflexivity. Qed.

Lemma ex_relaxed1_inexact : dd_is_exact (ex_m ex_ti Relaxed 1 0) = false.
Proof. vm_compute. reflexivity. Qed.

(* what the compilation produced: 9 nodes, best value 12, no exact best node, a cut-set of two nodes
   (state, value, depth, upper bound) *)
Example ex_relaxed1_shape :
  length (m_nodes (ex_m ex_ti Relaxed 1 0)) = 9%nat /\
  dd_best_value (ex_inp ex_ti Relaxed 1 0) (ex_m ex_ti Relaxed 1 0) = Some 12 /\
  dd_best_exact_value (ex_inp ex_ti Relaxed 1 0) (ex_m ex_ti Relaxed 1 0) = None /\
  map (fun sp => (sp_state sp, sp_value sp, sp_depth sp, sp_ub sp))
      (drain_cutset (ex_inp ex_ti Relaxed 1 0) (ex_m ex_ti Relaxed 1 0)) = [([0], 0, 1%nat, 11); ([1], 5, 1%nat, 12)].
Proof. vm_compute. repeat split; reflexivity. Qed.

(* S1: the relaxed best value is at least the optimum 12 *)
Example ex_S1 :
  exists b, dd_best_value (ex_inp ex_ti Relaxed 1 0) (ex_m ex_ti Relaxed 1 0) = Some b /\ 12 <= b.
Proof.
  apply (table_S1 ex_ti 7 ex_wf CleanLEL (or_introl eq_refl) Relaxed 1 (le_n 1) IMIN 0 0 (tb_cache_init ex_ti) (tb_dom_init ex_ti) 0 (ex_m ex_ti Relaxed 1 0) 12 ex_relaxed1
           (or_introl eq_refl) (ex_vstar Relaxed 1 0)).
  vm_compute. reflexivity.
Qed.

(* S3: every cut-set node carries an upper bound on the best completion through it *)
Example ex_S3 : forall sp o,
  In sp (drain_cutset (ex_inp ex_ti Relaxed 1 0) (ex_m ex_ti Relaxed 1 0)) ->
  oadd (sp_value sp) (H (t_problem ex_ti) (sp_depth sp) (sp_state sp)) = Some o -> o <= sp_ub sp.
Proof.
  intros sp o Hin Ho.
  apply (table_S3 ex_ti 7 ex_wf CleanLEL (or_introl eq_refl) Relaxed 1 (le_n 1) IMIN 0 0 (tb_cache_init ex_ti) (tb_dom_init ex_ti) 0
           (ex_m ex_ti Relaxed 1 0) sp o ex_relaxed1 eq_refl ex_relaxed1_inexact Hin Ho).
  (* o > IMIN, by an executable check over the (two) cut-set nodes.  NB: no [vm_compute in H] anywhere in this file:
     conversions in hypotheses are re-checked by the kernel's lazy machine, which is hopeless on a compilation *)
  assert (Hchk : forallb (fun sp => match oadd (sp_value sp) (H (t_problem ex_ti) (sp_depth sp) (sp_state sp)) with
                                    | Some o => o >? IMIN | None => true end)
                         (drain_cutset (ex_inp ex_ti Relaxed 1 0) (ex_m ex_ti Relaxed 1 0)) = true)
    by (vm_compute; reflexivity).
  rewrite forallb_forall in Hchk. specialize (Hchk sp Hin). cbv beta in Hchk. rewrite Ho in Hchk.
  apply Z.gtb_lt in Hchk. lia.
Qed.

(* S4: some cut-set node attains the optimum 12 *)
Example ex_S4 :
  exists sp, In sp (drain_cutset (ex_inp ex_ti Relaxed 1 0) (ex_m ex_ti Relaxed 1 0)) /\
    oadd (sp_value sp) (H (t_problem ex_ti) (sp_depth sp) (sp_state sp)) = Some 12 /\ 12 <= sp_ub sp.
Proof.
  apply (table_S4 ex_ti 7 ex_wf CleanLEL (or_introl eq_refl) Relaxed 1 (le_n 1) IMIN 0 0 (tb_cache_init ex_ti) (tb_dom_init ex_ti) 0 (ex_m ex_ti Relaxed 1 0) 12 ex_relaxed1
           eq_refl ex_relaxed1_inexact (ex_vstar Relaxed 1 0)).
  - vm_compute. reflexivity.
  - intros e He. rewrite (proj1 (proj2 (proj2 ex_relaxed1_shape))) in He. discriminate.
Qed.

(* ---- Relaxed, width 2: the diagram says it is exact (an exact best path), so S2 applies *)
Lemma ex_relaxed2 : ex_compile ex_ti Relaxed 2 0 = (ex_m ex_ti Relaxed 2 0, Compiled).
Proof. vm_compute. reflexivity. Qed.

Example ex_S2_truthful :
  dd_is_exact (ex_m ex_ti Relaxed 2 0) = true /\
  dd_best_exact_value (ex_inp ex_ti Relaxed 2 0) (ex_m ex_ti Relaxed 2 0) = Some 12.
Proof.
  assert (Hex : dd_is_exact (ex_m ex_ti Relaxed 2 0) = true) by (vm_compute; reflexivity).
  split; [exact Hex|].
  apply (table_S2_truthful ex_ti 7 ex_wf CleanLEL (or_introl eq_refl) Relaxed 2 (le_S 1 1 (le_n 1)) IMIN 0 0 (tb_cache_init ex_ti) (tb_dom_init ex_ti) 0
           (ex_m ex_ti Relaxed 2 0) 12 ex_relaxed2 Hex (ex_vstar Relaxed 2 0)).
  vm_compute. reflexivity.
Qed.

(* ---- Exact mode, width 1 (the width is ignored) *)
Lemma ex_exact1 : ex_compile ex_ti Exact 1 0 = (ex_m ex_ti Exact 1 0, Compiled).
Proof. vm_compute. reflexivity. Qed.

Example ex_S2_mode : dd_best_value (ex_inp ex_ti Exact 1 0) (ex_m ex_ti Exact 1 0) = Some 12.
Proof.
  apply (table_S2_mode ex_ti 7 ex_wf CleanLEL (or_introl eq_refl) Exact 1 (le_n 1) IMIN 0 0 (tb_cache_init ex_ti) (tb_dom_init ex_ti) 0
           (ex_m ex_ti Exact 1 0) 12 ex_exact1 eq_refl (ex_vstar Exact 1 0)).
  vm_compute. reflexivity.
Qed.

(* ---- Restricted, width 1, under a cutoff (5 polls) that does not fire: C07 *)
Lemma ex_restricted1 : ex_compile ex_ti Restricted 1 5 = (ex_m ex_ti Restricted 1 5, Compiled).
Proof. vm_compute. reflexivity. Qed.

Example ex_C07 : forall v,
  dd_best_value (ex_inp ex_ti Restricted 1 5) (ex_m ex_ti Restricted 1 5) = Some v ->
  v <= 12 /\
  exists dl s', frun (t_problem ex_ti) 0 (init_state (t_problem ex_ti)) (init_value (t_problem ex_ti)) dl = Some (s', v) /\
                length dl = 3%nat /\
                dd_best_solution (ex_inp ex_ti Restricted 1 5) (ex_m ex_ti Restricted 1 5) = Some (rev dl).
Proof.
  intros v Hv. split.
  - destruct (table_C07 ex_ti 7 ex_wf CleanLEL (or_introl eq_refl) Restricted 1 (le_n 1) IMIN 5 0 0 (tb_cache_init ex_ti) (tb_dom_init ex_ti) 0
                (ex_m ex_ti Restricted 1 5) v ex_restricted1 (or_introl eq_refl) Hv) as (o & Ho & Hle).
    rewrite (ex_vstar Restricted 1 5) in Ho. inversion Ho; subst o. exact Hle.
  - exact (table_C07_feasible ex_ti 7 ex_wf CleanLEL (or_introl eq_refl) Restricted 1 (le_n 1) IMIN 5 0 0 (tb_cache_init ex_ti) (tb_dom_init ex_ti) 0
             (ex_m ex_ti Restricted 1 5) v ex_restricted1 (or_introl eq_refl) Hv).
Qed.

(* ---- a second instance on which neither bound is tight: x0 = 0 pays 3 now, x0 = 1 pays 2 now and 5 at the end.
     optimum 7; the relaxed diagram of width 1 says 8, the restricted diagram of width 1 says 3 *)
Definition ex2_ti : tinst := {|
  t_nvars := 3; t_nbase := 2; t_init := 0; t_initval := 0; t_slack := 0; t_rubkind := 0; t_domkind := 0;
  t_usevalue := false; t_ncoord := 0; t_order := [0; 1; 2]%nat;
  t_trans := [ (0%nat, 0, 0, 0, 3); (0%nat, 0, 1, 1, 2);
               (1%nat, 0, 0, 0, 0); (1%nat, 1, 0, 1, 0);
               (2%nat, 0, 0, 0, 0); (2%nat, 1, 0, 1, 5) ];
  t_notimp := []; t_rub := []; t_key := []; t_coords := []; t_mergekind := 0; t_pos := []; t_up := [] |}.

Example ex2_wf : t_wf ex2_ti 5.
Proof. apply t_wfb_spec. vm_compute. reflexivity. Qed.

Lemma ex2_vstar ct w k : vstar (ex_inp ex2_ti ct w k) = Some 7.
Proof. vm_compute. reflexivity. Qed.

Lemma ex2_relaxed1 : ex_compile ex2_ti Relaxed 1 0 = (ex_m ex2_ti Relaxed 1 0, Compiled).
Proof. vm_compute. reflexivity. Qed.
Lemma ex2_restricted1 : ex_compile ex2_ti Restricted 1 0 = (ex_m ex2_ti Restricted 1 0, Compiled).
Proof. vm_compute. reflexivity. Qed.

Example ex2_shape :
  dd_is_exact (ex_m ex2_ti Relaxed 1 0) = false /\
  dd_best_value (ex_inp ex2_ti Relaxed 1 0) (ex_m ex2_ti Relaxed 1 0) = Some 8 /\
  dd_best_exact_value (ex_inp ex2_ti Relaxed 1 0) (ex_m ex2_ti Relaxed 1 0) = None /\
  dd_best_value (ex_inp ex2_ti Restricted 1 0) (ex_m ex2_ti Restricted 1 0) = Some 3 /\
  map (fun sp => (sp_state sp, sp_value sp, sp_depth sp, sp_ub sp))
      (drain_cutset (ex_inp ex2_ti Relaxed 1 0) (ex_m ex2_ti Relaxed 1 0)) = [([0], 3, 1%nat, 8); ([1], 2, 1%nat, 7)].
Proof. vm_compute. repeat split; reflexivity. Qed.

Example ex2_S1 : exists b, dd_best_value (ex_inp ex2_ti Relaxed 1 0) (ex_m ex2_ti Relaxed 1 0) = Some b /\ 7 <= b.
Proof.
  apply (table_S1 ex2_ti 5 ex2_wf CleanLEL (or_introl eq_refl) Relaxed 1 (le_n 1) IMIN 0 0 (tb_cache_init ex2_ti) (tb_dom_init ex2_ti) 0 (ex_m ex2_ti Relaxed 1 0) 7 ex2_relaxed1
           (or_introl eq_refl) (ex2_vstar Relaxed 1 0)).
  vm_compute. reflexivity.
Qed.

Example ex2_S4 :
  exists sp, In sp (drain_cutset (ex_inp ex2_ti Relaxed 1 0) (ex_m ex2_ti Relaxed 1 0)) /\
    oadd (sp_value sp) (H (t_problem ex2_ti) (sp_depth sp) (sp_state sp)) = Some 7 /\ 7 <= sp_ub sp.
Proof.
  apply (table_S4 ex2_ti 5 ex2_wf CleanLEL (or_introl eq_refl) Relaxed 1 (le_n 1) IMIN 0 0 (tb_cache_init ex2_ti) (tb_dom_init ex2_ti) 0 (ex_m ex2_ti Relaxed 1 0) 7 ex2_relaxed1
           eq_refl (proj1 ex2_shape) (ex2_vstar Relaxed 1 0)).
  - vm_compute. reflexivity.
  - intros e He. rewrite (proj1 (proj2 (proj2 ex2_shape))) in He. discriminate.
Qed.

Example ex2_C07 : forall v,
  dd_best_value (ex_inp ex2_ti Restricted 1 0) (ex_m ex2_ti Restricted 1 0) = Some v -> v <= 7.
Proof.
  intros v Hv.
  destruct (table_C07 ex2_ti 5 ex2_wf CleanLEL (or_introl eq_refl) Restricted 1 (le_n 1) IMIN 0 0 0 (tb_cache_init ex2_ti) (tb_dom_init ex2_ti) 0
              (ex_m ex2_ti Restricted 1 0) v ex2_restricted1 (or_introl eq_refl) Hv) as (o & Ho & Hle).
  rewrite (ex2_vstar Restricted 1 0) in Ho. inversion Ho; subst o. exact Hle.
Qed.

(* ------------------------------------------------------------------ assumptions *)
Print Assumptions S1_relaxed_upper_bound_isize.
Print Assumptions S2_exact_truthful_isize.
Print Assumptions S2_exact_mode_isize.
Print Assumptions S3_cutset_ub_isize.
Print Assumptions S4_cutset_covers_isize.
Print Assumptions C07_restricted_value_is_feasible.
Print Assumptions C07_restricted_lower_bound.
Print Assumptions C07_best_exact_value_is_feasible.
Print Assumptions C07_best_exact_lower_bound.
Print Assumptions C07_restricted_lower_bound_any_outcome.
Print Assumptions table_S1.
Print Assumptions table_S2_truthful.
Print Assumptions table_S2_mode.
Print Assumptions table_S3.
Print Assumptions table_S4.
Print Assumptions table_C07_feasible.
Print Assumptions table_C07.
Print Assumptions table_C07_exact.
Print Assumptions ex_S1.
Print Assumptions ex_S3.
Print Assumptions ex_S4.
Print Assumptions ex_S2_truthful.
Print Assumptions ex_S2_mode.
Print Assumptions ex_C07.
Print Assumptions ex2_S1.
Print Assumptions ex2_S4.
Print Assumptions ex2_C07.
