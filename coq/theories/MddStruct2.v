(* MddStruct2.v — two complements to MddStruct.v about the call log of a compilation.

   (A) property C12, the clause "domains are enumerated ... only for states of that layer".
       [proto_ok] (MddStruct) checks the variable of every for_each_in_domain / transition /
       transition_cost call against the result of the last next_variable call; it says nothing
       about the STATE.  The checker [layer_ok] below runs over the chronological log and remembers
         ls_nv     : the states handed to the last next_variable call,
         ls_merged : the results of the merge calls logged since that call,
       and requires
         EvDomain x s / EvTransition s d s' / EvCost s s' d c :  s  is in ls_nv or in ls_merged
         EvMerge ms mg                                        :  every member of ms is in ls_nv or ls_merged
         EvRelax src dst mg d c rc                            :  dst is in ls_nv or in ls_merged
       (membership is Leibniz equality of states: node states are immutable in the model).
       Main theorem  compile_layer_states : for the three flavours, the three compilation types and
       the three outcomes, [layer_ok st0 (rev (m_log m))] for EVERY initial checker state st0, in
       particular for the empty one [ls_init], under which any user callback logged before the first
       next_variable call would be rejected.
       No clause of the task statement had to be weakened: all of them hold as stated, because
         (i)   clean: next_variable sees m_next before the filters / restrict / relax, the expanded
               identifiers are a sub-list of m_next plus possibly the fresh merged node;
         (ii)  pooled: next_variable sees the whole pool, the expanded identifiers are a sub-list of the
               impacted part of the pool plus possibly the fresh merged node;
         (iii) recycled merge: the expanded node is a kept node of the layer (its own state, which
               is in ls_nv, is used for the calls; the merge result is in ls_merged anyway).
       In fact a slightly stronger fact is proved on the way ([squash_sem]): the members of every
       merge and the dst of every relax are states handed to the LAST next_variable call (never an
       earlier merge result: there is at most one merge per layer).

   (B) property C13 for the pooled flavour: compile_width_relaxed_pooled.  Under
       [forall x s, is_impacted_by x s = true] the pooled implementation records exactly one layer
       per iteration that expands something, as the clean ones do, so the number of exempted
       segments is the same (3 = the empty segment before the first next_variable call, the root
       layer, the first layer below it); [kp_width_tight] shows 3 cannot be lowered.

   Stdlib only, no axioms. *)
Require Import DDO.Base DDO.Fringe DDO.DP DDO.Cache DDO.Dom DDO.Mdd DDO.Viz DDO.MddStruct.
Require Import DDO.Table DDO.Run DDO.TableWf.
From Coq Require Import Lia List Arith ZArith Bool.
Import ListNotations.
Open Scope nat_scope.

Section LayerStates.
  Context {St : Type}.
  Variable st_eqb : St -> St -> bool.
  Variable inp : @cinput St.

  Notation mddT := (@mdd St).
  Notation gnode := (get_node inp).
  Notation pb := (ci_problem inp).
  Notation rlx := (ci_relax inp).
  Notation flv := (ci_flavour inp).
  Notation state_of m id := (n_state (get_node inp m id)).

  (* ================================================================ (A) the checker *)
  Record lstate := { ls_nv : list St; ls_merged : list St }.
  Definition ls_init : lstate := {| ls_nv := []; ls_merged := [] |}.

  (* [s] is a state of the current layer *)
  Definition avail (st : lstate) (s : St) : Prop := In s (ls_nv st) \/ In s (ls_merged st).

  Definition layer_check (st : lstate) (ev : event St) : Prop :=
    match ev with
    | EvDomain _ s => avail st s
    | EvTransition s _ _ => avail st s
    | EvCost s _ _ _ => avail st s
    | EvMerge ms _ => forall s, In s ms -> avail st s
    | EvRelax _ dst _ _ _ _ => avail st dst
    | _ => True
    end.

  Definition layer_step (st : lstate) (ev : event St) : lstate :=
    match ev with
    | EvNextVar _ sts _ => {| ls_nv := sts; ls_merged := [] |}
    | EvMerge _ mg => {| ls_nv := ls_nv st; ls_merged := mg :: ls_merged st |}
    | _ => st
    end.

  Fixpoint layer_ok (st : lstate) (evs : list (event St)) : Prop :=
    match evs with
    | [] => True
    | ev :: r => layer_check st ev /\ layer_ok (layer_step st ev) r
    end.

  Definition layer_run (st : lstate) (evs : list (event St)) : lstate := fold_left layer_step evs st.

  Lemma layer_ok_app st a b : layer_ok st (a ++ b) <-> layer_ok st a /\ layer_ok (layer_run st a) b.
  Proof.
    revert st; induction a as [|x a IH]; intros st; simpl.
    - tauto.
    - rewrite IH. unfold layer_run. simpl. tauto.
  Qed.
  Lemma layer_run_app st a b : layer_run st (a ++ b) = layer_run (layer_run st a) b.
  Proof. unfold layer_run. apply fold_left_app. Qed.

  (* cache and dominance traffic is transparent *)
  Lemma layer_neutral k : Forall (kind_in neutral_kinds) k ->
    forall st, layer_ok st k /\ layer_run st k = st.
  Proof.
    induction 1 as [|x k Hx _ IH]; intros st; simpl; [auto|].
    destruct x; unfold kind_in in Hx; simpl in Hx;
      try (exfalso; intuition discriminate); simpl; destruct (IH st); auto.
  Qed.

  (* events of the expansion of nodes whose state satisfies P *)
  Definition src_in (P : St -> Prop) (ev : event St) : Prop :=
    match ev with
    | EvDomain _ s => P s
    | EvTransition s _ _ => P s
    | EvCost s _ _ _ => P s
    | _ => False
    end.

  Lemma layer_expand st k : Forall (src_in (avail st)) k -> layer_ok st k /\ layer_run st k = st.
  Proof.
    induction 1 as [|x k Hx _ IH]; simpl; [auto|].
    destruct IH as [A B].
    destruct x; simpl in Hx; try contradiction; simpl; auto.
  Qed.

  (* ---------------------------------------------------------------- expansion: the sources *)
  Lemma logext_expand_src (P : St -> Prop) var m id :
    id < length (m_nodes m) -> P (state_of m id) ->
    logext (src_in P) m (expand_node st_eqb inp var m id).
  Proof.
    intros Hid HP. unfold logext. rewrite (expand_node_log st_eqb inp var m id Hid).
    destruct (expands inp m id).
    - eexists. split; [reflexivity|]. apply Forall_rev. apply Forall_forall. intros ev Hev.
      apply (expand_trace_protocol st_eqb) in Hev. destruct Hev as [->|[val [Hv Hev]]]; [exact HP|].
      cbv zeta in Hev. destruct Hev as [->| ->]; exact HP.
    - exists []. split; [reflexivity|constructor].
  Qed.

  Lemma logext_fold_expand_src (P : St -> Prop) var l : forall m,
    wf inp m -> ids_ok (length (m_nodes m)) l -> (forall id, In id l -> P (state_of m id)) ->
    logext (src_in P) m (fold_left (expand_node st_eqb inp var) l m).
  Proof.
    induction l as [|id l IH]; simpl; intros m W Hl HP; [apply logext_refl|].
    inversion Hl as [|? ? Hid Hl']; subst.
    pose proof (ext_expand_node st_eqb inp var m id) as E.
    apply (logext_trans _ _ (expand_node st_eqb inp var m id)).
    - apply logext_expand_src; [exact Hid|]. apply HP. left; reflexivity.
    - apply IH.
      + apply wf_expand_node; auto.
      + eapply ids_ok_mono; [|eassumption]. apply (ext_nodes _ _ _ E).
      + intros x Hx. rewrite (ext_state _ _ _ E).
        * apply HP. right; exact Hx.
        * eapply ids_ok_In; eauto.
  Qed.

  (* ---------------------------------------------------------------- squash: what is logged, what is returned *)
  Lemma ext_drop_step merged mid a did : ext inp a (drop_step inp merged mid a did).
  Proof.
    unfold drop_step. eapply ext_trans; [|apply ext_redirect_edges]. apply ext_upd_node; reflexivity.
  Qed.

  (* the list returned by _relax: kept nodes of the layer, plus possibly the fresh merged node *)
  Lemma relax_layer_out m l m' l' :
    1 <= ci_width inp -> relax_layer st_eqb inp m l = (m', l') ->
    forall id, In id l' -> In id l \/ state_of m' id = merge rlx (merged_states inp m l).
  Proof.
    intros Hw H.
    destruct (ci_width inp) as [|w1] eqn:Hw1; [lia|].
    unfold merged_states, merged_ids. rewrite Hw1. simpl Nat.sub. rewrite Nat.sub_0_r.
    rewrite (relax_layer_unfold st_eqb inp m l w1 Hw1) in H. cbv zeta in H.
    set (m0 := note_squash inp m) in *.
    set (sorted := sort_by (rank_order inp m0) l) in *.
    set (mrg := skipn w1 sorted) in *.
    assert (Hms : map (fun id => state_of m0 id) mrg = map (fun id => state_of m id) mrg).
    { apply map_ext. intros id. unfold m0. rewrite note_squash_gnode. reflexivity. }
    rewrite Hms in H.
    set (mstates := map (fun id => state_of m id) mrg) in *.
    set (merged := merge rlx mstates) in *.
    set (m1 := add_log m0 (EvMerge mstates merged)) in *.
    assert (Ssorted : incl sorted l) by apply (proj1 (sub_sort_by _ l)).
    destruct (find _ (firstn w1 sorted)) as [rid|] eqn:Hrec.
    - apply pair_eq_inv in H. destruct H as [_ <-].
      intros id Hin. left. apply Ssorted. apply (proj1 (sub_firstn (S w1) sorted)). exact Hin.
    - apply pair_eq_inv in H. destruct H as [<- <-].
      set (mid := length (m_nodes m1)).
      set (n := merged_node merged (n_depth (gnode m1 (hd 0 mrg)))).
      set (m2 := upd_node (with_nodes m1 (m_nodes m1 ++ [n])) mid set_relaxed_flag).
      intros id Hin. apply in_app_or in Hin. destruct Hin as [Hin|[<-|[]]].
      + left. apply Ssorted. apply (proj1 (sub_firstn w1 sorted)). exact Hin.
      + right.
        assert (E : ext inp m2 (fold_left (drop_step inp merged mid) mrg m2)).
        { apply ext_fold_left. intros a x. apply ext_drop_step. }
        assert (L2 : length (m_nodes m2) = S mid).
        { change (m_nodes m2) with (upd_nth mid set_relaxed_flag (m_nodes m1 ++ [n])).
          rewrite upd_nth_length, app_length. unfold mid. change (length [n]) with 1. lia. }
        rewrite (ext_state _ _ _ E) by (rewrite L2; lia).
        unfold m2. rewrite (get_node_upd_node_proj inp (@n_state St)) by reflexivity.
        unfold get_node.
        change (m_nodes (with_nodes m1 (m_nodes m1 ++ [n]))) with (m_nodes m1 ++ [n]).
        rewrite app_nth2 by (unfold mid; lia). unfold mid. rewrite Nat.sub_diag. reflexivity.
  Qed.

  (* chronological trace of one _squash_if_needed over a layer whose states satisfy S: nothing, or one
     merge of states of the layer followed by relax calls whose dst is a state of the layer; [mgs] is
     the list of merge results (zero or one) *)
  Definition squash_sem (S : St -> Prop) (evs : list (event St)) (mgs : list St) : Prop :=
    (evs = [] /\ mgs = []) \/
    exists ms mg rel, evs = EvMerge ms mg :: rel /\ mgs = [mg] /\ (forall s, In s ms -> S s) /\
      Forall (fun ev => exists src dst d c rc, ev = EvRelax src dst mg d c rc /\ S dst) rel.

  Lemma squash_sem_weaken (S S' : St -> Prop) evs mgs :
    (forall s, S s -> S' s) -> squash_sem S evs mgs -> squash_sem S' evs mgs.
  Proof.
    intros HS [H|[ms [mg [rel [E [Em [Hm F]]]]]]]; [left; exact H|right].
    exists ms, mg, rel. repeat split; auto.
    eapply Forall_impl; [|exact F]. intros ev [src [dst [d [c [rc [-> Hd]]]]]].
    do 5 eexists. split; [reflexivity|auto].
  Qed.

  Definition states_of (m : mddT) (l : list nat) (s : St) : Prop := exists id, In id l /\ s = state_of m id.

  Lemma squash_layer m l m' l' :
    wf inp m -> ids_ok (length (m_nodes m)) l -> NoDup l ->
    squash_if_needed st_eqb inp m l = (m', l') ->
    exists ks mgs, m_log m' = ks ++ m_log m /\ squash_sem (states_of m l) (rev ks) mgs /\
      forall id, In id l' -> In id l \/ In (state_of m' id) mgs.
  Proof.
    intros W Hl Hnd H.
    assert (Hnone : m_log m' = m_log m -> incl l' l ->
      exists ks mgs, m_log m' = ks ++ m_log m /\ squash_sem (states_of m l) (rev ks) mgs /\
        forall id, In id l' -> In id l \/ In (state_of m' id) mgs).
    { intros E I. exists [], []. split; [exact E|]. split; [left; auto|]. intros id Hid. left. apply I. exact Hid. }
    pose proof H as H0.
    unfold squash_if_needed in H. destruct (ci_type inp) eqn:Ht.
    - inversion H; subst. apply Hnone; [reflexivity|apply incl_refl].
    - destruct (ci_width inp <? length l) eqn:Hlt; simpl in H;
        [|inversion H; subst; apply Hnone; [reflexivity|apply incl_refl]].
      destruct (1 <? length (m_layers m)) eqn:Hlay;
        [|inversion H; subst; apply Hnone; [reflexivity|apply incl_refl]].
      destruct (Nat.eq_dec (ci_width inp) 0) as [Hw0|Hw0].
      + unfold relax_layer in H. rewrite Hw0 in H. inversion H; subst.
        apply Hnone; [simpl; apply note_squash_log|apply incl_refl].
      + assert (Hw1 : 1 <= ci_width inp) by lia.
        destruct (relax_layer_protocol st_eqb inp m l m' l' Hw1 W Hl Hnd H) as [evs [E P]].
        pose proof (relax_layer_out m l m' l' Hw1 H) as Hout.
        set (mstates := merged_states inp m l) in *.
        set (merged := merge rlx mstates) in *.
        exists (evs ++ [EvMerge mstates merged]), [merged].
        split; [rewrite E, <- app_assoc; reflexivity|]. split.
        * right. exists mstates, merged, (rev evs). rewrite rev_app_distr. split; [reflexivity|].
          split; [reflexivity|]. split.
          -- intros s Hs. unfold mstates, merged_states in Hs. apply in_map_iff in Hs.
             destruct Hs as [id [<- Hid]]. exists id. split; [|reflexivity].
             apply (merged_ids_incl inp m l). exact Hid.
          -- apply Forall_rev. apply Forall_forall. intros ev Hev.
             destruct (P ev Hev) as [did [eid [Hd [_ [_ Hrest]]]]]. cbv zeta in Hrest.
             destruct Hrest as [Hto [_ [_ ->]]].
             do 5 eexists. split; [reflexivity|]. exists did. split; [|rewrite Hto; reflexivity].
             apply (merged_ids_incl inp m l). exact Hd.
        * intros id Hid. destruct (Hout id Hid) as [A|A]; [left; exact A|right; left; symmetry; exact A].
    - destruct (ci_width inp <? length l); [|inversion H; subst; apply Hnone; [reflexivity|apply incl_refl]].
      apply Hnone; [eapply restrict_layer_log; eauto|].
      unfold restrict_layer in H. inversion H; subst.
      eapply incl_tran; [apply (proj1 (sub_firstn _ _))|apply (proj1 (sub_sort_by _ _))].
  Qed.

  (* ---------------------------------------------------------------- the three stages of _move_to_next_layer *)
  Lemma stages_layer m curr m1 l1 m2 l2 m3 l3 :
    prefilter st_eqb inp m curr = (m1, l1) -> filter_with_dominance inp m1 l1 = (m2, l2) ->
    squash_if_needed st_eqb inp m2 l2 = (m3, l3) ->
    wf inp m -> ids_ok (length (m_nodes m)) curr -> NoDup curr ->
    exists kf ks mgs, m_log m3 = ks ++ kf ++ m_log m /\
      Forall (kind_in neutral_kinds) kf /\ squash_sem (states_of m curr) (rev ks) mgs /\
      forall id, In id l3 -> states_of m curr (state_of m3 id) \/ In (state_of m3 id) mgs.
  Proof.
    intros H1 H2 H3 W Hc Hnd.
    pose proof (ext_prefilter _ _ _ _ _ _ H1) as E1.
    pose proof (ext_filter_with_dominance _ _ _ _ _ H2) as E2.
    pose proof (ext_squash_if_needed _ _ _ _ _ _ H3) as E3.
    assert (E12 : ext inp m m2) by (eapply ext_trans; eauto).
    assert (E13 : ext inp m m3) by (eapply ext_trans; eauto).
    destruct (wf_prefilter _ _ _ _ _ _ H1 W) as [W1 S1].
    destruct (wf_filter_with_dominance _ _ _ _ _ H2 W1) as [W2 S2].
    assert (S12 : sub l2 curr) by (eapply sub_trans; eauto).
    assert (Hn : length (m_nodes m) <= length (m_nodes m2)) by apply (ext_nodes _ _ _ E12).
    destruct (squash_layer m2 l2 m3 l3 W2) as [ks [mgs [E3l [C3 O3]]]]; auto.
    { eapply ids_ok_mono; [exact Hn|]. eapply ids_ok_incl; [apply S12|exact Hc]. }
    { apply S12; exact Hnd. }
    assert (L1 : logext (kind_in [KCacheGet]) m m1).
    { unfold prefilter in H1. destruct (_ <? _); [eapply logext_filter_with_cache; eauto|].
      inversion H1; subst; apply logext_refl. }
    destruct L1 as [kc [Ec Fc]].
    destruct (logext_filter_with_dominance _ _ _ _ _ H2) as [kd [Ed Fd]].
    exists (kd ++ kc), ks, mgs. split; [rewrite E3l, Ed, Ec, <- app_assoc; reflexivity|].
    split; [|split].
    - apply Forall_app. split.
      + eapply Forall_impl; [|exact Fd]. intros ev. apply kind_in_incl.
        unfold neutral_kinds. intros x Hx; simpl in *; intuition.
      + eapply Forall_impl; [|exact Fc]. intros ev. apply kind_in_incl.
        unfold neutral_kinds. intros x Hx; simpl in *; intuition.
    - eapply squash_sem_weaken; [|exact C3].
      intros s [id [Hid ->]]. exists id. split; [apply (proj1 S12); exact Hid|].
      apply (ext_state _ _ _ E12). eapply ids_ok_In; [exact Hc|]. apply (proj1 S12). exact Hid.
    - intros id Hid. destruct (O3 id Hid) as [A|A]; [left|right; exact A].
      exists id. split; [apply (proj1 S12); exact A|].
      apply (ext_state _ _ _ E13). eapply ids_ok_In; [exact Hc|]. apply (proj1 S12). exact A.
  Qed.

  Lemma pooled_start_state m var id : state_of (pooled_start inp m var) id = state_of m id.
  Proof.
    unfold pooled_start.
    match goal with |- n_state (get_node inp (with_next ?a ?b) id) = _ =>
      change (n_state (get_node inp a id) = state_of m id) end.
    apply (fold_left_inv (fun a : mddT => state_of a id = state_of m id)); [|reflexivity].
    intros a x _ Ha. rewrite <- Ha. apply (get_node_upd_node_proj inp (@n_state St)). reflexivity.
  Qed.

  Lemma loop_move_layer m var m' ol :
    loop_move st_eqb inp m var = (m', ol) -> wf inp m ->
    exists kf ks mgs, m_log m' = ks ++ kf ++ m_log m /\
      Forall (kind_in neutral_kinds) kf /\ squash_sem (states_of m (m_next m)) (rev ks) mgs /\
      forall l, ol = Some l -> forall id, In id l ->
        states_of m (m_next m) (state_of m' id) \/ In (state_of m' id) mgs.
  Proof.
    intros H W.
    assert (Hnone : m_log m' = m_log m -> ol = None ->
      exists kf ks mgs, m_log m' = ks ++ kf ++ m_log m /\
      Forall (kind_in neutral_kinds) kf /\ squash_sem (states_of m (m_next m)) (rev ks) mgs /\
      forall l, ol = Some l -> forall id, In id l ->
        states_of m (m_next m) (state_of m' id) \/ In (state_of m' id) mgs).
    { intros E ->. exists [], [], []. split; [exact E|]. split; [constructor|]. split; [left; auto|].
      intros l Hl; discriminate. }
    unfold loop_move in H. destruct (is_pooled flv).
    - destruct (m_next m) as [|x nx] eqn:Hn; [inversion H; subst; auto|]. rewrite <- Hn. clear Hn.
      rewrite move_pooled_unfold in H. cbv zeta in H.
      destruct (pooled_start_wf inp m var W) as [W0 L0].
      destruct (prefilter _ _ _ _) as [m1 l1] eqn:H1.
      destruct (filter_with_dominance _ _ _) as [m2 l2] eqn:H2.
      destruct (squash_if_needed _ _ _ _) as [m3 l3] eqn:H3.
      apply pair_eq_inv in H. destruct H as [Hm' <-].
      destruct (stages_layer _ _ _ _ _ _ _ _ H1 H2 H3 W0) as [kf [ks [mgs [E [F [C O]]]]]].
      { rewrite L0. unfold pooled_curr. eapply ids_ok_incl; [apply sub_filter|apply (wf_next _ _ W)]. }
      { unfold pooled_curr. apply NoDup_filter. apply (wf_next_nodup _ _ W). }
      rewrite pooled_start_log in E.
      assert (HS : forall s, states_of (pooled_start inp m var) (pooled_curr inp m var) s -> states_of m (m_next m) s).
      { intros s [id [Hid ->]]. exists id. split; [|apply pooled_start_state].
        unfold pooled_curr in Hid. apply filter_In in Hid. tauto. }
      assert (Hst : forall id, state_of m' id = state_of m3 id /\ m_log m' = m_log m3).
      { intros id. rewrite <- Hm'.
        match goal with |- context [match ?c with [] => _ | _ => _ end] => destruct c end;
          split; reflexivity. }
      exists kf, ks, mgs. split; [rewrite (proj2 (Hst 0)); exact E|]. split; [exact F|].
      split; [eapply squash_sem_weaken; [exact HS|exact C]|].
      intros l Hl id Hid. inversion Hl; subst l. rewrite (proj1 (Hst id)).
      destruct (O id Hid) as [A|A]; [left; apply HS; exact A|right; exact A].
    - rewrite move_clean_unfold in H.
      assert (W0 : wf inp (with_next m [])) by (apply wf_with_next; [exact W|constructor|constructor]).
      destruct (m_next m) as [|x nx] eqn:Hn; [inversion H; subst; auto|].
      rewrite <- Hn in *. clear Hn.
      destruct (prefilter _ _ _ _) as [m1 l1] eqn:H1.
      destruct (filter_with_dominance _ _ _) as [m2 l2] eqn:H2.
      destruct (squash_if_needed _ _ _ _) as [m3 l3] eqn:H3.
      apply pair_eq_inv in H. destruct H as [<- <-].
      destruct (stages_layer _ _ _ _ _ _ _ _ H1 H2 H3 W0) as [kf [ks [mgs [E [F [C O]]]]]].
      { simpl. apply (wf_next _ _ W). }
      { apply (wf_next_nodup _ _ W). }
      exists kf, ks, mgs. split; [exact E|]. split; [exact F|]. split; [exact C|].
      intros l Hl id Hid. inversion Hl; subst l. apply (O id Hid).
  Qed.

  (* the squash trace is accepted by the checker and records the merge result *)
  Lemma layer_squash st evs mgs :
    squash_sem (avail st) evs mgs ->
    layer_ok st evs /\ layer_run st evs = {| ls_nv := ls_nv st; ls_merged := mgs ++ ls_merged st |}.
  Proof.
    intros [[-> ->]|[ms [mg [rel [-> [-> [Hm F]]]]]]].
    - simpl. split; [auto|]. destruct st; reflexivity.
    - simpl. set (st1 := {| ls_nv := ls_nv st; ls_merged := mg :: ls_merged st |}).
      assert (Hmono : forall s, avail st s -> avail st1 s).
      { intros s [A|A]; [left; exact A|right; right; exact A]. }
      assert (G : layer_ok st1 rel /\ layer_run st1 rel = st1).
      { induction F as [|x rel [src [dst [d [c [rc [-> Hd]]]]]] _ IH]; simpl; [auto|].
        destruct IH as [A B]. split; [|exact B]. split; [|exact A]. apply Hmono. exact Hd. }
      destruct G as [A B]. split; [split; [exact Hm|exact A]|]. unfold layer_run in *. simpl. exact B.
  Qed.

  (* ---------------------------------------------------------------- the layer loop *)
  Theorem layer_loop_layer_states : forall fuel m m' e,
    layer_loop st_eqb inp fuel m = (m', e) -> wf inp m ->
    exists k, m_log m' = k ++ m_log m /\ forall st, layer_ok st (rev k).
  Proof.
    induction fuel as [|fuel IH]; intros m m' e H W.
    - simpl in H. inversion H; subst. exists []. split; [reflexivity|]. simpl. auto.
    - rewrite layer_loop_iteration in H. cbv zeta in H.
      set (sts := map (fun id => state_of m id) (m_next m)) in *.
      destruct (next_variable pb (m_curr_depth m) sts) as [var|] eqn:Hov.
      2:{ inversion H; subst. exists [EvNextVar (m_curr_depth m) sts None].
          split; [reflexivity|]. simpl. auto. }
      set (m0 := add_log m (EvNextVar (m_curr_depth m) sts (Some var))) in *.
      set (m1 := with_polls m0 (S (m_polls m0))) in *.
      assert (W1 : wf inp m1) by (apply wf_with_polls, wf_add_log, W).
      destruct (_ && _).
      { inversion H; subst. exists [EvNextVar (m_curr_depth m) sts (Some var)].
        split; [reflexivity|]. simpl. auto. }
      destruct (loop_move st_eqb inp m1 var) as [m2 ol] eqn:Hmv.
      destruct (wf_loop_move _ _ _ _ _ _ Hmv W1) as [W2 Hl].
      destruct (loop_move_layer _ _ _ _ Hmv W1) as [kf [ks [mgs [E2 [Ff [Cs Ho]]]]]].
      change (m_log m1) with (EvNextVar (m_curr_depth m) sts (Some var) :: m_log m) in E2.
      set (st1 := {| ls_nv := sts; ls_merged := [] |}).
      assert (HS : forall s, states_of m1 (m_next m1) s -> In s sts).
      { intros s [id [Hid ->]]. unfold sts. apply in_map_iff. exists id. split; [reflexivity|exact Hid]. }
      set (st2 := {| ls_nv := sts; ls_merged := mgs |}).
      assert (Pmove : layer_ok st1 (rev kf ++ rev ks) /\ layer_run st1 (rev kf ++ rev ks) = st2).
      { destruct (layer_neutral (rev kf) (Forall_rev Ff) st1) as [A1 B1].
        destruct (layer_squash st1 (rev ks) mgs) as [A2 B2].
        { eapply squash_sem_weaken; [|exact Cs]. intros s Hs. left. apply HS. exact Hs. }
        rewrite layer_ok_app, layer_run_app, B1. split; [auto|].
        rewrite B2. simpl. rewrite app_nil_r. reflexivity. }
      destruct Pmove as [Pm Rm].
      destruct ol as [l|].
      2:{ inversion H; subst. exists (ks ++ kf ++ [EvNextVar (m_curr_depth m) sts (Some var)]).
          split; [rewrite E2, <- !app_assoc; reflexivity|].
          intros st. rewrite !rev_app_distr. simpl rev at 1. rewrite <- !app_assoc. simpl.
          split; [auto|]. exact Pm. }
      destruct (Hl l eq_refl) as [Il Nl].
      destruct (logext_fold_expand_src (avail st2) var l m2 W2 Il) as [k3 [E3 F3]].
      { intros id Hid. destruct (Ho l eq_refl id Hid) as [A|A]; [left; apply HS; exact A|right; exact A]. }
      apply IH in H.
      2:{ apply wf_with_depth. apply wf_fold_expand; auto. }
      destruct H as [k [E Hk]]. simpl m_log in E.
      exists (k ++ k3 ++ ks ++ kf ++ [EvNextVar (m_curr_depth m) sts (Some var)]). split.
      + rewrite E, E3, E2, <- !app_assoc. reflexivity.
      + intros st. rewrite !rev_app_distr. simpl rev at 1. rewrite <- !app_assoc. simpl.
        split; [auto|]. fold st1.
        rewrite (app_assoc (rev kf)). rewrite layer_ok_app. split; [exact Pm|]. rewrite Rm.
        destruct (layer_expand st2 (rev k3) (Forall_rev F3)) as [A3 B3].
        rewrite layer_ok_app, B3. split; [exact A3|apply Hk].
  Qed.

  (* C12, "only for states of that layer", for a whole compilation, whatever its flavour, its type and
     its outcome, from every initial checker state *)
  Theorem compile_layer_states tb tb2 c ds polls m o :
    compile st_eqb inp tb tb2 c ds polls = (m, o) ->
    forall st0, layer_ok st0 (rev (m_log m)).
  Proof.
    unfold compile. destruct (layer_loop _ _ _ _) as [m1 e] eqn:Hl.
    apply layer_loop_layer_states in Hl; [|apply wf_initialize]. destruct Hl as [k [E Hk]].
    rewrite initialize_log, app_nil_r in E. rewrite <- E in Hk.
    destruct e; intros H; inversion H; subst; auto.
    intros st. destruct (logext_finalize st_eqb inp tb tb2 m1) as [kf [Ef Ff]].
    rewrite Ef, rev_app_distr, layer_ok_app. split; [apply Hk|].
    apply layer_neutral. apply Forall_rev. eapply Forall_impl; [|exact Ff].
    intros ev. apply kind_in_incl. unfold neutral_kinds. intros x Hx; simpl in *; intuition.
  Qed.

  (* from the empty state: before the first next_variable call only cache / dominance traffic passes *)
  Corollary compile_layer_states_init tb tb2 c ds polls m o :
    compile st_eqb inp tb tb2 c ds polls = (m, o) -> layer_ok ls_init (rev (m_log m)).
  Proof. intros H. apply (compile_layer_states _ _ _ _ _ _ _ H). Qed.

  (* the chronological log of a compilation starts with a next_variable call: under [ls_init] the
     checker therefore never relies on its initial content *)
  Theorem compile_log_head tb tb2 c ds polls m o :
    compile st_eqb inp tb tb2 c ds polls = (m, o) ->
    exists d sts ov r, rev (m_log m) = EvNextVar d sts ov :: r.
  Proof.
    unfold compile. destruct (layer_loop _ _ _ _) as [m1 e] eqn:Hl.
    apply layer_loop_first_call in Hl. cbv zeta in Hl. destruct Hl as [k Hk].
    rewrite initialize_log in Hk.
    assert (G : exists d sts ov r, rev (m_log m1) = EvNextVar d sts ov :: r).
    { rewrite Hk, rev_app_distr. simpl. do 4 eexists. reflexivity. }
    destruct e; intros H; inversion H; subst; auto.
    destruct G as [d [sts [ov [r G]]]].
    destruct (logext_finalize st_eqb inp tb tb2 m1) as [kf [Ef _]].
    rewrite Ef, rev_app_distr, G. simpl. do 4 eexists. reflexivity.
  Qed.

  (* ================================================================ (B) C13, relaxed compilations *)
  Lemma filter_all_true {A} (f : A -> bool) l : (forall x, f x = true) -> filter f l = l.
  Proof. intros H. induction l as [|x l IH]; simpl; [reflexivity|]. rewrite H, IH. reflexivity. Qed.

  (* when every state is impacted by every variable the pooled _move_to_next_layer takes the whole
     (non-empty) pool and records exactly one layer *)
  Lemma move_pooled_layers_all_impacted m var m' ol :
    (forall x s, is_impacted_by pb x s = true) -> m_next m <> [] ->
    move_to_next_layer_pooled st_eqb inp m var = (m', ol) ->
    length (m_layers m') = S (length (m_layers m)).
  Proof.
    intros Himp Hne. rewrite move_pooled_unfold. cbv zeta.
    destruct (prefilter _ _ _ _) as [m1 l1] eqn:H1.
    destruct (filter_with_dominance _ _ _) as [m2 l2] eqn:H2.
    destruct (squash_if_needed _ _ _ _) as [m3 l3] eqn:H3.
    intros H. apply pair_eq_inv in H. destruct H as [<- _].
    destruct (stages_layers _ _ _ _ _ _ _ _ _ _ H1 H2 H3) as [_ [E _]].
    pose proof (ext_layers _ _ _ E) as EL. rewrite pooled_start_layers in EL.
    assert (Hc : pooled_curr inp m var = m_next m).
    { unfold pooled_curr. apply filter_all_true. intros id. apply Himp. }
    rewrite Hc.
    destruct (m_next m) as [|x nx]; [congruence|].
    destruct (_ <? _); simpl; rewrite app_length, EL; simpl; lia.
  Qed.

  (* the width bound of a relaxed compilation, for any flavour that records one layer per iteration *)
  Theorem layer_loop_width_relaxed_gen :
    ci_type inp = Relaxed -> 1 <= ci_width inp ->
    (forall m var m' l, loop_move st_eqb inp m var = (m', Some l) ->
                        length (m_layers m') = S (length (m_layers m))) ->
    forall fuel m m' e,
    layer_loop st_eqb inp fuel m = (m', e) ->
    exists k, m_log m' = k ++ m_log m /\
      forall skip c, pred skip = 2 - length (m_layers m) -> (skip = 0 -> c <= ci_width inp) ->
                     width_ok_after skip (ci_width inp) c (rev k).
  Proof.
    intros Ht Hw Hgrow. induction fuel as [|fuel IH]; intros m m' e H.
    - simpl in H. inversion H; subst. exists []. split; [reflexivity|]. simpl.
      intros skip c _ Hc. destruct skip; [right; auto|left; lia].
    - assert (Hfirst : forall skip c, (skip = 0 -> c <= ci_width inp) -> 0 < skip \/ c <= ci_width inp).
      { intros skip c Hc. destruct skip; [right; auto|left; lia]. }
      rewrite layer_loop_iteration in H. cbv zeta in H.
      set (sts := map (fun id => state_of m id) (m_next m)) in *.
      destruct (next_variable pb (m_curr_depth m) sts) as [var|].
      2:{ inversion H; subst. exists [EvNextVar (m_curr_depth m) sts None].
          split; [reflexivity|]. simpl. intros skip c _ Hc. split; [auto|].
          destruct (pred skip); [right; lia|left; lia]. }
      set (m0 := add_log m (EvNextVar (m_curr_depth m) sts (Some var))) in *.
      set (m1 := with_polls m0 (S (m_polls m0))) in *.
      destruct (_ && _).
      { inversion H; subst. exists [EvNextVar (m_curr_depth m) sts (Some var)].
        split; [reflexivity|]. simpl. intros skip c _ Hc. split; [auto|].
        destruct (pred skip); [right; lia|left; lia]. }
      destruct (loop_move st_eqb inp m1 var) as [m2 ol] eqn:Hmv.
      pose proof (loop_move_log_depth _ _ _ _ _ _ Hmv) as [[k2 [E2 F2]] _].
      change (m_log m1) with (EvNextVar (m_curr_depth m) sts (Some var) :: m_log m) in E2.
      assert (N2 : ~ In KNextVar stage_kinds) by (simpl; intuition discriminate).
      assert (D2 : ~ In KDomain stage_kinds) by (simpl; intuition discriminate).
      destruct ol as [l|].
      2:{ inversion H; subst. exists (k2 ++ [EvNextVar (m_curr_depth m) sts (Some var)]).
          split; [rewrite E2, <- app_assoc; reflexivity|].
          intros skip c _ Hc. rewrite rev_app_distr. simpl. split; [auto|].
          rewrite <- (app_nil_r (rev k2)).
          rewrite (width_ok_after_app st_eqb _ _ _ (not_nextvar_of_kinds _ _ N2 F2)).
          rewrite domain_count_rev, (domain_count_kinds _ _ D2 F2). simpl.
          destruct (pred skip); [right; lia|left; lia]. }
      assert (Hlay : length (m_layers m2) = S (length (m_layers m))).
      { apply Hgrow in Hmv. exact Hmv. }
      destruct (fold_expand_domain_count st_eqb inp var l m2) as [k3 [E3 [F3 C3]]].
      assert (N3 : ~ In KNextVar expand_kinds) by (simpl; intuition discriminate).
      apply IH in H. destruct H as [k [E Hk]]. simpl m_log in E.
      simpl m_layers in Hk. rewrite (ext_layers _ _ _ (ext_fold_expand st_eqb inp var l m2)), Hlay in Hk.
      exists (k ++ k3 ++ k2 ++ [EvNextVar (m_curr_depth m) sts (Some var)]). split.
      + rewrite E, E3, E2, <- !app_assoc. reflexivity.
      + intros skip c Hs Hc. rewrite !rev_app_distr. simpl rev at 1. rewrite <- !app_assoc. simpl.
        split; [auto|].
        rewrite (width_ok_after_app st_eqb _ _ _ (not_nextvar_of_kinds _ _ N2 F2)).
        rewrite domain_count_rev, (domain_count_kinds _ _ D2 F2).
        rewrite (width_ok_after_app st_eqb _ _ _ (not_nextvar_of_kinds _ _ N3 F3)).
        rewrite domain_count_rev. apply Hk; [lia|].
        intros Hz. simpl.
        assert (Hw1 : enforces_width inp m1).
        { right. repeat split; auto. change (m_layers m1) with (m_layers m). lia. }
        destruct (loop_move_width _ _ _ _ _ _ Hmv Hw1) as [Hlen _]. lia.
  Qed.

  Lemma width_ok_after_tail W a b : forall s c0,
    Forall (fun ev : event St => kind_of ev <> KNextVar /\ kind_of ev <> KDomain) b ->
    width_ok_after s W c0 a -> width_ok_after s W c0 (a ++ b).
  Proof.
    induction a as [|x a IH]; simpl; intros s c0 Fb Ha.
    - induction Fb as [|y b [Hy1 Hy2] _ IHb]; simpl; auto. destruct y; simpl in *; auto; congruence.
    - destruct x; simpl in *; auto. destruct Ha; split; auto.
  Qed.

  Theorem compile_width_relaxed_gen tb tb2 c ds polls m o :
    ci_type inp = Relaxed -> 1 <= ci_width inp ->
    (forall m var m' l, loop_move st_eqb inp m var = (m', Some l) ->
                        length (m_layers m') = S (length (m_layers m))) ->
    compile st_eqb inp tb tb2 c ds polls = (m, o) ->
    width_ok_after 3 (ci_width inp) 0 (rev (m_log m)).
  Proof.
    intros Ht Hw Hgrow. unfold compile. destruct (layer_loop _ _ _ _) as [m1 e] eqn:Hl.
    apply (layer_loop_width_relaxed_gen Ht Hw Hgrow) in Hl. destruct Hl as [k [E Hk]].
    rewrite initialize_log, app_nil_r in E.
    assert (G : width_ok_after 3 (ci_width inp) 0 (rev (m_log m1))).
    { rewrite E. apply Hk; [reflexivity|discriminate]. }
    destruct e; intros H; inversion H; subst; auto.
    destruct (logext_finalize st_eqb inp tb tb2 m1) as [kf [Ef Ff]].
    rewrite Ef, rev_app_distr.
    apply width_ok_after_tail; [|exact G]. apply Forall_rev. eapply Forall_impl; [|exact Ff].
    intros ev [Hk1|[]]. rewrite <- Hk1. split; discriminate.
  Qed.

  (* C13, pooled flavour: when every state is impacted by every variable, no layer other than the
     root layer and the first layer below it has more than max_width states expanded *)
  Theorem compile_width_relaxed_pooled tb tb2 c ds polls m o :
    ci_flavour inp = Pooled -> ci_type inp = Relaxed -> 1 <= ci_width inp ->
    (forall x s, is_impacted_by (ci_problem inp) x s = true) ->
    compile st_eqb inp tb tb2 c ds polls = (m, o) ->
    width_ok_after 3 (ci_width inp) 0 (rev (m_log m)).
  Proof.
    intros Hf Ht Hw Himp. apply compile_width_relaxed_gen; auto.
    intros a var a' l Hmv. unfold loop_move in Hmv. rewrite Hf in Hmv. simpl in Hmv.
    destruct (m_next a) as [|x nx] eqn:Hn; [discriminate|].
    eapply move_pooled_layers_all_impacted; [exact Himp| |exact Hmv]. rewrite Hn. discriminate.
  Qed.

End LayerStates.

Arguments ls_init {St}.

(* ------------------------------------------------------------------ boolean form of width_ok_after
   (used to REFUTE a bound on a concrete log by computation) *)
Section WidthBool.
  Context {St : Type}.
  Fixpoint width_okb_after (skip W cnt : nat) (evs : list (event St)) : bool :=
    match evs with
    | [] => (0 <? skip) || (cnt <=? W)
    | EvNextVar _ _ _ :: r => ((0 <? skip) || (cnt <=? W)) && width_okb_after (pred skip) W 0 r
    | EvDomain _ _ :: r => width_okb_after skip W (S cnt) r
    | _ :: r => width_okb_after skip W cnt r
    end.

  Lemma width_okb_after_spec W evs : forall skip cnt,
    width_okb_after skip W cnt evs = true <-> width_ok_after skip W cnt evs.
  Proof.
    induction evs as [|x evs IH]; intros skip cnt; simpl.
    - rewrite orb_true_iff, Nat.ltb_lt, Nat.leb_le. tauto.
    - destruct x; try apply IH.
      rewrite andb_true_iff, orb_true_iff, Nat.ltb_lt, Nat.leb_le, IH. tauto.
  Qed.
End WidthBool.

(* ================================================================== non-vacuity *)
Open Scope Z_scope.

(* ---- (A) on ex_ti (TableWf): relaxed compilations of width 1, the three flavours.  The chronological
   log is (CleanLEL; the other two differ only in the cache updates of _finalize)
     NV 0 [[0]] ; Domain 0 [0] ; ... ; NV 1 [[0];[1]] ; Domain 1 [1] ; ... ; Domain 1 [0] ; ... ;
     NV 2 [[1];[2];[0]] ; Merge [[1];[2];[0]] [0;1;2] ; Relax _ [1] .. ; Relax _ [2] .. ; Relax _ [2] .. ;
     Relax _ [0] .. ; Domain 2 [0;1;2] ; Transition [0;1;2] .. ; ... ; NV 3 [[0;1;2];[2]] None ; CacheUpd ..
   i.e. the domain of x2 is enumerated on the merged state [0;1;2], which next_variable never saw. *)
Definition ex_root : @subproblem tstate :=
  {| sp_state := [0]; sp_value := 0; sp_path := []; sp_ub := IMAX; sp_depth := 0%nat |}.
Definition ex_inp (f : flavour) (ct : comptype) (w : nat) : @cinput tstate :=
  tb_input ex_ti f ct w IMIN false false 0 ex_root.
Definition ex_log (f : flavour) (ct : comptype) (w : nat) : list (event tstate) :=
  rev (m_log (fst (tb_compile (ex_inp f ct w) 0 0 (tb_cache_init ex_ti) (tb_dom_init ex_ti) 0))).

(* the log has a merge whose result is later the source of a domain enumeration, of a transition and of
   a cost call, and a relax call towards that merge result *)
Fixpoint merged_then_used (evs : list (event tstate)) : bool :=
  match evs with
  | [] => false
  | EvMerge _ mg :: r =>
      (existsb (fun ev => match ev with EvDomain _ s => tstate_eqb s mg | _ => false end) r &&
       existsb (fun ev => match ev with EvTransition s _ _ => tstate_eqb s mg | _ => false end) r &&
       existsb (fun ev => match ev with EvCost s _ _ _ => tstate_eqb s mg | _ => false end) r &&
       existsb (fun ev => match ev with EvRelax _ _ m _ _ _ => tstate_eqb m mg | _ => false end) r)
      || merged_then_used r
  | _ :: r => merged_then_used r
  end.
(* ... and that merge result was not among the states handed to the preceding next_variable call *)
Fixpoint merged_unseen (nv : list tstate) (evs : list (event tstate)) : bool :=
  match evs with
  | [] => false
  | EvNextVar _ sts _ :: r => merged_unseen sts r
  | EvMerge _ mg :: r => negb (existsb (tstate_eqb mg) nv) || merged_unseen nv r
  | _ :: r => merged_unseen nv r
  end.

Example ex_layer_states : forall f, In f [CleanLEL; CleanFC; Pooled] ->
  layer_ok ls_init (ex_log f Relaxed 1) /\
  merged_then_used (ex_log f Relaxed 1) = true /\ merged_unseen [] (ex_log f Relaxed 1) = true.
Proof.
  intros f Hf. split.
  - unfold ex_log, tb_compile.
    destruct (compile tstate_eqb (ex_inp f Relaxed 1) 0 0 (tb_cache_init ex_ti) (tb_dom_init ex_ti) 0)
      as [m o] eqn:H.
    change (fst (m, o)) with m. exact (compile_layer_states_init tstate_eqb _ _ _ _ _ _ _ _ H).
  - assert (G : forallb (fun f => merged_then_used (ex_log f Relaxed 1) && merged_unseen [] (ex_log f Relaxed 1))
                  [CleanLEL; CleanFC; Pooled] = true) by (vm_compute; reflexivity).
    rewrite forallb_forall in G. specialize (G f Hf). apply andb_true_iff in G. exact G.
Qed.

(* exact and restricted compilations too (no merge there; restricted: width 1 truncates the layers) *)
Example ex_layer_states_other : forall f ct, In f [CleanLEL; CleanFC; Pooled] -> In ct [Exact; Restricted] ->
  layer_ok ls_init (ex_log f ct 1) /\ (10 <= length (ex_log f ct 1))%nat.
Proof.
  intros f ct Hf Hct. split.
  - unfold ex_log, tb_compile.
    destruct (compile tstate_eqb (ex_inp f ct 1) 0 0 (tb_cache_init ex_ti) (tb_dom_init ex_ti) 0)
      as [m o] eqn:H.
    change (fst (m, o)) with m. exact (compile_layer_states_init tstate_eqb _ _ _ _ _ _ _ _ H).
  - assert (G : forallb (fun f => forallb (fun ct => 10 <=? length (ex_log f ct 1))%nat [Exact; Restricted])
                  [CleanLEL; CleanFC; Pooled] = true) by (vm_compute; reflexivity).
    rewrite forallb_forall in G. specialize (G f Hf). rewrite forallb_forall in G. specialize (G ct Hct).
    apply Nat.leb_le. exact G.
Qed.

(* the checker is not trivially true: a domain enumerated on a state that is neither in the layer
   shown to next_variable nor a merge result is rejected; so is a merge before any next_variable *)
Example layer_ok_rejects_foreign_state :
  ~ layer_ok ls_init [EvNextVar 0 [[0]] (Some 0%nat); EvDomain 0 [1]].
Proof. simpl. intros [_ [[[H|[]]|[]] _]]. discriminate H. Qed.
Example layer_ok_rejects_early_call :
  ~ layer_ok ls_init [EvCacheGet [0] 0; EvDomain 0 [0]; EvNextVar 0 [[0]] (Some 0%nat)].
Proof. simpl. intros [_ [[[]|[]] _]]. Qed.
Example layer_ok_accepts_merged_state :
  layer_ok ls_init [EvNextVar 0 [[0]; [1]] (Some 0%nat); EvMerge [[0]; [1]] [0; 1];
                    EvRelax [0] [1] [0; 1] {| d_var := 0; d_val := 1 |} 0 0; EvDomain 0 [0; 1]].
Proof. simpl. unfold avail. simpl. intuition (subst; auto). Qed.

(* ---- (B) a model in which every state is impacted by every variable (the table family cannot be used
   for the universally quantified premise: the empty set of base states is impacted by nothing).
   Binary counter: state s, decision b in {0,1}, s' = 2 s + b, cost b; layers have 1, 2, 4, 8 states.
   merge = maximum, relax = identity. *)
Definition kp_pb : problem Z := {|
  nb_vars := 3; init_state := 0; init_value := 0;
  transition := fun s d => 2 * s + d_val d;
  transition_cost := fun _ _ d => d_val d;
  next_variable := fun depth _ => if Nat.ltb depth 3 then Some depth else None;
  domain := fun _ _ => [0; 1];
  is_impacted_by := fun _ _ => true |}.
Definition kp_rlx : relaxation Z := {|
  merge := fun l => fold_right Z.max 0 l;
  relax := fun _ _ _ _ c => c;
  fast_upper_bound := fun _ => 10 |}.
Definition kp_inp (f : flavour) (ct : comptype) (w : nat) : @cinput Z := {|
  ci_flavour := f; ci_type := ct; ci_problem := kp_pb; ci_relax := kp_rlx;
  ci_ranking := Zcmp; ci_domcmp := fun a va b vb => cmp_then (Zcmp va vb) (Zcmp a b);
  ci_width := w;
  ci_root := {| sp_state := 0; sp_value := 0; sp_path := []; sp_ub := IMAX; sp_depth := 0%nat |};
  ci_best_lb := IMIN; ci_use_cache := false; ci_domrule := None; ci_cutoff := 0%nat |}.
Definition kp_log (f : flavour) (ct : comptype) (w : nat) : list (event Z) :=
  rev (m_log (fst (compile Z.eqb (kp_inp f ct w) 0 0 (init_cache 3) (init_dstore 3) 0))).

(* number of domain enumerations in each segment delimited by next_variable calls *)
Fixpoint seg_counts (cnt : nat) (evs : list (event Z)) : list nat :=
  match evs with
  | [] => [cnt]
  | EvNextVar _ _ _ :: r => cnt :: seg_counts 0 r
  | EvDomain _ _ :: r => seg_counts (S cnt) r
  | _ :: r => seg_counts cnt r
  end.

Example kp_width_pooled :
  width_ok_after 3 1 0 (kp_log Pooled Relaxed 1) /\
  seg_counts 0 (kp_log Pooled Relaxed 1) = [0; 1; 2; 1; 0]%nat /\
  layer_ok ls_init (kp_log Pooled Relaxed 1).
Proof.
  split; [|split].
  - unfold kp_log.
    destruct (compile Z.eqb (kp_inp Pooled Relaxed 1) 0 0 (init_cache 3) (init_dstore 3) 0) as [m o] eqn:H.
    change (fst (m, o)) with m.
    eapply (compile_width_relaxed_pooled Z.eqb (kp_inp Pooled Relaxed 1));
      [reflexivity|reflexivity|apply le_n|intros; reflexivity|exact H].
  - vm_compute. reflexivity.
  - unfold kp_log.
    destruct (compile Z.eqb (kp_inp Pooled Relaxed 1) 0 0 (init_cache 3) (init_dstore 3) 0) as [m o] eqn:H.
    change (fst (m, o)) with m. exact (compile_layer_states_init Z.eqb _ _ _ _ _ _ _ _ H).
Qed.

(* 3 exempted segments cannot be lowered to 2: the first layer below the root is expanded with 2 > 1
   states (no squash while fewer than two layers are recorded); same for the clean flavours *)
Example kp_width_tight : forall f, In f [Pooled; CleanLEL; CleanFC] ->
  ~ width_ok_after 2 1 0 (kp_log f Relaxed 1).
Proof.
  intros f Hf. rewrite <- width_okb_after_spec.
  assert (G : forallb (fun f => negb (width_okb_after 2 1 0 (kp_log f Relaxed 1))) [Pooled; CleanLEL; CleanFC] = true)
    by (vm_compute; reflexivity).
  rewrite forallb_forall in G. specialize (G f Hf). destruct (width_okb_after _ _ _ _); [discriminate G|discriminate].
Qed.

(* wider: width 2, pooled; the third layer (4 states) is squashed to 2 *)
Example kp_width_pooled_2 :
  width_ok_after 3 2 0 (kp_log Pooled Relaxed 2) /\ seg_counts 0 (kp_log Pooled Relaxed 2) = [0; 1; 2; 2; 0]%nat.
Proof.
  split; [|vm_compute; reflexivity].
  unfold kp_log.
  destruct (compile Z.eqb (kp_inp Pooled Relaxed 2) 0 0 (init_cache 3) (init_dstore 3) 0) as [m o] eqn:H.
  change (fst (m, o)) with m.
    eapply (compile_width_relaxed_pooled Z.eqb (kp_inp Pooled Relaxed 2));
      [reflexivity|reflexivity|apply le_S, le_n|intros; reflexivity|exact H].
Qed.

(* the premise "every state is impacted by every variable" cannot be dropped for the pooled flavour:
   a pooled iteration whose variable impacts no pool state records no layer, so the guard
   `layers.len() > 1` of _squash_if_needed stays false one iteration longer than the count of
   next_variable calls suggests.  Same model, but variable 0 impacts nothing (the root is carried over,
   nothing is expanded for it).  Same model with 4 variables where variable 1 impacts nothing: the pooled log
   has segment counts [0; 1; 0; 2; 1; 0], the fourth segment (third next_variable call) expands 2 > 1
   states, so [width_ok_after 3] fails; the clean flavours ignore is_impacted_by: [0; 1; 2; 1; 1; 0]. *)
Definition kp_pb' : problem Z := {|
  nb_vars := 4; init_state := 0; init_value := 0;
  transition := fun s d => 2 * s + d_val d;
  transition_cost := fun _ _ d => d_val d;
  next_variable := fun depth _ => if Nat.ltb depth 4 then Some depth else None;
  domain := fun _ _ => [0; 1];
  is_impacted_by := fun x _ => negb (Nat.eqb x 1) |}.
Definition kp_inp' (f : flavour) (w : nat) : @cinput Z := {|
  ci_flavour := f; ci_type := Relaxed; ci_problem := kp_pb'; ci_relax := kp_rlx;
  ci_ranking := Zcmp; ci_domcmp := fun a va b vb => cmp_then (Zcmp va vb) (Zcmp a b);
  ci_width := w;
  ci_root := {| sp_state := 0; sp_value := 0; sp_path := []; sp_ub := IMAX; sp_depth := 0%nat |};
  ci_best_lb := IMIN; ci_use_cache := false; ci_domrule := None; ci_cutoff := 0%nat |}.
Definition kp_log' (f : flavour) (w : nat) : list (event Z) :=
  rev (m_log (fst (compile Z.eqb (kp_inp' f w) 0 0 (init_cache 4) (init_dstore 4) 0))).

Example kp_premise_needed :
  ~ width_ok_after 3 1 0 (kp_log' Pooled 1) /\ width_ok_after 4 1 0 (kp_log' Pooled 1) /\
  seg_counts 0 (kp_log' Pooled 1) = [0; 1; 0; 2; 1; 0]%nat /\
  width_ok_after 3 1 0 (kp_log' CleanLEL 1) /\ seg_counts 0 (kp_log' CleanLEL 1) = [0; 1; 2; 1; 1; 0]%nat.
Proof.
  rewrite <- !width_okb_after_spec.
  assert (G : (negb (width_okb_after 3 1 0 (kp_log' Pooled 1)) && width_okb_after 4 1 0 (kp_log' Pooled 1) &&
               width_okb_after 3 1 0 (kp_log' CleanLEL 1))%bool = true) by (vm_compute; reflexivity).
  apply andb_true_iff in G. destruct G as [G G3]. apply andb_true_iff in G. destruct G as [G1 G2].
  split; [|split; [exact G2|split; [vm_compute; reflexivity|split; [exact G3|vm_compute; reflexivity]]]].
  intros H. rewrite H in G1. discriminate G1.
Qed.

(* ------------------------------------------------------------------ axiom audit *)
Check @layer_ok.
Check @compile_layer_states.
Check @compile_layer_states_init.
Check @compile_log_head.
Check @compile_width_relaxed_gen.
Check @compile_width_relaxed_pooled.
Print Assumptions layer_loop_layer_states.
Print Assumptions compile_layer_states.
Print Assumptions compile_layer_states_init.
Print Assumptions compile_log_head.
Print Assumptions layer_loop_width_relaxed_gen.
Print Assumptions compile_width_relaxed_gen.
Print Assumptions compile_width_relaxed_pooled.
Print Assumptions ex_layer_states.
Print Assumptions ex_layer_states_other.
Print Assumptions kp_width_pooled.
Print Assumptions kp_width_tight.
Print Assumptions kp_width_pooled_2.
Print Assumptions kp_premise_needed.
