(* MddSim.v — semantic theorems about Mdd.compile (clean flavours): C06, C07, C08 (iii)/(iv).
   Part 1: semantics of feasible runs ([frun]) versus the Bellman value [H]. *)
Require Import DDO.Base DDO.Fringe DDO.DP DDO.Cache DDO.Dom DDO.Mdd DDO.Viz DDO.MddStruct DDO.MddExact.
Local Open Scope Z_scope.

(* ------------------------------------------------------------------ generic list / fold facts *)
Lemma fold_left_hit {A B} (Inv P : A -> Prop) (f : A -> B -> A) (l : list B) (a : A) (x : B) :
  In x l -> Inv a ->
  (forall a y, Inv a -> Inv (f a y)) ->
  (forall a, Inv a -> P (f a x)) ->
  (forall a y, Inv a -> P a -> P (f a y)) ->
  P (fold_left f l a).
Proof.
  intros Hin Ha Hinv Hx Hp.
  assert (G : forall l a, Inv a -> P a -> P (fold_left f l a) /\ Inv (fold_left f l a)).
  { induction l0 as [|y l0 IH]; intros a0 I0 P0; simpl; auto. }
  revert a Ha. induction l as [|y l IH]; intros a Ha; [destruct Hin|].
  simpl. destruct Hin as [->|Hin].
  - apply G; auto.
  - apply IH; auto.
Qed.

Lemma fold_left_inv2 {A B} (Inv : A -> Prop) (f : A -> B -> A) (l : list B) (a : A) :
  Inv a -> (forall a y, Inv a -> Inv (f a y)) -> Inv (fold_left f l a).
Proof. intros Ha H. revert a Ha. induction l; simpl; auto. Qed.

Lemma app_snoc_cases {A} (ds : list A) d ds1 ds2 :
  ds ++ [d] = ds1 ++ ds2 ->
  (ds2 = [] /\ ds1 = ds ++ [d]) \/ exists ds2', ds2 = ds2' ++ [d] /\ ds = ds1 ++ ds2'.
Proof.
  intros H. destruct (rev ds2) as [|x r] eqn:E.
  - left. assert (ds2 = []) by (rewrite <- (rev_involutive ds2), E; reflexivity). subst.
    rewrite app_nil_r in H. auto.
  - right. assert (E2 : ds2 = rev r ++ [x]) by (rewrite <- (rev_involutive ds2), E; reflexivity).
    subst ds2. rewrite app_assoc in H. apply app_inj_tail in H. destruct H as [H1 H2]. subst.
    exists (rev r). auto.
Qed.

Lemma clamp_ge z w : in_isize w -> w <= z -> w <= clampZ z.
Proof. intros Hw Hle. rewrite <- (clampZ_id w Hw). apply clampZ_mono; exact Hle. Qed.

Lemma sat_add_ge a b w : in_isize w -> w <= a + b -> w <= sat_add a b.
Proof. apply clamp_ge. Qed.

(* ================================================================== 1. feasible runs and H *)
Section Sem.
  Context {St : Type}.
  Variable pb : problem St.
  Let N := nb_vars pb.
  Hypothesis nv_static : forall k l1 l2, next_variable pb k l1 = next_variable pb k l2.
  Hypothesis nv_some : forall k l, (k < N)%nat -> exists x, next_variable pb k l = Some x.
  Hypothesis nv_none : forall k l, (N <= k)%nat -> next_variable pb k l = None.

  Definition var_ok (k : nat) (d : decision) : bool :=
    match next_variable pb k [] with Some x => Nat.eqb x (d_var d) | None => false end.

  (* a feasible run: each decision is on the variable of its depth and in the domain *)
  Fixpoint frun (k : nat) (s : St) (v : Z) (ds : list decision) : option (St * Z) :=
    match ds with
    | [] => Some (s, v)
    | d :: ds' =>
        if var_ok k d && in_domain pb s d then
          let s' := transition pb s d in frun (S k) s' (v + transition_cost pb s s' d) ds'
        else None
    end.

  Lemma frun_app ds1 : forall k s v ds2,
    frun k s v (ds1 ++ ds2) =
    match frun k s v ds1 with Some (s1, v1) => frun (k + length ds1) s1 v1 ds2 | None => None end.
  Proof.
    induction ds1 as [|d ds1 IH]; intros k s v ds2; simpl.
    - rewrite Nat.add_0_r. reflexivity.
    - destruct (var_ok k d && in_domain pb s d); auto. rewrite IH.
      replace (k + S (length ds1))%nat with (S k + length ds1)%nat by lia. reflexivity.
  Qed.

  Lemma frun_shift ds : forall k s v a s' v',
    frun k s v ds = Some (s', v') -> frun k s (v + a) ds = Some (s', v' + a).
  Proof.
    induction ds as [|d ds IH]; intros k s v a s' v' H; simpl in *.
    - inversion H; subst; reflexivity.
    - destruct (var_ok k d && in_domain pb s d); [|discriminate].
      replace (v + a + transition_cost pb s (transition pb s d) d)
        with (v + transition_cost pb s (transition pb s d) d + a) by lia.
      apply IH; exact H.
  Qed.

  Lemma frun_replay ds : forall k s v r, frun k s v ds = Some r -> replay pb ds s v = Some r.
  Proof.
    induction ds as [|d ds IH]; intros k s v r H; simpl in *; auto.
    destruct (var_ok k d); simpl in H; [|discriminate].
    destruct (in_domain pb s d); [|discriminate]. unfold step. eapply IH; eauto.
  Qed.

  Lemma in_domain_In s d : in_domain pb s d = true -> In (d_val d) (domain pb (d_var d) s).
  Proof.
    unfold in_domain. intros H. apply existsb_exists in H. destruct H as (x & Hx & He).
    apply Z.eqb_eq in He. subst. exact Hx.
  Qed.
  Lemma In_in_domain s d : In (d_val d) (domain pb (d_var d) s) -> in_domain pb s d = true.
  Proof. intros H. unfold in_domain. apply existsb_exists. exists (d_val d). split; [exact H|apply Z.eqb_refl]. Qed.

  Lemma var_ok_spec k d l : var_ok k d = true <-> next_variable pb k l = Some (d_var d).
  Proof.
    unfold var_ok. rewrite (nv_static k l []). destruct (next_variable pb k []) as [x|].
    - rewrite Nat.eqb_eq. split; [intros ->; reflexivity|intros H; inversion H; reflexivity].
    - split; discriminate.
  Qed.

  (* ---------------------------------------------------------------- the fold of hstar *)
  Lemma fold_omax_ge (f : Z -> option Z) (l : list Z) x y :
    In x l -> f x = Some y ->
    exists h, fold_right (fun val acc => omax (f val) acc) None l = Some h /\ y <= h.
  Proof.
    induction l as [|z l IH]; intros Hin Hf; [destruct Hin|]. simpl.
    destruct Hin as [->|Hin].
    - rewrite Hf. destruct (fold_right _ None l) as [m|]; simpl.
      + exists (Z.max y m). split; [reflexivity|lia].
      + exists y. split; [reflexivity|lia].
    - destruct (IH Hin Hf) as (h & Hh & Hle). rewrite Hh.
      destruct (f z) as [c|]; simpl.
      + exists (Z.max c h). split; [reflexivity|lia].
      + exists h. auto.
  Qed.

  Lemma fold_omax_attained (f : Z -> option Z) (l : list Z) h :
    fold_right (fun val acc => omax (f val) acc) None l = Some h ->
    exists x, In x l /\ f x = Some h.
  Proof.
    revert h. induction l as [|z l IH]; intros h H; simpl in H; [discriminate|].
    destruct (f z) as [c|] eqn:Ef; destruct (fold_right _ None l) as [m|] eqn:Em; simpl in H; inversion H; subst.
    - destruct (Z.max_spec c m) as [[_ E]|[_ E]]; rewrite E.
      + destruct (IH m eq_refl) as (x & Hx & Hfx). exists x. split; [right; exact Hx|exact Hfx].
      + exists z. split; [left; reflexivity|exact Ef].
    - exists z. split; [left; reflexivity|exact Ef].
    - destruct (IH h eq_refl) as (x & Hx & Hfx). exists x. split; [right; exact Hx|exact Hfx].
  Qed.

  Lemma H_end k s : (N <= k)%nat -> H pb k s = Some 0.
  Proof.
    intros Hk. unfold H. fold N. destruct (S N - k)%nat eqn:E; [reflexivity|].
    simpl. rewrite nv_none by exact Hk. reflexivity.
  Qed.

  Lemma H_step k s x : (k < N)%nat -> next_variable pb k [s] = Some x ->
    H pb k s = fold_right (fun val acc =>
                 let d := {| d_var := x; d_val := val |} in
                 let s' := transition pb s d in
                 omax (oadd (transition_cost pb s s' d) (H pb (S k) s')) acc) None (domain pb x s).
  Proof.
    intros Hk Hx. unfold H. fold N. replace (S N - k)%nat with (S (S N - S k))%nat by lia.
    cbn [hstar]. rewrite Hx. reflexivity.
  Qed.

  (* every full feasible run is dominated by H *)
  Lemma frun_le_H ds : forall k s v s' v',
    (k + length ds = N)%nat -> frun k s v ds = Some (s', v') ->
    exists h, H pb k s = Some h /\ v' <= v + h.
  Proof.
    induction ds as [|d ds IH]; intros k s v s' v' Hlen Hr; simpl in *.
    - inversion Hr; subst. exists 0. split; [apply H_end; lia|lia].
    - destruct (var_ok k d) eqn:Ev; simpl in Hr; [|discriminate].
      destruct (in_domain pb s d) eqn:Ed; [|discriminate].
      apply (var_ok_spec k d [s]) in Ev. apply in_domain_In in Ed.
      destruct (IH (S k) _ _ s' v' ltac:(lia) Hr) as (h1 & Hh1 & Hle1).
      rewrite (H_step k s (d_var d)) by (auto; lia).
      set (f := fun val => let d0 := {| d_var := d_var d; d_val := val |} in
                 oadd (transition_cost pb s (transition pb s d0) d0) (H pb (S k) (transition pb s d0))).
      destruct (fold_omax_ge f (domain pb (d_var d) s) (d_val d)
                  (transition_cost pb s (transition pb s d) d + h1) Ed) as (h & Hh & Hle).
      { unfold f. cbv zeta. destruct d as [x val]. simpl. rewrite Hh1. reflexivity. }
      exists h. split; [exact Hh|lia].
  Qed.

  (* H is attained by a full feasible run *)
  Lemma H_attained n : forall k s v h, (N - k = n)%nat -> (k <= N)%nat -> H pb k s = Some h ->
    exists ds s', frun k s v ds = Some (s', v + h) /\ (k + length ds = N)%nat.
  Proof.
    induction n as [|n IH]; intros k s v h Hn Hk Hh.
    - rewrite H_end in Hh by lia. inversion Hh; subst. exists [], s. simpl. split; [f_equal; f_equal; lia|lia].
    - assert (Hlt : (k < N)%nat) by lia.
      destruct (nv_some k [s] Hlt) as [x Hx].
      rewrite (H_step k s x Hlt Hx) in Hh.
      apply fold_omax_attained in Hh. destruct Hh as (val & Hin & Hf). cbv zeta in Hf.
      set (d := {| d_var := x; d_val := val |}) in *.
      destruct (H pb (S k) (transition pb s d)) as [h1|] eqn:E1; [|discriminate].
      simpl in Hf. inversion Hf; subst h.
      destruct (IH (S k) (transition pb s d) (v + transition_cost pb s (transition pb s d) d) h1)
        as (ds & s' & Hr & Hl); [lia|lia|exact E1|].
      exists (d :: ds), s'. split; [|simpl; lia].
      simpl. assert (Ev : var_ok k d = true) by (apply (var_ok_spec k d [s]); exact Hx).
      rewrite Ev. rewrite (In_in_domain s d) by exact Hin. simpl. rewrite Hr. f_equal. f_equal. lia.
  Qed.

  (* the last state of a run only depends on the decisions *)
  Lemma frun_state ds : forall k s v s' v', frun k s v ds = Some (s', v') ->
    s' = fold_left (transition pb) ds s.
  Proof.
    induction ds as [|d ds IH]; intros k s v s' v' H; simpl in *.
    - inversion H; reflexivity.
    - destruct (var_ok k d && in_domain pb s d); [|discriminate]. eapply IH; eauto.
  Qed.

  Lemma frun_snoc k s v ds d s1 v1 :
    frun k s v ds = Some (s1, v1) ->
    frun k s v (ds ++ [d]) =
      if var_ok (k + length ds) d && in_domain pb s1 d
      then Some (transition pb s1 d, v1 + transition_cost pb s1 (transition pb s1 d) d) else None.
  Proof. intros H. rewrite frun_app, H. reflexivity. Qed.
End Sem.

(* ================================================================== 2. the simulation argument *)
Local Open Scope nat_scope.

Local Ltac msimpl :=
  cbn [m_nodes m_edges m_layers m_layer_end m_next m_curr_depth m_path m_lel m_cutset m_best
       m_best_exact m_is_exact m_has_ebp m_cache m_dom m_log m_polls m_crash
       with_nodes upd_node add_log set_crash with_next with_cache with_dom with_lel_exact
       push_layer with_depth with_polls with_best with_cutset append_edge].
Local Ltac msimpl_in H :=
  cbn [m_nodes m_edges m_layers m_layer_end m_next m_curr_depth m_path m_lel m_cutset m_best
       m_best_exact m_is_exact m_has_ebp m_cache m_dom m_log m_polls m_crash
       with_nodes upd_node add_log set_crash with_next with_cache with_dom with_lel_exact
       push_layer with_depth with_polls with_best with_cutset append_edge] in H.
Local Ltac nsimpl :=
  cbn [n_state n_vtop n_vbot n_best n_inb n_rub n_theta n_flags n_depth
       set_flags set_theta set_vbot set_rub set_depth
       f_exact f_relaxed f_marked f_cutset f_deleted f_cache f_above
       fl_set_exact fl_set_relaxed fl_set_marked fl_set_cutset fl_set_deleted fl_set_cache fl_set_above
       fl_new_exact fl_new_relaxed e_from e_to e_dec e_cost].
Local Ltac nsimpl_in H :=
  cbn [n_state n_vtop n_vbot n_best n_inb n_rub n_theta n_flags n_depth
       set_flags set_theta set_vbot set_rub set_depth
       f_exact f_relaxed f_marked f_cutset f_deleted f_cache f_above
       fl_set_exact fl_set_relaxed fl_set_marked fl_set_cutset fl_set_deleted fl_set_cache fl_set_above
       fl_new_exact fl_new_relaxed e_from e_to e_dec e_cost] in H.

Section Sim.
  Context {St : Type}.
  Variable st_eqb : St -> St -> bool.
  Hypothesis st_eqb_spec : forall a b, st_eqb a b = true <-> a = b.
  Variable inp : @cinput St.
  Let pb := ci_problem inp.
  Let rlx := ci_relax inp.
  Let root := ci_root inp.
  Let lb := ci_best_lb inp.
  Let N := nb_vars pb.
  Let rd := sp_depth root.
  Let rs := sp_state root.
  Let rv := sp_value root.
  Hypothesis Hclean : ci_flavour inp = CleanLEL \/ ci_flavour inp = CleanFC.
  Hypothesis Hnocache : ci_use_cache inp = false.
  Hypothesis Hnodom : ci_domrule inp = None.
  Hypothesis Hnocut : ci_cutoff inp = 0.
  Hypothesis Hwidth : 1 <= ci_width inp.
  Hypothesis Hrd : rd <= N.
  Hypothesis nv_static : forall k l1 l2, next_variable pb k l1 = next_variable pb k l2.
  Hypothesis nv_some : forall k l, k < N -> exists x, next_variable pb k l = Some x.
  Hypothesis nv_none : forall k l, N <= k -> next_variable pb k l = None.
  (* the well-formed model *)
  Variable cov : St -> St -> Prop.
  Hypothesis cov_refl : forall s, cov s s.
  Hypothesis cov_sim : forall s s' x v, cov s s' -> In v (domain pb x s') ->
    let d := {| d_var := x; d_val := v |} in
    In v (domain pb x s) /\ cov (transition pb s d) (transition pb s' d) /\
    (transition_cost pb s' (transition pb s' d) d <= transition_cost pb s (transition pb s d) d)%Z.
  Hypothesis merge_cov : forall L s s', In s L -> cov s s' -> cov (merge rlx L) s'.
  Hypothesis relax_ge : forall src dst mg d c, (c <= relax rlx src dst mg d c)%Z.
  Hypothesis rub_adm : forall k s s' h, cov s s' -> H pb k s' = Some h -> (h <= fast_upper_bound rlx s)%Z.
  (* arithmetic guard (model level): every feasible partial run from the root stays within [-B, B],
     and 2B fits in an isize.  Nothing is assumed on the values stored in the diagram. *)
  Variable B : Z.
  Hypothesis HB : (2 * B <= IMAX)%Z.
  Hypothesis Hguard : forall ds s' v', frun pb rd rs rv ds = Some (s', v') -> (- B <= v' <= B)%Z.

  Notation mdd := (@mdd St).
  Notation node := (@node St).
  Notation gn := (get_node inp).
  Notation frn := (frun pb).

  Lemma guard_isize ds s' v' : frn rd rs rv ds = Some (s', v') -> in_isize v'.
  Proof. intros H. apply Hguard in H. unfold in_isize, IMIN, IMAX in *. lia. Qed.

  Definition is_ex (m : mdd) (id : nat) : bool := fl_is_exact (n_flags (gn m id)).

  (* ---------------------------------------------------------------- 2a. growth *)
  Definition inbinc (m m' : mdd) : Prop := forall x, incl (n_inb (gn m x)) (n_inb (gn m' x)).
  Definition gr (m m' : mdd) : Prop := ext inp m m' /\ inbinc m m'.

  Lemma inbinc_refl m : inbinc m m.
  Proof. intros x; apply incl_refl. Qed.
  Lemma inbinc_trans a b c : inbinc a b -> inbinc b c -> inbinc a c.
  Proof. intros H1 H2 x. eapply incl_tran; [apply H1|apply H2]. Qed.
  Lemma gr_refl m : gr m m.
  Proof. split; [apply ext_refl|apply inbinc_refl]. Qed.
  Lemma gr_trans a b c : gr a b -> gr b c -> gr a c.
  Proof. intros [E1 I1] [E2 I2]. split; [eapply ext_trans; eauto|eapply inbinc_trans; eauto]. Qed.

  Lemma inbinc_same_nodes (m m' : mdd) : m_nodes m' = m_nodes m -> inbinc m m'.
  Proof. intros H x. unfold get_node. rewrite H. apply incl_refl. Qed.

  Lemma inbinc_upd_node (m : mdd) id f : (forall n, n_inb (f n) = n_inb n) -> inbinc m (upd_node m id f).
  Proof.
    intros Hf x. destruct (Nat.eq_dec id x) as [->|Hne].
    - destruct (Nat.lt_ge_cases x (length (m_nodes m))) as [Hlt|Hge].
      + rewrite gn_upd_same by exact Hlt. rewrite Hf. apply incl_refl.
      + rewrite gn_upd_out by exact Hge. apply incl_refl.
    - rewrite gn_upd_other by exact Hne. apply incl_refl.
  Qed.

  Lemma inbinc_append_edge (m : mdd) e : inbinc m (append_edge inp m e).
  Proof.
    intros x. destruct (Nat.eq_dec x (e_to e)) as [->|Hne].
    - destruct (Nat.lt_ge_cases (e_to e) (length (m_nodes m))) as [Hlt|Hge].
      + rewrite gn_append_same by exact Hlt. cbv zeta. nsimpl. apply incl_tl, incl_refl.
      + unfold get_node. msimpl. rewrite upd_nth_out by exact Hge. apply incl_refl.
    - rewrite gn_append_other by exact Hne. apply incl_refl.
  Qed.

  Lemma inbinc_snoc (m : mdd) n : inbinc m (with_nodes m (m_nodes m ++ [n])).
  Proof.
    intros x. destruct (Nat.lt_ge_cases x (length (m_nodes m))) as [Hlt|Hge].
    - rewrite gn_snoc_old by exact Hlt. apply incl_refl.
    - rewrite (gn_out_of_range inp m x Hge). intros y [].
  Qed.

  Lemma gr_add_log (m : mdd) ev : gr m (add_log m ev).
  Proof. split; [apply ext_add_log|apply inbinc_same_nodes; reflexivity]. Qed.
  Lemma gr_upd_node (m : mdd) id f :
    (forall n, n_state (f n) = n_state n) -> (forall n, n_inb (f n) = n_inb n) -> gr m (upd_node m id f).
  Proof. intros H1 H2. split; [apply ext_upd_node; exact H1|apply inbinc_upd_node; exact H2]. Qed.
  Lemma gr_append_edge (m : mdd) e : gr m (append_edge inp m e).
  Proof. split; [apply ext_append_edge|apply inbinc_append_edge]. Qed.
  Lemma gr_snoc (m : mdd) n : gr m (with_nodes m (m_nodes m ++ [n])).
  Proof. split; [apply ext_with_nodes_app|apply inbinc_snoc]. Qed.
  Lemma gr_with_next_app (m : mdd) k : gr m (with_next m (m_next m ++ k)).
  Proof. split; [apply ext_with_next_app|apply inbinc_same_nodes; reflexivity]. Qed.

  Lemma gr_fold {X} (f : mdd -> X -> mdd) l m : (forall a x, gr a (f a x)) -> gr m (fold_left f l m).
  Proof.
    intros Hf. revert m. induction l as [|x l IH]; intros m; simpl; [apply gr_refl|].
    eapply gr_trans; [apply Hf|apply IH].
  Qed.

  Lemma gr_branch_on m id d : gr m (branch_on st_eqb inp m id d).
  Proof.
    unfold branch_on. cbv zeta.
    match goal with |- context [find_next ?a ?b ?c ?d] => destruct (find_next a b c d) end.
    - eapply gr_trans; [apply gr_add_log|]. eapply gr_trans; [apply gr_add_log|]. apply gr_append_edge.
    - eapply gr_trans; [apply gr_add_log|]. eapply gr_trans; [apply gr_add_log|].
      eapply gr_trans; [apply gr_snoc|]. eapply gr_trans; [apply gr_append_edge|].
      apply (gr_with_next_app _ [_]).
  Qed.

  Lemma gr_expand_node var m id : gr m (expand_node st_eqb inp var m id).
  Proof.
    unfold expand_node. cbv zeta. destruct (_ >? _)%Z.
    - eapply gr_trans; [|apply gr_fold; intros; apply gr_branch_on].
      eapply gr_trans; [|apply gr_add_log]. apply gr_upd_node; reflexivity.
    - apply gr_upd_node; reflexivity.
  Qed.

  Lemma gr_ceq m m' : ceq inp m m' -> ext inp m m' -> gr m m'.
  Proof.
    intros ((_ & _ & _ & A4) & _) He. split; [exact He|].
    intros x. destruct (A4 x) as (_ & _ & _ & c4 & _). rewrite c4. apply incl_refl.
  Qed.

  (* facts a growth step transports *)
  Lemma gr_edge m m' eid : gr m m' -> eid < length (m_edges m) -> get_edge m' eid = get_edge m eid.
  Proof.
    intros [E _] H. destruct (ext_edges _ _ _ E) as [k Hk]. unfold get_edge. rewrite Hk.
    apply app_nth1. exact H.
  Qed.
  Lemma gr_state m m' id : gr m m' -> id < length (m_nodes m) -> n_state (gn m' id) = n_state (gn m id).
  Proof. intros [E _] H. apply (ext_state _ _ _ E). exact H. Qed.
  Lemma gr_nodes m m' : gr m m' -> length (m_nodes m) <= length (m_nodes m').
  Proof. intros [E _]. apply (ext_nodes _ _ _ E). Qed.
  Lemma gr_edges_len m m' : gr m m' -> length (m_edges m) <= length (m_edges m').
  Proof. intros [E _]. destruct (ext_edges _ _ _ E) as [k Hk]. rewrite Hk, app_length. lia. Qed.
  Lemma gr_next m m' x : gr m m' -> In x (m_next m) -> In x (m_next m').
  Proof. intros [E _] H. destruct (ext_next _ _ _ E) as [k Hk]. rewrite Hk. apply in_or_app. left; exact H. Qed.
  Lemma gr_layers m m' : gr m m' -> m_layers m' = m_layers m.
  Proof. intros [E _]. apply (ext_layers _ _ _ E). Qed.

  (* ---------------------------------------------------------------- 2b. diagram paths following a true trajectory *)
  Inductive dpath (m : mdd) : nat -> nat -> St -> list decision -> nat -> St -> Prop :=
  | dp_nil : forall i u s, u < length (m_nodes m) -> cov (n_state (gn m u)) s -> dpath m i u s [] u s
  | dp_snoc : forall i u s ds t s' d eid t',
      dpath m i u s ds t s' ->
      In t (nth (i + length ds) (m_layers m) []) ->
      t' < length (m_nodes m) -> eid < length (m_edges m) -> In eid (n_inb (gn m t')) ->
      e_from (get_edge m eid) = t -> e_dec (get_edge m eid) = d ->
      (transition_cost pb s' (transition pb s' d) d <= e_cost (get_edge m eid))%Z ->
      cov (n_state (gn m t')) (transition pb s' d) ->
      dpath m i u s (ds ++ [d]) t' (transition pb s' d).

  Lemma dpath_cov m i u s ds t s' : dpath m i u s ds t s' -> cov (n_state (gn m t)) s'.
  Proof. intros H. destruct H; auto. Qed.
  Lemma dpath_range m i u s ds t s' : dpath m i u s ds t s' -> t < length (m_nodes m).
  Proof. intros H. destruct H; auto. Qed.
  Lemma dpath_state m i u s ds t s' : dpath m i u s ds t s' -> s' = fold_left (transition pb) ds s.
  Proof. intros H. induction H; [reflexivity|]. rewrite fold_left_app. simpl. congruence. Qed.

  Lemma nth_layers_app (ls : list (list nat)) x i t : In t (nth i ls []) -> In t (nth i (ls ++ [x]) []).
  Proof.
    intros H. destruct (Nat.lt_ge_cases i (length ls)) as [Hlt|Hge].
    - rewrite app_nth1 by exact Hlt. exact H.
    - rewrite nth_overflow in H by exact Hge. destruct H.
  Qed.

  (* transport along: growth, then possibly one more pushed layer *)
  Lemma dpath_transport m m' i u s ds t s' :
    dpath m i u s ds t s' ->
    length (m_nodes m) <= length (m_nodes m') ->
    (forall x, x < length (m_nodes m) -> n_state (gn m' x) = n_state (gn m x)) ->
    (forall x, incl (n_inb (gn m x)) (n_inb (gn m' x))) ->
    length (m_edges m) <= length (m_edges m') ->
    (forall eid, eid < length (m_edges m) -> get_edge m' eid = get_edge m eid) ->
    (forall k x, In x (nth k (m_layers m) []) -> In x (nth k (m_layers m') [])) ->
    dpath m' i u s ds t s'.
  Proof.
    intros Hp Hn Hs Hi He Hg Hl. induction Hp.
    - apply dp_nil; [lia|]. rewrite Hs by assumption. assumption.
    - apply (dp_snoc m' i u s ds t s' d eid t'); auto; try lia.
      + apply Hi. assumption.
      + rewrite Hg by assumption. assumption.
      + rewrite Hg by assumption. assumption.
      + rewrite Hg by assumption. assumption.
      + rewrite Hs by assumption. assumption.
  Qed.

  Lemma dpath_gr m m' i u s ds t s' : gr m m' -> dpath m i u s ds t s' -> dpath m' i u s ds t s'.
  Proof.
    intros G Hp. eapply dpath_transport; eauto.
    - apply gr_nodes; auto.
    - intros; apply gr_state; auto.
    - apply G.
    - apply gr_edges_len; auto.
    - intros; apply gr_edge; auto.
    - intros k x. rewrite (gr_layers _ _ G). auto.
  Qed.

  Lemma dpath_peq m m' i u s ds t s' :
    peq inp m m' -> (forall k x, In x (nth k (m_layers m) []) -> In x (nth k (m_layers m') [])) ->
    dpath m i u s ds t s' -> dpath m' i u s ds t s'.
  Proof.
    intros (A1 & A2 & A3 & A4) Hl Hp. eapply dpath_transport; eauto; try lia.
    - intros x _. destruct (A4 x) as (c1 & _). congruence.
    - intros x. destruct (A4 x) as (_ & _ & _ & c4 & _). rewrite c4. apply incl_refl.
    - rewrite A1. lia.
    - intros eid _. apply ge_edges_eq. exact A1.
  Qed.

  Lemma dpath_split m i u s ds t s' : dpath m i u s ds t s' -> forall ds1 ds2, ds = ds1 ++ ds2 ->
    exists c sc, dpath m i u s ds1 c sc /\ dpath m (i + length ds1) c sc ds2 t s'.
  Proof.
    intros Hp. induction Hp as [i u s Hu Hc|i u s ds t s' d eid t' Hp IH Hlay Ht' He Hin Hf Hd Hcost Hcov];
      intros ds1 ds2 E.
    - symmetry in E. apply app_eq_nil in E. destruct E as [-> ->].
      exists u, s. split; apply dp_nil; auto.
    - apply app_snoc_cases in E. destruct E as [[-> ->]|(ds2' & -> & ->)].
      + exists t', (transition pb s' d). split.
        * eapply dp_snoc; eauto.
        * apply dp_nil; auto.
      + destruct (IH ds1 ds2' eq_refl) as (c & sc & P1 & P2).
        exists c, sc. split; [exact P1|].
        eapply dp_snoc; eauto. rewrite app_length in Hlay. rewrite <- Nat.add_assoc. exact Hlay.
  Qed.

  (* ---------------------------------------------------------------- 2c. the edge invariant *)
  Record Einv (m : mdd) : Prop := {
    E_le : m_layer_end m <= length (m_nodes m);
    E_from : forall eid, eid < length (m_edges m) -> e_from (get_edge m eid) < m_layer_end m;
    E_inb : forall id eid, id < length (m_nodes m) -> In eid (n_inb (gn m id)) ->
      eid < length (m_edges m) /\
      (sat_add (n_vtop (gn m (e_from (get_edge m eid)))) (e_cost (get_edge m eid)) <= n_vtop (gn m id))%Z /\
      (is_ex m id = true ->
         is_ex m (e_from (get_edge m eid)) = true /\
         n_state (gn m id) = transition pb (n_state (gn m (e_from (get_edge m eid)))) (e_dec (get_edge m eid)) /\
         n_depth (gn m id) = S (n_depth (gn m (e_from (get_edge m eid))))) }.

  Lemma Einv_peq m m' :
    peq inp m m' -> m_layer_end m <= m_layer_end m' -> m_layer_end m' <= length (m_nodes m') ->
    Einv m -> Einv m'.
  Proof.
    intros (A1 & A2 & A3 & A4) Hl1 Hl2 [E1 E2 E3]. split.
    - exact Hl2.
    - intros eid He. rewrite A1 in He. rewrite (ge_edges_eq m m' eid A1). specialize (E2 eid He). lia.
    - intros id eid Hid Hin. rewrite A3 in Hid.
      pose proof (A4 id) as Cid. pose proof (core_eq_is_exact _ _ Cid) as Xid.
      destruct Cid as (c1 & c2 & c3 & c4 & c5 & c6 & c7).
      rewrite <- c4 in Hin. destruct (E3 id eid Hid Hin) as (G1 & G2 & G3).
      rewrite (ge_edges_eq m m' eid A1). rewrite A1.
      set (p := e_from (get_edge m eid)) in *.
      pose proof (A4 p) as Cp. pose proof (core_eq_is_exact _ _ Cp) as Xp.
      destruct Cp as (p1 & p2 & p3 & p4 & p5 & p6 & p7).
      unfold is_ex in *. rewrite <- c1, <- c2, <- c7, <- p1, <- p2, <- p7, <- Xid, <- Xp. auto.
  Qed.

  Lemma Einv_ceq m m' : ceq inp m m' -> Einv m -> Einv m'.
  Proof.
    intros (Hp & _ & Hl & _) HE. eapply Einv_peq; eauto; [lia|].
    destruct Hp as (_ & _ & A3 & _). rewrite Hl, A3. apply (E_le _ HE).
  Qed.

  Lemma Einv_append_edge (m : mdd) e :
    Einv m -> e_from e < m_layer_end m -> m_layer_end m <= e_to e -> e_to e < length (m_nodes m) ->
    (is_ex m (e_to e) = true -> is_ex m (e_from e) = true ->
       n_state (gn m (e_to e)) = transition pb (n_state (gn m (e_from e))) (e_dec e) /\
       n_depth (gn m (e_to e)) = S (n_depth (gn m (e_from e)))) ->
    Einv (append_edge inp m e).
  Proof.
    intros [E1 E2 E3] Hfrom Hto Hlt Hex.
    assert (Hedges : m_edges (append_edge inp m e) = m_edges m ++ [e]) by reflexivity.
    assert (Hlen : length (m_nodes (append_edge inp m e)) = length (m_nodes m))
      by (msimpl; apply upd_nth_length).
    assert (Helen : length (m_edges (append_edge inp m e)) = S (length (m_edges m)))
      by (rewrite Hedges, app_length; simpl; lia).
    assert (Hsrc : forall k, k < m_layer_end m -> gn (append_edge inp m e) k = gn m k).
    { intros k Hk. apply gn_append_other. lia. }
    split.
    - rewrite Hlen. exact E1.
    - intros eid He. rewrite Helen in He. change (m_layer_end (append_edge inp m e)) with (m_layer_end m).
      destruct (Nat.eq_dec eid (length (m_edges m))) as [->|Hne].
      + rewrite (ge_snoc_new m _ e Hedges). exact Hfrom.
      + rewrite (ge_snoc_old m _ e eid Hedges) by lia. apply E2. lia.
    - intros id eid Hid Hin. rewrite Hlen in Hid. rewrite Helen. unfold is_ex.
      destruct (Nat.eq_dec id (e_to e)) as [->|Hidne].
      + rewrite (gn_append_same inp m e Hlt) in Hin. rewrite (gn_append_same inp m e Hlt).
        cbv zeta in Hin |- *. nsimpl_in Hin. nsimpl.
        rewrite fl_is_exact_set_exact.
        destruct Hin as [<-|Hin].
        * rewrite (ge_snoc_new m _ e Hedges). rewrite Hsrc by exact Hfrom.
          split; [lia|]. split.
          -- destruct (sat_add (n_vtop (gn m (e_from e))) (e_cost e) >=? n_vtop (gn m (e_to e)))%Z eqn:Eb.
             ++ lia.
             ++ rewrite Z.geb_leb in Eb. apply Z.leb_gt in Eb. lia.
          -- intros Hx. apply andb_true_iff in Hx. destruct Hx as [Hx Hr].
             apply andb_true_iff in Hx. destruct Hx as [Hp Ht].
             split; [exact Hp|]. apply Hex; assumption.
        * destruct (E3 _ eid Hlt Hin) as (G1 & G2 & G3).
          rewrite (ge_snoc_old m _ e eid Hedges) by exact G1.
          rewrite Hsrc by (apply E2; exact G1).
          split; [lia|]. split.
          -- destruct (sat_add (n_vtop (gn m (e_from e))) (e_cost e) >=? n_vtop (gn m (e_to e)))%Z eqn:Eb.
             ++ rewrite Z.geb_leb in Eb. apply Z.leb_le in Eb. lia.
             ++ exact G2.
          -- intros Hx. apply andb_true_iff in Hx. destruct Hx as [Hx Hr].
             apply andb_true_iff in Hx. destruct Hx as [Hp Ht]. apply G3. exact Ht.
      + rewrite (gn_append_other inp m e id Hidne) in Hin. rewrite (gn_append_other inp m e id Hidne).
        destruct (E3 _ eid Hid Hin) as (G1 & G2 & G3).
        rewrite (ge_snoc_old m _ e eid Hedges) by exact G1.
        rewrite Hsrc by (apply E2; exact G1). split; [lia|]. split; assumption.
  Qed.

  Lemma Einv_snoc (m : mdd) n : Einv m -> n_inb n = [] -> Einv (with_nodes m (m_nodes m ++ [n])).
  Proof.
    intros [E1 E2 E3] Hn. split.
    - rewrite len_snoc. msimpl. lia.
    - exact E2.
    - intros id eid Hid Hin. rewrite len_snoc in Hid. unfold is_ex.
      destruct (Nat.eq_dec id (length (m_nodes m))) as [->|Hne].
      + rewrite gn_snoc_new in Hin. rewrite Hn in Hin. destruct Hin.
      + assert (Hid' : id < length (m_nodes m)) by lia.
        rewrite (gn_snoc_old inp m n id Hid') in Hin. rewrite (gn_snoc_old inp m n id Hid').
        destruct (E3 _ eid Hid' Hin) as (G1 & G2 & G3).
        change (m_edges (with_nodes m (m_nodes m ++ [n]))) with (m_edges m).
        change (get_edge (with_nodes m (m_nodes m ++ [n])) eid) with (get_edge m eid).
        rewrite gn_snoc_old by (specialize (E2 eid G1); lia). auto.
  Qed.

  (* an update of an OPEN node that keeps state, value, inbound list, depth and can only clear exactness *)
  Lemma Einv_upd_open (m : mdd) id f :
    Einv m -> m_layer_end m <= id ->
    (forall n, n_state (f n) = n_state n /\ n_vtop (f n) = n_vtop n /\ n_inb (f n) = n_inb n /\
               n_depth (f n) = n_depth n /\
               (fl_is_exact (n_flags (f n)) = true -> fl_is_exact (n_flags n) = true)) ->
    Einv (upd_node m id f).
  Proof.
    intros [E1 E2 E3] Hid Hf.
    assert (Hlen : length (m_nodes (upd_node m id f)) = length (m_nodes m)) by (msimpl; apply upd_nth_length).
    assert (Hsrc : forall k, k < m_layer_end m -> gn (upd_node m id f) k = gn m k).
    { intros k Hk. apply gn_upd_other. lia. }
    split.
    - rewrite Hlen. exact E1.
    - exact E2.
    - intros x eid Hx Hin. rewrite Hlen in Hx. unfold is_ex.
      change (m_edges (upd_node m id f)) with (m_edges m).
      change (get_edge (upd_node m id f) eid) with (get_edge m eid).
      destruct (Nat.eq_dec id x) as [->|Hne].
      + rewrite (gn_upd_same inp m x f Hx) in Hin. rewrite (gn_upd_same inp m x f Hx).
        destruct (Hf (gn m x)) as (f1 & f2 & f3 & f4 & f5). rewrite f3 in Hin.
        destruct (E3 _ eid Hx Hin) as (G1 & G2 & G3).
        rewrite Hsrc by (apply E2; exact G1). rewrite f1, f2, f4. split; [exact G1|]. split; [exact G2|].
        intros Hex. apply G3. apply f5. exact Hex.
      + rewrite (gn_upd_other inp m id f x Hne) in Hin. rewrite (gn_upd_other inp m id f x Hne).
        destruct (E3 _ eid Hx Hin) as (G1 & G2 & G3).
        rewrite Hsrc by (apply E2; exact G1). auto.
  Qed.

  Lemma Einv_frame m m' :
    m_nodes m' = m_nodes m -> m_edges m' = m_edges m ->
    m_layer_end m <= m_layer_end m' -> m_layer_end m' <= length (m_nodes m') ->
    Einv m -> Einv m'.
  Proof.
    intros Hn He H1 H2 [E1 E2 E3].
    assert (Hg : forall k, gn m' k = gn m k) by (intros; apply gn_nodes_eq; exact Hn).
    assert (Hge : forall k, get_edge m' k = get_edge m k) by (intros; apply ge_edges_eq; exact He).
    split.
    - exact H2.
    - intros eid Hlt. rewrite He in Hlt. rewrite Hge. specialize (E2 eid Hlt). lia.
    - intros id eid Hid Hin. rewrite Hn in Hid. rewrite Hg in Hin. unfold is_ex. rewrite He, Hge, !Hg.
      apply E3; assumption.
  Qed.

  (* what the invariant buys along a diagram path from the root *)
  Lemma dpath_vtop_gen m i u s ds t s' k v :
    Einv m -> dpath m i u s ds t s' -> (v <= n_vtop (gn m u))%Z ->
    (forall ds1 s1 v1, frn k s v ds1 = Some (s1, v1) -> in_isize v1) ->
    forall s'' v', frn k s v ds = Some (s'', v') -> (v' <= n_vtop (gn m t))%Z.
  Proof.
    intros HE Hp Hroot Hiso.
    induction Hp as [i u s Hu Hc|i u s ds t s' d eid t' Hp IH Hlay Ht' He Hin Hf Hd Hcost Hcov];
      intros s'' v' Hr.
    - simpl in Hr. inversion Hr; subst. exact Hroot.
    - specialize (IH Hroot Hiso).
      pose proof (Hiso _ _ _ Hr) as Hisov.
      rewrite frun_app in Hr. destruct (frn k s v ds) as [[s1 v1]|] eqn:E1; [|discriminate].
      pose proof (IH _ _ eq_refl) as Hv1.
      pose proof (frun_state pb _ _ _ _ _ _ E1) as Hs1.
      pose proof (dpath_state _ _ _ _ _ _ _ Hp) as Hs1'.
      assert (s1 = s') by congruence. subst s1.
      cbn [frun] in Hr.
      match type of Hr with context [if ?c then _ else _] => destruct c end; [|discriminate].
      injection Hr as _ Hv'. subst v'.
      destruct (E_inb _ HE t' eid Ht' Hin) as (_ & G2 & _). rewrite Hf in G2.
      eapply Z.le_trans; [|exact G2]. apply sat_add_ge; [exact Hisov|]. rewrite <- Hs1'. lia.
  Qed.

  Lemma dpath_vtop m ds u s' :
    Einv m -> dpath m 0 0 rs ds u s' -> (rv <= n_vtop (gn m 0))%Z ->
    forall s'' v', frn rd rs rv ds = Some (s'', v') -> (v' <= n_vtop (gn m u))%Z.
  Proof.
    intros HE Hp Hroot. eapply dpath_vtop_gen; eauto. intros; eapply guard_isize; eauto.
  Qed.

  Lemma dpath_exact m i u s ds t s' :
    Einv m -> dpath m i u s ds t s' -> n_state (gn m u) = s -> is_ex m t = true ->
    n_state (gn m t) = s' /\ n_depth (gn m t) = n_depth (gn m u) + length ds /\ is_ex m u = true.
  Proof.
    intros HE Hp. induction Hp as [i u s Hu Hc|i u s ds t s' d eid t' Hp IH Hlay Ht' He Hin Hf Hd Hcost Hcov];
      intros Hs Hex.
    - split; [exact Hs|]. split; [simpl; lia|exact Hex].
    - destruct (E_inb _ HE t' eid Ht' Hin) as (_ & _ & G3). destruct (G3 Hex) as (X1 & X2 & X3).
      rewrite Hf in X1, X2, X3. rewrite Hd in X2.
      destruct (IH Hs X1) as (I1 & I2 & I3).
      split; [rewrite X2, I1; reflexivity|]. split; [|exact I3].
      rewrite X3, I2, app_length. simpl. lia.
  Qed.

  (* ---------------------------------------------------------------- 2d. the filters do nothing here *)
  Lemma filter_with_cache_nocache l : forall m, snd (filter_with_cache st_eqb inp m l) = l.
  Proof.
    induction l as [|id l IH]; intros m; [reflexivity|].
    cbn [filter_with_cache]. cbv zeta. unfold cache_get. rewrite Hnocache.
    match goal with |- context [filter_with_cache st_eqb inp ?mm l] =>
      specialize (IH mm); destruct (filter_with_cache st_eqb inp mm l) as [m2 r] end.
    simpl in *. congruence.
  Qed.

  Lemma dom_retain_nodom l : forall m, snd (dom_retain inp m l) = l.
  Proof.
    induction l as [|id l IH]; intros m; [reflexivity|].
    cbn [dom_retain]. cbv zeta. destruct (fl_is_exact (n_flags (gn m id))).
    - unfold dom_query. rewrite Hnodom. cbn [dc_dominated].
      match goal with |- context [dom_retain inp ?mm l] =>
        specialize (IH mm); destruct (dom_retain inp mm l) as [m2 r] end.
      simpl in *. congruence.
    - specialize (IH m). destruct (dom_retain inp m l) as [m2 r]. simpl in *. congruence.
  Qed.

  Lemma filter_with_dominance_nodom m l x :
    In x (snd (filter_with_dominance inp m l)) <-> In x l.
  Proof. unfold filter_with_dominance. rewrite dom_retain_nodom. apply sort_by_In. Qed.

  (* ---------------------------------------------------------------- 2e. branch_on *)
  Lemma branch_on_spec (m : mdd) id d :
    (forall x, In x (m_next m) -> x < length (m_nodes m)) ->
    let m' := branch_on st_eqb inp m id d in
    let s := n_state (gn m id) in
    exists t, In t (m_next m') /\ t < length (m_nodes m') /\
      In (length (m_edges m)) (n_inb (gn m' t)) /\
      get_edge m' (length (m_edges m)) =
        {| e_from := id; e_to := t; e_dec := d; e_cost := transition_cost pb s (transition pb s d) d |} /\
      n_state (gn m' t) = transition pb s d /\
      length (m_edges m') = S (length (m_edges m)).
  Proof.
    intros Hnext. cbv zeta. unfold branch_on. cbv zeta.
    set (s := n_state (gn m id)).
    set (ns := transition (ci_problem inp) s d).
    set (cost := transition_cost (ci_problem inp) s ns d).
    set (m1 := add_log (add_log m (EvTransition s d ns)) (EvCost s ns d cost)).
    assert (Hgn1 : forall k, gn m1 k = gn m k) by reflexivity.
    destruct (find_next st_eqb inp m1 ns) as [t|] eqn:Hfind.
    - unfold find_next in Hfind. apply find_some in Hfind. destruct Hfind as [Hin Heq].
      apply st_eqb_spec in Heq. change (m_next m1) with (m_next m) in Hin.
      pose proof (Hnext t Hin) as Ht.
      set (e := {| e_from := id; e_to := t; e_dec := d; e_cost := cost |}).
      exists t. split; [exact Hin|]. split; [msimpl; rewrite upd_nth_length; exact Ht|].
      split; [|split; [|split]].
      + change t with (e_to e) at 1. rewrite gn_append_same by exact Ht. cbv zeta. nsimpl. left; reflexivity.
      + apply (ge_snoc_new m1 _ e). reflexivity.
      + change t with (e_to e). rewrite gn_append_same by exact Ht. cbv zeta. nsimpl. exact Heq.
      + msimpl. rewrite app_length. simpl. lia.
    - set (t := length (m_nodes m1)).
      set (n := {| n_state := ns; n_vtop := sat_add (n_vtop (gn m id)) cost; n_vbot := IMIN;
                   n_best := None; n_inb := []; n_rub := IMAX; n_theta := None;
                   n_flags := fl_set_exact fl_new_exact (fl_is_exact (n_flags (gn m id)));
                   n_depth := S (n_depth (gn m id)) |}).
      set (m2 := with_nodes m1 (m_nodes m1 ++ [n])).
      set (e := {| e_from := id; e_to := t; e_dec := d; e_cost := cost |}).
      set (m3 := append_edge inp m2 e).
      assert (Hlen2 : length (m_nodes m2) = S t) by apply len_snoc.
      assert (Hgn2new : gn m2 t = n) by apply gn_snoc_new.
      assert (Ht2 : e_to e < length (m_nodes m2)) by (simpl e_to; lia).
      exists t. change (gn (with_next m3 (m_next m3 ++ [t]))) with (gn m3).
      split; [msimpl; apply in_or_app; right; left; reflexivity|].
      assert (Hlen3 : length (m_nodes m3) = S t).
      { unfold m3. msimpl. rewrite upd_nth_length. exact Hlen2. }
      split; [change (t < length (m_nodes m3)); lia|].
      split; [|split; [|split]].
      + unfold m3. change t with (e_to e) at 1. rewrite gn_append_same by exact Ht2. cbv zeta. nsimpl. left; reflexivity.
      + apply (ge_snoc_new m2 _ e). reflexivity.
      + unfold m3. change t with (e_to e). rewrite gn_append_same by exact Ht2. cbv zeta. nsimpl.
        simpl e_to. rewrite Hgn2new. reflexivity.
      + change (length (m_edges m3) = S (length (m_edges m))). unfold m3. msimpl.
        rewrite app_length. simpl. lia.
  Qed.

  Lemma Einv_branch_on (m : mdd) id d :
    Einv m -> id < m_layer_end m ->
    (forall x, In x (m_next m) -> m_layer_end m <= x < length (m_nodes m) /\
                                 n_depth (gn m x) = S (n_depth (gn m id))) ->
    Einv (branch_on st_eqb inp m id d).
  Proof.
    intros HE Hid Hnext. unfold branch_on. cbv zeta.
    set (s := n_state (gn m id)).
    set (ns := transition (ci_problem inp) s d).
    set (cost := transition_cost (ci_problem inp) s ns d).
    set (m1 := add_log (add_log m (EvTransition s d ns)) (EvCost s ns d cost)).
    assert (HE1 : Einv m1).
    { eapply Einv_frame; [| | | |exact HE]; try reflexivity. apply (E_le _ HE). }
    assert (Hgn1 : forall k, gn m1 k = gn m k) by reflexivity.
    destruct (find_next st_eqb inp m1 ns) as [t|] eqn:Hfind.
    - unfold find_next in Hfind. apply find_some in Hfind. destruct Hfind as [Hin Heq].
      apply st_eqb_spec in Heq. change (m_next m1) with (m_next m) in Hin.
      destruct (Hnext t Hin) as [Hr Hd].
      apply Einv_append_edge; nsimpl.
      + exact HE1.
      + exact Hid.
      + change (m_layer_end m1) with (m_layer_end m). lia.
      + change (length (m_nodes m1)) with (length (m_nodes m)). lia.
      + intros _ _. rewrite !Hgn1. split; [exact Heq|exact Hd].
    - set (t := length (m_nodes m1)).
      set (n := {| n_state := ns; n_vtop := sat_add (n_vtop (gn m id)) cost; n_vbot := IMIN;
                   n_best := None; n_inb := []; n_rub := IMAX; n_theta := None;
                   n_flags := fl_set_exact fl_new_exact (fl_is_exact (n_flags (gn m id)));
                   n_depth := S (n_depth (gn m id)) |}).
      set (m2 := with_nodes m1 (m_nodes m1 ++ [n])).
      assert (HE2 : Einv m2) by (apply Einv_snoc; [exact HE1|reflexivity]).
      pose proof (E_le _ HE1) as Hle1.
      assert (HE3 : Einv (append_edge inp m2 {| e_from := id; e_to := t; e_dec := d; e_cost := cost |})).
      { apply Einv_append_edge; nsimpl.
        - exact HE2.
        - exact Hid.
        - change (m_layer_end m2) with (m_layer_end m1). exact Hle1.
        - unfold m2. rewrite len_snoc. unfold t. lia.
        - intros _ _. unfold m2, t. rewrite gn_snoc_new.
          rewrite gn_snoc_old by (change (m_layer_end m1) with (m_layer_end m) in Hle1; lia).
          rewrite Hgn1. split; reflexivity. }
      eapply Einv_frame; [| | | |exact HE3]; try reflexivity. apply (E_le _ HE3).
  Qed.

  (* ---------------------------------------------------------------- 2f. expand_node *)
  Definition Cinv (dn : nat) (m : mdd) : Prop :=
    Dinv inp m /\ Xinv inp m /\ next_depth inp dn m /\ Einv m.

  Lemma branch_on_Cinv (m : mdd) id d :
    Cinv (S (n_depth (gn m id))) m -> id < m_layer_end m ->
    in_domain pb (n_state (gn m id)) d = true ->
    (exists states, next_variable pb (n_depth (gn m id)) states = Some (d_var d)) ->
    Cinv (S (n_depth (gn m id))) (branch_on st_eqb inp m id d) /\
    stable inp m (branch_on st_eqb inp m id d).
  Proof.
    intros (HD & HX & Hnd & HE) Hid Hdom Hv.
    destruct (branch_on_inv st_eqb st_eqb_spec inp Hclean m id d HD HX Hid Hnd Hdom Hv) as (B1 & B2 & B3 & B4).
    split; [|exact B3]. split; [exact B1|]. split; [exact B2|]. split; [exact B4|].
    apply Einv_branch_on; auto. intros x Hx. split; [apply (D_next _ _ _ HD x Hx)|apply Hnd; exact Hx].
  Qed.

  Lemma prefix_isize ds s' v' h :
    frn rd rs rv ds = Some (s', v') -> rd + length ds <= N -> H pb (rd + length ds) s' = Some h ->
    in_isize (v' + h).
  Proof.
    intros Hr Hle Hh.
    destruct (H_attained pb nv_static nv_some nv_none (N - (rd + length ds)) (rd + length ds) s' v' h eq_refl Hle Hh)
      as (ds2 & s2 & Hr2 & _).
    apply (guard_isize (ds ++ ds2) s2). rewrite frun_app, Hr. exact Hr2.
  Qed.

  Lemma expand_node_track var (m : mdd) u ds s' v' dval h :
    let d := {| d_var := var; d_val := dval |} in
    let dn := S (n_depth (gn m u)) in
    Cinv dn m -> u < m_layer_end m ->
    (exists states, next_variable pb (n_depth (gn m u)) states = Some var) ->
    (rv <= n_vtop (gn m 0))%Z ->
    In u (nth (length ds) (m_layers m) []) ->
    dpath m 0 0 rs ds u s' -> frn rd rs rv ds = Some (s', v') -> rd + length ds <= N ->
    In dval (domain pb var s') ->
    H pb (rd + length ds) s' = Some h -> (lb < v' + h)%Z ->
    let m' := expand_node st_eqb inp var m u in
    exists t', In t' (m_next m') /\ dpath m' 0 0 rs (ds ++ [d]) t' (transition pb s' d).
  Proof.
    intros d dn HC Hu Hvar Hroot Hlay Hp Hr Hle Hdv Hh Hprom. cbv zeta.
    pose proof (dpath_range _ _ _ _ _ _ _ Hp) as Hulen.
    pose proof (dpath_cov _ _ _ _ _ _ _ Hp) as Hcov.
    destruct HC as (HD & HX & Hnd & HE).
    pose proof (dpath_vtop m ds u s' HE Hp Hroot _ _ Hr) as Hvt.
    pose proof (rub_adm _ _ _ _ Hcov Hh) as Hrub.
    pose proof (prefix_isize _ _ _ _ Hr Hle Hh) as Hiso.
    unfold expand_node. cbv zeta.
    set (state := n_state (gn m u)) in *.
    set (m1 := upd_node m u (fun n => set_rub n (fast_upper_bound (ci_relax inp) state))).
    assert (Hc1 : ceq inp m m1) by (apply ceq_upd_node; intros n; apply core_eq_set_rub).
    assert (Hvt1 : n_vtop (gn m1 u) = n_vtop (gn m u)).
    { destruct Hc1 as ((_ & _ & _ & A4) & _). destruct (A4 u) as (_ & c2 & _). symmetry; exact c2. }
    assert (Hub : (sat_add (fast_upper_bound (ci_relax inp) state) (n_vtop (gn m1 u)) >? ci_best_lb inp)%Z = true).
    { apply Z.gtb_lt. fold lb. eapply Z.lt_le_trans; [exact Hprom|].
      apply sat_add_ge; [exact Hiso|]. rewrite Hvt1. fold rlx. lia. }
    rewrite Hub.
    set (m2 := add_log m1 (EvDomain var state)).
    assert (Hc2 : ceq inp m m2) by (eapply ceq_trans; [exact Hc1|apply ceq_add_log]).
    assert (Hg2 : gr m m2).
    { apply (gr_trans m m1 m2); [unfold m1; apply gr_upd_node; intros; reflexivity|apply gr_add_log]. }
    destruct (cov_sim _ _ var dval Hcov Hdv) as (Sd & Scov & Scost). fold d in Scov, Scost.
    set (Inv := fun a : mdd => Cinv dn a /\ stable inp m a /\ gr m a).
    set (P := fun a : mdd => exists t', In t' (m_next a) /\ dpath a 0 0 rs (ds ++ [d]) t' (transition pb s' d)).
    assert (Hstep : forall a val, In val (domain pb var state) -> Inv a ->
              Inv (branch_on st_eqb inp a u {| d_var := var; d_val := val |})).
    { intros a val Hval (Ca & Sa & Ga).
      pose proof Sa as (s1 & s2 & s3 & s4 & s5).
      destruct (s4 u Hulen) as [Hs Hdp].
      assert (Hdn : dn = S (n_depth (gn a u))) by (unfold dn; rewrite Hdp; reflexivity).
      rewrite Hdn in Ca.
      destruct (branch_on_Cinv a u {| d_var := var; d_val := val |} Ca) as [C' S'].
      - rewrite s1. exact Hu.
      - rewrite Hs. apply In_in_domain. exact Hval.
      - rewrite Hdp. exact Hvar.
      - split; [rewrite Hdn; exact C'|]. split; [eapply stable_trans; eauto|].
        eapply gr_trans; [exact Ga|apply gr_branch_on]. }
    assert (Hinv2 : Inv m2).
    { split; [|split; [apply ceq_stable; exact Hc2|exact Hg2]].
      split; [eapply Dg_ceq; eauto|]. split; [eapply Xinv_ceq; eauto|]. split; [|eapply Einv_ceq; eauto].
      intros k Hk. destruct Hc2 as ((_ & _ & _ & A4) & Hn & _). rewrite Hn in Hk.
      destruct (A4 k) as (_ & _ & _ & _ & _ & _ & c7). rewrite <- c7. apply Hnd; exact Hk. }
    (* run the fold, remembering membership of the values *)
    assert (G : forall l a, incl l (domain pb var state) -> Inv a ->
              (In dval l \/ P a) ->
              P (fold_left (fun m0 val => branch_on st_eqb inp m0 u {| d_var := var; d_val := val |}) l a)).
    { induction l as [|val l IH]; intros a Hincl Ia Hor; simpl.
      - destruct Hor as [[]|Hor]; exact Hor.
      - assert (Hval : In val (domain pb var state)) by (apply Hincl; left; reflexivity).
        apply IH.
        + intros y Hy. apply Hincl. right; exact Hy.
        + apply Hstep; assumption.
        + destruct Hor as [[->|Hin]|(t' & Ht' & Hp')].
          * right. destruct Ia as (Ca & Sa & Ga).
            destruct Ca as (Da & _).
            destruct (branch_on_spec a u d) as (t & T1 & T2 & T3 & T4 & T5 & T6).
            { intros x Hx. apply (D_next _ _ _ Da x Hx). }
            set (b := branch_on st_eqb inp a u d) in *.
            assert (Gab : gr a b) by apply gr_branch_on.
            assert (Gmb : gr m b) by (eapply gr_trans; eauto).
            exists t. split; [exact T1|].
            apply (dp_snoc b 0 0 rs ds u s' d (length (m_edges a)) t).
            -- eapply dpath_gr; eauto.
            -- rewrite (gr_layers _ _ Gmb). exact Hlay.
            -- exact T2.
            -- lia.
            -- exact T3.
            -- rewrite T4. reflexivity.
            -- rewrite T4. reflexivity.
            -- rewrite T4. nsimpl. rewrite (gr_state _ _ u Ga Hulen). fold state. exact Scost.
            -- rewrite T5. rewrite (gr_state _ _ u Ga Hulen). exact Scov.
          * left. exact Hin.
          * right. pose proof (gr_branch_on a u {| d_var := var; d_val := val |}) as Gab.
            exists t'. split; [eapply gr_next; eauto|eapply dpath_gr; eauto]. }
    apply G; [apply incl_refl|exact Hinv2|left; exact Sd].
  Qed.

  Lemma expand_node_Cinv var (m : mdd) id :
    Cinv (S (n_depth (gn m id))) m -> id < m_layer_end m ->
    (exists states, next_variable pb (n_depth (gn m id)) states = Some var) ->
    Cinv (S (n_depth (gn m id))) (expand_node st_eqb inp var m id) /\
    stable inp m (expand_node st_eqb inp var m id).
  Proof.
    intros (HD & HX & Hnd & HE) Hid Hvar.
    destruct (expand_node_inv st_eqb st_eqb_spec inp Hclean var m id HD HX Hid Hnd Hvar) as (X1 & X2 & X3 & X4).
    split; [|exact X3]. split; [exact X1|]. split; [exact X2|]. split; [exact X4|].
    assert (Hidlen : id < length (m_nodes m)) by (pose proof (D_le _ _ _ HD); lia).
    unfold expand_node. cbv zeta.
    set (state := n_state (gn m id)).
    set (m1 := upd_node m id (fun n => set_rub n (fast_upper_bound (ci_relax inp) state))).
    assert (Hc1 : ceq inp m m1) by (apply ceq_upd_node; intros n; apply core_eq_set_rub).
    assert (HE1 : Einv m1) by (eapply Einv_ceq; eauto).
    destruct (_ >? _)%Z; [|exact HE1].
    set (m2 := add_log m1 (EvDomain var state)).
    assert (Hc2 : ceq inp m m2) by (eapply ceq_trans; [exact Hc1|apply ceq_add_log]).
    set (dn := S (n_depth (gn m id))).
    assert (G : Cinv dn (fold_left (fun m0 val => branch_on st_eqb inp m0 id {| d_var := var; d_val := val |})
                          (domain (ci_problem inp) var state) m2) /\
                stable inp m (fold_left (fun m0 val => branch_on st_eqb inp m0 id {| d_var := var; d_val := val |})
                          (domain (ci_problem inp) var state) m2)).
    { apply (fold_left_inv (fun a => Cinv dn a /\ stable inp m a)).
      - split; [|apply ceq_stable; exact Hc2].
        split; [eapply Dg_ceq; eauto|]. split; [eapply Xinv_ceq; eauto|]. split; [|eapply Einv_ceq; eauto].
        intros k Hk. destruct Hc2 as ((_ & _ & _ & A4) & Hn & _). rewrite Hn in Hk.
        destruct (A4 k) as (_ & _ & _ & _ & _ & _ & c7). rewrite <- c7. apply Hnd; exact Hk.
      - intros a val Hval (Ca & Sa).
        pose proof Sa as (s1 & s2 & s3 & s4 & s5).
        destruct (s4 id Hidlen) as [Hs Hdp].
        assert (Hdn : dn = S (n_depth (gn a id))) by (unfold dn; rewrite Hdp; reflexivity).
        rewrite Hdn in Ca.
        destruct (branch_on_Cinv a id {| d_var := var; d_val := val |} Ca) as [C' S'].
        + rewrite s1. exact Hid.
        + rewrite Hs. apply In_in_domain. exact Hval.
        + rewrite Hdp. exact Hvar.
        + split; [rewrite Hdn; exact C'|eapply stable_trans; eauto]. }
    destruct G as ((_ & _ & _ & G) & _). exact G.
  Qed.

  (* ---------------------------------------------------------------- 2g. expanding a whole layer *)
  Lemma root_vtop m : Dinv inp m -> (rv <= n_vtop (gn m 0))%Z.
  Proof. intros HD. destruct (D_root _ _ _ HD) as (_ & _ & r3 & _). fold root in r3. unfold rv. lia. Qed.

  Lemma expand_layer_Cinv var l d : forall (m : mdd),
    Cinv (S d) m -> (forall id, In id l -> id < m_layer_end m /\ n_depth (gn m id) = d) ->
    (exists states, next_variable pb d states = Some var) ->
    Cinv (S d) (fold_left (expand_node st_eqb inp var) l m) /\
    stable inp m (fold_left (expand_node st_eqb inp var) l m) /\
    gr m (fold_left (expand_node st_eqb inp var) l m).
  Proof.
    intros m HC Hl Hv.
    apply (fold_left_inv (fun a => Cinv (S d) a /\ stable inp m a /\ gr m a)).
    - split; [exact HC|]. split; [apply stable_refl|apply gr_refl].
    - intros a id Hin (Ca & Sa & Ga).
      pose proof Sa as (s1 & s2 & s3 & s4 & s5).
      destruct (Hl id Hin) as [Hlt Hdp].
      assert (Hidlen : id < length (m_nodes m)).
      { destruct HC as (HD & _). pose proof (D_le _ _ _ HD). lia. }
      destruct (s4 id Hidlen) as [_ Hdp'].
      assert (Hd : n_depth (gn a id) = d) by congruence.
      destruct (expand_node_Cinv var a id) as [C' S'].
      + rewrite Hd. exact Ca.
      + rewrite s1. exact Hlt.
      + rewrite Hd. exact Hv.
      + rewrite Hd in C'. split; [exact C'|]. split; [eapply stable_trans; eauto|].
        eapply gr_trans; [exact Ga|apply gr_expand_node].
  Qed.

  Lemma expand_layer_track var l dd (m : mdd) u ds s' v' dval h :
    let d := {| d_var := var; d_val := dval |} in
    Cinv (S dd) m -> (forall id, In id l -> id < m_layer_end m /\ n_depth (gn m id) = dd) ->
    (exists states, next_variable pb dd states = Some var) ->
    In u l -> In u (nth (length ds) (m_layers m) []) ->
    dpath m 0 0 rs ds u s' -> frn rd rs rv ds = Some (s', v') -> rd + length ds <= N ->
    In dval (domain pb var s') ->
    H pb (rd + length ds) s' = Some h -> (lb < v' + h)%Z ->
    let m' := fold_left (expand_node st_eqb inp var) l m in
    exists t', In t' (m_next m') /\ dpath m' 0 0 rs (ds ++ [d]) t' (transition pb s' d).
  Proof.
    intros d HC Hl Hv Hu Hlay Hp Hr Hle Hdv Hh Hprom. cbv zeta.
    set (P := fun a : mdd => exists t', In t' (m_next a) /\ dpath a 0 0 rs (ds ++ [d]) t' (transition pb s' d)).
    assert (G : forall l0 a, incl l0 l -> Cinv (S dd) a -> stable inp m a -> gr m a ->
              (In u l0 \/ P a) -> P (fold_left (expand_node st_eqb inp var) l0 a)).
    { induction l0 as [|id l0 IH]; intros a Hincl Ca Sa Ga Hor; simpl.
      - destruct Hor as [[]|Hor]; exact Hor.
      - assert (Hid : In id l) by (apply Hincl; left; reflexivity).
        pose proof Sa as (s1 & s2 & s3 & s4 & s5).
        assert (Hlen : forall x, In x l -> x < length (m_nodes m)).
        { intros x Hx. destruct (Hl x Hx) as [Hlt _]. destruct HC as (HD & _). pose proof (D_le _ _ _ HD). lia. }
        assert (Hda : forall x, In x l -> n_depth (gn a x) = dd /\ x < m_layer_end a).
        { intros x Hx. destruct (Hl x Hx) as [Hlt Hdp]. destruct (s4 x (Hlen x Hx)) as [_ Hdp'].
          split; [congruence|rewrite s1; exact Hlt]. }
        destruct (Hda id Hid) as [Hd Hlt].
        destruct (expand_node_Cinv var a id) as [C' S'].
        { rewrite Hd. exact Ca. } { exact Hlt. } { rewrite Hd. exact Hv. }
        rewrite Hd in C'.
        pose proof (gr_expand_node var a id) as Gab.
        apply IH.
        + intros y Hy. apply Hincl. right; exact Hy.
        + exact C'.
        + eapply stable_trans; eauto.
        + eapply gr_trans; eauto.
        + destruct Hor as [[->|Hin]|(t' & Ht' & Hp')].
          * right. destruct (Hda u Hu) as [Hdu Hltu].
            apply (expand_node_track var a u ds s' v' dval h); auto.
            -- rewrite Hdu. exact Ca.
            -- rewrite Hdu. exact Hv.
            -- apply root_vtop. apply Ca.
            -- rewrite (gr_layers _ _ Ga). exact Hlay.
            -- eapply dpath_gr; eauto.
          * left; exact Hin.
          * right. exists t'. split; [eapply gr_next; eauto|eapply dpath_gr; eauto]. }
    apply G; auto; [apply incl_refl|apply stable_refl|apply gr_refl].
  Qed.

  (* ---------------------------------------------------------------- 2h. relax_layer *)
  Lemma gr_redirect_step merged mid (a : mdd) eid : gr a (redirect_step inp merged mid a eid).
  Proof. unfold redirect_step. cbv zeta. eapply gr_trans; [apply gr_add_log|apply gr_append_edge]. Qed.

  Lemma gr_drop_step merged mid (a : mdd) did : gr a (drop_step inp merged mid a did).
  Proof.
    unfold drop_step. rewrite redirect_edges_fold.
    set (a1 := upd_node a did (fun n => set_flags n (fl_set_deleted (n_flags n) true))).
    apply (gr_trans a a1); [unfold a1; apply gr_upd_node; intros; reflexivity|].
    apply gr_fold. intros; apply gr_redirect_step.
  Qed.

  Definition Rinv (mid : nat) (b : mdd) : Prop :=
    Einv b /\ m_layer_end b <= mid /\ mid < length (m_nodes b) /\ f_relaxed (n_flags (gn b mid)) = true.

  Lemma Rinv_redirect_step merged mid (b : mdd) eid :
    Rinv mid b -> eid < length (m_edges b) -> Rinv mid (redirect_step inp merged mid b eid).
  Proof.
    intros (HE & H1 & H2 & H3) He. unfold redirect_step. cbv zeta.
    match goal with |- Rinv mid (append_edge inp ?aa ?ee) => set (a1 := aa); set (e := ee) end.
    assert (HE1 : Einv a1) by (eapply Einv_frame; [| | | |exact HE]; try reflexivity; apply (E_le _ HE)).
    assert (Hnx : is_ex a1 mid = false).
    { unfold is_ex, fl_is_exact. change (gn a1 mid) with (gn b mid). rewrite H3. apply andb_false_r. }
    split; [|split; [|split]].
    - apply Einv_append_edge; unfold e; nsimpl; auto.
      + apply (E_from _ HE). exact He.
      + intros Hx. rewrite Hnx in Hx. discriminate.
    - exact H1.
    - msimpl. rewrite upd_nth_length. exact H2.
    - change mid with (e_to e). rewrite gn_append_same by exact H2. cbv zeta. nsimpl. exact H3.
  Qed.

  Lemma Rinv_upd_flag mid (b : mdd) id fl :
    (forall n, f_exact (fl n) = f_exact (n_flags n) /\ f_relaxed (fl n) = f_relaxed (n_flags n)) ->
    Rinv mid b -> Rinv mid (upd_node b id (fun n => set_flags n (fl n))).
  Proof.
    intros Hfl (HE & H1 & H2 & H3).
    assert (Hc : ceq inp b (upd_node b id (fun n => set_flags n (fl n)))).
    { apply ceq_upd_node. intros n. destruct (Hfl n). apply core_eq_set_flags_nc; assumption. }
    split; [eapply Einv_ceq; eauto|]. split; [exact H1|]. split; [msimpl; rewrite upd_nth_length; exact H2|].
    destruct Hc as ((_ & _ & _ & A4) & _). destruct (A4 mid) as (_ & _ & _ & _ & _ & c6 & _). congruence.
  Qed.

  Lemma Rinv_drop_step merged mid (b : mdd) did :
    Rinv mid b -> did < length (m_nodes b) -> Rinv mid (drop_step inp merged mid b did).
  Proof.
    intros HR Hd. unfold drop_step. rewrite redirect_edges_fold.
    set (b1 := upd_node b did (fun n => set_flags n (fl_set_deleted (n_flags n) true))).
    assert (HR1 : Rinv mid b1) by (apply (Rinv_upd_flag mid b did (fun n => fl_set_deleted (n_flags n) true)); auto).
    assert (Hd1 : did < length (m_nodes b1)) by (unfold b1; msimpl; rewrite upd_nth_length; exact Hd).
    assert (Hall : forall eid, In eid (n_inb (gn b1 did)) -> eid < length (m_edges b1)).
    { intros eid Hin. destruct HR1 as (HE1 & _). apply (E_inb _ HE1 did eid Hd1 Hin). }
    apply (fold_left_inv (fun a => Rinv mid a /\ gr b1 a)).
    - split; [exact HR1|apply gr_refl].
    - intros a eid Hin (Ra & Ga). split.
      + apply Rinv_redirect_step; [exact Ra|]. pose proof (gr_edges_len _ _ Ga). specialize (Hall eid Hin). lia.
      + eapply gr_trans; [exact Ga|apply gr_redirect_step].
  Qed.
