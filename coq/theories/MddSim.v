(* MddSim.v — semantic theorems about Mdd.compile for the clean flavours (CleanLEL, CleanFC):
   C06 (a relaxed diagram is a valid upper bound and claims exactness truthfully), C07 (declared-exact /
   exact-mode diagrams give the optimum), C08 (iii) (cut-set upper bounds are valid) and (iv) (the cut-set
   covers what remains).  Everything is Qed; no axiom (see the Print Assumptions at the end).

   Setting (Section Sim): inp with a clean flavour, no cache, no dominance rule, no cutoff, width >= 1,
   sp_depth root <= N, static variable order (nv_static / nv_some / nv_none), a well-formed model
   (cov: cov_refl, cov_sim, merge_cov, relax_ge, rub_adm) and ONE arithmetic guard stated on the MODEL
   only: every feasible partial run from the root has a value in [-B, B] with 2B <= IMAX (Hguard; see
   frun_bounded / frun_length for how bounded transition costs discharge it).  Nothing is assumed about the
   values stored in the diagram: relaxed values may saturate, the proofs only use clampZ_mono.

   Main definitions
     frun pb k s v ds      feasible run: decision j is on the variable of depth k+j and in the domain
     vstar                 oadd (sp_value root) (H pb (sp_depth root) (sp_state root))  (= opt_enum_from, vstar_opt_enum)
     dpath m i c sc ds t s'  a path of arcs of m from node c (layer i) to node t following the true run ds
                           from state sc: each arc carries the decision, costs at least the true cost, and
                           its target covers the true state
     Einv / Ninv           arc-level and node-level invariants of a diagram under compilation
     Linv / Post           invariant of the layer loop and what it yields at LoopDone: tracking of every
                           promising completion from the root (Tinv) and from every expanded node (UTinv)
   Main theorems
     S1_relaxed_upper_bound, S2_exact_truthful, S2_exact_mode, S3_cutset_ub, S4_cutset_covers
     K2_holds, K3_ub_holds, K4_holds (+ K4_ub_holds)   the contracts of SolverProofs.v *)
Require Import DDO.Base DDO.Fringe DDO.DP DDO.Cache DDO.Dom DDO.Mdd DDO.Viz DDO.MddStruct DDO.MddExact.
Local Open Scope Z_scope.

(* ------------------------------------------------------------------ generic list / fold facts *)
Lemma fold_left_hit {A B} (Inv P : A -> Prop) (f : A -> B -> A) (l : list B) (a : A) (x : B) :
  In x l -> Inv a ->
  (forall a y, In y l -> Inv a -> Inv (f a y)) ->
  (forall a, Inv a -> P (f a x)) ->
  (forall a y, In y l -> Inv a -> P a -> P (f a y)) ->
  P (fold_left f l a).
Proof.
  intros Hin Ha Hinv Hx Hp.
  assert (G : forall l0 a0, incl l0 l -> Inv a0 -> (In x l0 \/ P a0) -> P (fold_left f l0 a0)).
  { induction l0 as [|y l0 IH]; intros a0 Hincl I0 Hor; simpl.
    - destruct Hor as [[]|Hor]; exact Hor.
    - assert (Hy : In y l) by (apply Hincl; left; reflexivity).
      apply IH.
      + intros z Hz. apply Hincl. right; exact Hz.
      + apply Hinv; assumption.
      + destruct Hor as [[->|Hor]|Hor].
        * right. apply Hx; assumption.
        * left; exact Hor.
        * right. apply Hp; assumption. }
  apply G; auto. apply incl_refl.
Qed.

Lemma fold_left_inv2 {A B} (Inv : A -> Prop) (f : A -> B -> A) (l : list B) (a : A) :
  Inv a -> (forall a y, Inv a -> Inv (f a y)) -> Inv (fold_left f l a).
Proof. intros Ha H. revert a Ha. induction l; simpl; auto. Qed.

Lemma app_snoc_cases {A} (ds : list A) d ds1 ds2 :
  ds ++ [d] = ds1 ++ ds2 ->
  (ds2 = [] /\ ds1 = ds ++ [d]) \/ exists ds2', ds2 = ds2' ++ [d] /\ ds = ds1 ++ ds2'.
Proof.
  intros H. destruct (rev ds2) as [|x r] eqn:E.
  - left. assert (ds2 = []) by (rewrite <- (rev_involutive ds2), E; reflexivity). subst.
    rewrite app_nil_r in H. auto.
  - right. assert (E2 : ds2 = rev r ++ [x]) by (rewrite <- (rev_involutive ds2), E; reflexivity).
    subst ds2. rewrite app_assoc in H. apply app_inj_tail in H. destruct H as [H1 H2]. subst.
    exists (rev r). auto.
Qed.

Lemma clamp_ge z w : in_isize w -> w <= z -> w <= clampZ z.
Proof. intros Hw Hle. rewrite <- (clampZ_id w Hw). apply clampZ_mono; exact Hle. Qed.

Lemma sat_add_ge a b w : in_isize w -> w <= a + b -> w <= sat_add a b.
Proof. apply clamp_ge. Qed.

(* ================================================================== 1. feasible runs and H *)
Section Sem.
  Context {St : Type}.
  Variable pb : problem St.
  Let N := nb_vars pb.
  Hypothesis nv_static : forall k l1 l2, next_variable pb k l1 = next_variable pb k l2.
  Hypothesis nv_some : forall k l, (k < N)%nat -> exists x, next_variable pb k l = Some x.
  Hypothesis nv_none : forall k l, (N <= k)%nat -> next_variable pb k l = None.

  Definition var_ok (k : nat) (d : decision) : bool :=
    match next_variable pb k [] with Some x => Nat.eqb x (d_var d) | None => false end.

  (* a feasible run: each decision is on the variable of its depth and in the domain *)
  Fixpoint frun (k : nat) (s : St) (v : Z) (ds : list decision) : option (St * Z) :=
    match ds with
    | [] => Some (s, v)
    | d :: ds' =>
        if var_ok k d && in_domain pb s d then
          let s' := transition pb s d in frun (S k) s' (v + transition_cost pb s s' d) ds'
        else None
    end.

  Lemma frun_app ds1 : forall k s v ds2,
    frun k s v (ds1 ++ ds2) =
    match frun k s v ds1 with Some (s1, v1) => frun (k + length ds1) s1 v1 ds2 | None => None end.
  Proof.
    induction ds1 as [|d ds1 IH]; intros k s v ds2; simpl.
    - rewrite Nat.add_0_r. reflexivity.
    - destruct (var_ok k d && in_domain pb s d); auto. rewrite IH.
      replace (k + S (length ds1))%nat with (S k + length ds1)%nat by lia. reflexivity.
  Qed.

  Lemma frun_shift ds : forall k s v a s' v',
    frun k s v ds = Some (s', v') -> frun k s (v + a) ds = Some (s', v' + a).
  Proof.
    induction ds as [|d ds IH]; intros k s v a s' v' H; simpl in *.
    - inversion H; subst; reflexivity.
    - destruct (var_ok k d && in_domain pb s d); [|discriminate].
      replace (v + a + transition_cost pb s (transition pb s d) d)
        with (v + transition_cost pb s (transition pb s d) d + a) by lia.
      apply IH; exact H.
  Qed.

  Lemma frun_replay ds : forall k s v r, frun k s v ds = Some r -> replay pb ds s v = Some r.
  Proof.
    induction ds as [|d ds IH]; intros k s v r H; simpl in *; auto.
    destruct (var_ok k d); simpl in H; [|discriminate].
    destruct (in_domain pb s d); [|discriminate]. unfold step. eapply IH; eauto.
  Qed.

  Lemma in_domain_In s d : in_domain pb s d = true -> In (d_val d) (domain pb (d_var d) s).
  Proof.
    unfold in_domain. intros H. apply existsb_exists in H. destruct H as (x & Hx & He).
    apply Z.eqb_eq in He. subst. exact Hx.
  Qed.
  Lemma In_in_domain s d : In (d_val d) (domain pb (d_var d) s) -> in_domain pb s d = true.
  Proof. intros H. unfold in_domain. apply existsb_exists. exists (d_val d). split; [exact H|apply Z.eqb_refl]. Qed.

  Lemma var_ok_spec k d l : var_ok k d = true <-> next_variable pb k l = Some (d_var d).
  Proof.
    unfold var_ok. rewrite (nv_static k l []). destruct (next_variable pb k []) as [x|].
    - rewrite Nat.eqb_eq. split; [intros ->; reflexivity|intros H; inversion H; reflexivity].
    - split; discriminate.
  Qed.

  (* ---------------------------------------------------------------- the fold of hstar *)
  Lemma fold_omax_ge (f : Z -> option Z) (l : list Z) x y :
    In x l -> f x = Some y ->
    exists h, fold_right (fun val acc => omax (f val) acc) None l = Some h /\ y <= h.
  Proof.
    induction l as [|z l IH]; intros Hin Hf; [destruct Hin|]. simpl.
    destruct Hin as [->|Hin].
    - rewrite Hf. destruct (fold_right _ None l) as [m|]; simpl.
      + exists (Z.max y m). split; [reflexivity|lia].
      + exists y. split; [reflexivity|lia].
    - destruct (IH Hin Hf) as (h & Hh & Hle). rewrite Hh.
      destruct (f z) as [c|]; simpl.
      + exists (Z.max c h). split; [reflexivity|lia].
      + exists h. auto.
  Qed.

  Lemma fold_omax_attained (f : Z -> option Z) (l : list Z) h :
    fold_right (fun val acc => omax (f val) acc) None l = Some h ->
    exists x, In x l /\ f x = Some h.
  Proof.
    revert h. induction l as [|z l IH]; intros h H; simpl in H; [discriminate|].
    destruct (f z) as [c|] eqn:Ef; destruct (fold_right _ None l) as [m|] eqn:Em; simpl in H; inversion H; subst.
    - destruct (Z.max_spec c m) as [[_ E]|[_ E]]; rewrite E.
      + destruct (IH m eq_refl) as (x & Hx & Hfx). exists x. split; [right; exact Hx|exact Hfx].
      + exists z. split; [left; reflexivity|exact Ef].
    - exists z. split; [left; reflexivity|exact Ef].
    - destruct (IH h eq_refl) as (x & Hx & Hfx). exists x. split; [right; exact Hx|exact Hfx].
  Qed.

  Lemma H_end k s : (N <= k)%nat -> H pb k s = Some 0.
  Proof.
    intros Hk. unfold H. fold N. destruct (S N - k)%nat eqn:E; [reflexivity|].
    simpl. rewrite nv_none by exact Hk. reflexivity.
  Qed.

  Lemma H_step k s x : (k < N)%nat -> next_variable pb k [s] = Some x ->
    H pb k s = fold_right (fun val acc =>
                 let d := {| d_var := x; d_val := val |} in
                 let s' := transition pb s d in
                 omax (oadd (transition_cost pb s s' d) (H pb (S k) s')) acc) None (domain pb x s).
  Proof.
    intros Hk Hx. unfold H. fold N. replace (S N - k)%nat with (S (S N - S k))%nat by lia.
    cbn [hstar]. rewrite Hx. reflexivity.
  Qed.

  (* every full feasible run is dominated by H *)
  Lemma frun_le_H ds : forall k s v s' v',
    (k + length ds = N)%nat -> frun k s v ds = Some (s', v') ->
    exists h, H pb k s = Some h /\ v' <= v + h.
  Proof.
    induction ds as [|d ds IH]; intros k s v s' v' Hlen Hr; simpl in *.
    - inversion Hr; subst. exists 0. split; [apply H_end; lia|lia].
    - destruct (var_ok k d) eqn:Ev; simpl in Hr; [|discriminate].
      destruct (in_domain pb s d) eqn:Ed; [|discriminate].
      apply (var_ok_spec k d [s]) in Ev. apply in_domain_In in Ed.
      destruct (IH (S k) _ _ s' v' ltac:(lia) Hr) as (h1 & Hh1 & Hle1).
      rewrite (H_step k s (d_var d)) by (auto; lia).
      set (f := fun val => let d0 := {| d_var := d_var d; d_val := val |} in
                 oadd (transition_cost pb s (transition pb s d0) d0) (H pb (S k) (transition pb s d0))).
      destruct (fold_omax_ge f (domain pb (d_var d) s) (d_val d)
                  (transition_cost pb s (transition pb s d) d + h1) Ed) as (h & Hh & Hle).
      { unfold f. cbv zeta. destruct d as [x val]. simpl. rewrite Hh1. reflexivity. }
      exists h. split; [exact Hh|lia].
  Qed.

  (* H is attained by a full feasible run *)
  Lemma H_attained n : forall k s v h, (N - k = n)%nat -> (k <= N)%nat -> H pb k s = Some h ->
    exists ds s', frun k s v ds = Some (s', v + h) /\ (k + length ds = N)%nat.
  Proof.
    induction n as [|n IH]; intros k s v h Hn Hk Hh.
    - rewrite H_end in Hh by lia. inversion Hh; subst. exists [], s. simpl. split; [f_equal; f_equal; lia|lia].
    - assert (Hlt : (k < N)%nat) by lia.
      destruct (nv_some k [s] Hlt) as [x Hx].
      rewrite (H_step k s x Hlt Hx) in Hh.
      apply fold_omax_attained in Hh. destruct Hh as (val & Hin & Hf). cbv zeta in Hf.
      set (d := {| d_var := x; d_val := val |}) in *.
      destruct (H pb (S k) (transition pb s d)) as [h1|] eqn:E1; [|discriminate].
      simpl in Hf. inversion Hf; subst h.
      destruct (IH (S k) (transition pb s d) (v + transition_cost pb s (transition pb s d) d) h1)
        as (ds & s' & Hr & Hl); [lia|lia|exact E1|].
      exists (d :: ds), s'. split; [|simpl; lia].
      simpl. assert (Ev : var_ok k d = true) by (apply (var_ok_spec k d [s]); exact Hx).
      rewrite Ev. rewrite (In_in_domain s d) by exact Hin. simpl. rewrite Hr. f_equal. f_equal. lia.
  Qed.

  (* the last state of a run only depends on the decisions *)
  Lemma frun_state ds : forall k s v s' v', frun k s v ds = Some (s', v') ->
    s' = fold_left (transition pb) ds s.
  Proof.
    induction ds as [|d ds IH]; intros k s v s' v' H; simpl in *.
    - inversion H; reflexivity.
    - destruct (var_ok k d && in_domain pb s d); [|discriminate]. eapply IH; eauto.
  Qed.

  (* how the arithmetic guard of Section Sim is discharged: with transition costs bounded by C, every
     feasible run of r decisions from value v stays within v -+ C * r (and r <= N - k) *)
  Lemma frun_bounded C :
    (forall s d, - C <= transition_cost pb s (transition pb s d) d <= C) ->
    forall ds k s v s' v', frun k s v ds = Some (s', v') ->
    v - C * Z.of_nat (length ds) <= v' <= v + C * Z.of_nat (length ds).
  Proof.
    intros HC. induction ds as [|d ds IH]; intros k s v s' v' H; simpl in H.
    - inversion H; subst. simpl. lia.
    - destruct (var_ok k d && in_domain pb s d); [|discriminate].
      specialize (IH _ _ _ _ _ H). specialize (HC s d).
      change (length (d :: ds)) with (S (length ds)). rewrite Nat2Z.inj_succ. nia.
  Qed.

  Lemma frun_length ds : forall k s v r, frun k s v ds = Some r -> (k <= N -> k + length ds <= N)%nat.
  Proof.
    induction ds as [|d ds IH]; intros k s v r Hr Hk; simpl in *; [lia|].
    destruct (var_ok k d) eqn:Ev; simpl in Hr; [|discriminate].
    destruct (in_domain pb s d); [|discriminate].
    assert (Hlt : (k < N)%nat).
    { destruct (Nat.lt_ge_cases k N) as [H1|H1]; [exact H1|].
      unfold var_ok in Ev. rewrite nv_none in Ev by exact H1. discriminate. }
    specialize (IH (S k) _ _ r Hr Hlt). lia.
  Qed.

  (* the exhaustive enumeration of DP.v computes the same optimum as the Bellman recursion *)
  Lemma zmax_list_app l1 l2 : zmax_list (l1 ++ l2) = omax (zmax_list l1) (zmax_list l2).
  Proof.
    induction l1 as [|x l1 IH]; simpl; [destruct (zmax_list l2); reflexivity|].
    rewrite IH. destruct (zmax_list l1) as [a|]; destruct (zmax_list l2) as [b|]; simpl; auto.
    f_equal. lia.
  Qed.

  Lemma enum_hstar fuel : forall k s v,
    zmax_list (map snd (enum_from pb fuel k s v)) = oadd v (hstar pb fuel k s).
  Proof.
    induction fuel as [|fuel IH]; intros k s v; simpl.
    - f_equal. lia.
    - destruct (next_variable pb k [s]) as [x|]; [|simpl; f_equal; lia].
      induction (domain pb x s) as [|val dom IHd]; simpl; [reflexivity|].
      rewrite map_app, zmax_list_app, IHd. unfold step.
      rewrite map_map.
      assert (E : map (fun p : list decision * Z => snd (let '(ds, w) := p in ({| d_var := x; d_val := val |} :: ds, w)))
                    (enum_from pb fuel (S k) (transition pb s {| d_var := x; d_val := val |})
                       (v + transition_cost pb s (transition pb s {| d_var := x; d_val := val |}) {| d_var := x; d_val := val |}))
                = map snd (enum_from pb fuel (S k) (transition pb s {| d_var := x; d_val := val |})
                       (v + transition_cost pb s (transition pb s {| d_var := x; d_val := val |}) {| d_var := x; d_val := val |}))).
      { apply map_ext. intros [ds w]. reflexivity. }
      rewrite E, IH.
      destruct (hstar pb fuel (S k) (transition pb s {| d_var := x; d_val := val |})) as [h|]; simpl.
      + match goal with |- context [fold_right ?f None dom] => destruct (fold_right f None dom) as [a|] end; simpl.
        * f_equal. lia.
        * f_equal. lia.
      + match goal with |- context [fold_right ?f None dom] => destruct (fold_right f None dom) as [a|] end; reflexivity.
  Qed.

  Lemma opt_enum_from_H k s v : opt_enum_from pb k s v = oadd v (H pb k s).
  Proof. unfold opt_enum_from, H. apply enum_hstar. Qed.

  Lemma frun_snoc k s v ds d s1 v1 :
    frun k s v ds = Some (s1, v1) ->
    frun k s v (ds ++ [d]) =
      if var_ok (k + length ds) d && in_domain pb s1 d
      then Some (transition pb s1 d, v1 + transition_cost pb s1 (transition pb s1 d) d) else None.
  Proof. intros H. rewrite frun_app, H. reflexivity. Qed.
End Sem.

(* ================================================================== 2. the simulation argument *)
Local Open Scope nat_scope.

Local Ltac msimpl :=
  cbn [m_nodes m_edges m_layers m_layer_end m_next m_curr_depth m_path m_lel m_cutset m_best
       m_best_exact m_is_exact m_has_ebp m_cache m_dom m_log m_polls m_crash
       with_nodes upd_node add_log set_crash with_next with_cache with_dom with_lel_exact
       push_layer with_depth with_polls with_best with_cutset append_edge].
Local Ltac msimpl_in H :=
  cbn [m_nodes m_edges m_layers m_layer_end m_next m_curr_depth m_path m_lel m_cutset m_best
       m_best_exact m_is_exact m_has_ebp m_cache m_dom m_log m_polls m_crash
       with_nodes upd_node add_log set_crash with_next with_cache with_dom with_lel_exact
       push_layer with_depth with_polls with_best with_cutset append_edge] in H.
Local Ltac nsimpl :=
  cbn [n_state n_vtop n_vbot n_best n_inb n_rub n_theta n_flags n_depth
       set_flags set_theta set_vbot set_rub set_depth
       f_exact f_relaxed f_marked f_cutset f_deleted f_cache f_above
       fl_set_exact fl_set_relaxed fl_set_marked fl_set_cutset fl_set_deleted fl_set_cache fl_set_above
       fl_new_exact fl_new_relaxed e_from e_to e_dec e_cost].
Local Ltac nsimpl_in H :=
  cbn [n_state n_vtop n_vbot n_best n_inb n_rub n_theta n_flags n_depth
       set_flags set_theta set_vbot set_rub set_depth
       f_exact f_relaxed f_marked f_cutset f_deleted f_cache f_above
       fl_set_exact fl_set_relaxed fl_set_marked fl_set_cutset fl_set_deleted fl_set_cache fl_set_above
       fl_new_exact fl_new_relaxed e_from e_to e_dec e_cost] in H.

Section Sim.
  Context {St : Type}.
  Variable st_eqb : St -> St -> bool.
  Hypothesis st_eqb_spec : forall a b, st_eqb a b = true <-> a = b.
  Variable inp : @cinput St.
  Let pb := ci_problem inp.
  Let rlx := ci_relax inp.
  Let root := ci_root inp.
  Let lb := ci_best_lb inp.
  Let N := nb_vars pb.
  Let rd := sp_depth root.
  Let rs := sp_state root.
  Let rv := sp_value root.
  Hypothesis Hclean : ci_flavour inp = CleanLEL \/ ci_flavour inp = CleanFC.
  Hypothesis Hnocache : ci_use_cache inp = false.
  Hypothesis Hnodom : ci_domrule inp = None.
  Hypothesis Hnocut : ci_cutoff inp = 0.
  Hypothesis Hwidth : 1 <= ci_width inp.
  Hypothesis Hrd : rd <= N.
  Hypothesis nv_static : forall k l1 l2, next_variable pb k l1 = next_variable pb k l2.
  Hypothesis nv_some : forall k l, k < N -> exists x, next_variable pb k l = Some x.
  Hypothesis nv_none : forall k l, N <= k -> next_variable pb k l = None.
  (* the well-formed model *)
  Variable cov : St -> St -> Prop.
  Hypothesis cov_refl : forall s, cov s s.
  Hypothesis cov_sim : forall s s' x v, cov s s' -> In v (domain pb x s') ->
    let d := {| d_var := x; d_val := v |} in
    In v (domain pb x s) /\ cov (transition pb s d) (transition pb s' d) /\
    (transition_cost pb s' (transition pb s' d) d <= transition_cost pb s (transition pb s d) d)%Z.
  Hypothesis merge_cov : forall L s s', In s L -> cov s s' -> cov (merge rlx L) s'.
  Hypothesis relax_ge : forall src dst mg d c, (c <= relax rlx src dst mg d c)%Z.
  Hypothesis rub_adm : forall k s s' h, cov s s' -> H pb k s' = Some h -> (h <= fast_upper_bound rlx s)%Z.
  (* arithmetic guard (model level): every feasible partial run from the root stays within [-B, B],
     and 2B fits in an isize.  Nothing is assumed on the values stored in the diagram. *)
  Variable B : Z.
  Hypothesis HB : (2 * B <= IMAX)%Z.
  Hypothesis Hguard : forall ds s' v', frun pb rd rs rv ds = Some (s', v') -> (- B <= v' <= B)%Z.

  Notation mdd := (@mdd St).
  Notation node := (@node St).
  Notation gn := (get_node inp).
  Notation frn := (frun pb).

  Lemma guard_isize ds s' v' : frn rd rs rv ds = Some (s', v') -> in_isize v'.
  Proof. intros H. apply Hguard in H. unfold in_isize, IMIN, IMAX in *. lia. Qed.

  Definition is_ex (m : mdd) (id : nat) : bool := fl_is_exact (n_flags (gn m id)).

  (* ---------------------------------------------------------------- 2a. growth *)
  Definition inbinc (m m' : mdd) : Prop := forall x, incl (n_inb (gn m x)) (n_inb (gn m' x)).
  Definition gr (m m' : mdd) : Prop := ext inp m m' /\ inbinc m m'.

  Lemma inbinc_refl m : inbinc m m.
  Proof. intros x; apply incl_refl. Qed.
  Lemma inbinc_trans a b c : inbinc a b -> inbinc b c -> inbinc a c.
  Proof. intros H1 H2 x. eapply incl_tran; [apply H1|apply H2]. Qed.
  Lemma gr_refl m : gr m m.
  Proof. split; [apply ext_refl|apply inbinc_refl]. Qed.
  Lemma gr_trans a b c : gr a b -> gr b c -> gr a c.
  Proof. intros [E1 I1] [E2 I2]. split; [eapply ext_trans; eauto|eapply inbinc_trans; eauto]. Qed.

  Lemma inbinc_same_nodes (m m' : mdd) : m_nodes m' = m_nodes m -> inbinc m m'.
  Proof. intros H x. unfold get_node. rewrite H. apply incl_refl. Qed.

  Lemma inbinc_upd_node (m : mdd) id f : (forall n, n_inb (f n) = n_inb n) -> inbinc m (upd_node m id f).
  Proof.
    intros Hf x. destruct (Nat.eq_dec id x) as [->|Hne].
    - destruct (Nat.lt_ge_cases x (length (m_nodes m))) as [Hlt|Hge].
      + rewrite gn_upd_same by exact Hlt. rewrite Hf. apply incl_refl.
      + rewrite gn_upd_out by exact Hge. apply incl_refl.
    - rewrite gn_upd_other by exact Hne. apply incl_refl.
  Qed.

  Lemma inbinc_append_edge (m : mdd) e : inbinc m (append_edge inp m e).
  Proof.
    intros x. destruct (Nat.eq_dec x (e_to e)) as [->|Hne].
    - destruct (Nat.lt_ge_cases (e_to e) (length (m_nodes m))) as [Hlt|Hge].
      + rewrite gn_append_same by exact Hlt. cbv zeta. nsimpl. apply incl_tl, incl_refl.
      + unfold get_node. msimpl. rewrite upd_nth_out by exact Hge. apply incl_refl.
    - rewrite gn_append_other by exact Hne. apply incl_refl.
  Qed.

  Lemma inbinc_snoc (m : mdd) n : inbinc m (with_nodes m (m_nodes m ++ [n])).
  Proof.
    intros x. destruct (Nat.lt_ge_cases x (length (m_nodes m))) as [Hlt|Hge].
    - rewrite gn_snoc_old by exact Hlt. apply incl_refl.
    - rewrite (gn_out_of_range inp m x Hge). intros y [].
  Qed.

  Lemma gr_add_log (m : mdd) ev : gr m (add_log m ev).
  Proof. split; [apply ext_add_log|apply inbinc_same_nodes; reflexivity]. Qed.
  Lemma gr_upd_node (m : mdd) id f :
    (forall n, n_state (f n) = n_state n) -> (forall n, n_inb (f n) = n_inb n) -> gr m (upd_node m id f).
  Proof. intros H1 H2. split; [apply ext_upd_node; exact H1|apply inbinc_upd_node; exact H2]. Qed.
  Lemma gr_append_edge (m : mdd) e : gr m (append_edge inp m e).
  Proof. split; [apply ext_append_edge|apply inbinc_append_edge]. Qed.
  Lemma gr_snoc (m : mdd) n : gr m (with_nodes m (m_nodes m ++ [n])).
  Proof. split; [apply ext_with_nodes_app|apply inbinc_snoc]. Qed.
  Lemma gr_with_next_app (m : mdd) k : gr m (with_next m (m_next m ++ k)).
  Proof. split; [apply ext_with_next_app|apply inbinc_same_nodes; reflexivity]. Qed.

  Lemma gr_fold {X} (f : mdd -> X -> mdd) l m : (forall a x, gr a (f a x)) -> gr m (fold_left f l m).
  Proof.
    intros Hf. revert m. induction l as [|x l IH]; intros m; simpl; [apply gr_refl|].
    eapply gr_trans; [apply Hf|apply IH].
  Qed.

  Lemma gr_branch_on m id d : gr m (branch_on st_eqb inp m id d).
  Proof.
    unfold branch_on. cbv zeta.
    match goal with |- context [find_next ?a ?b ?c ?d] => destruct (find_next a b c d) end.
    - eapply gr_trans; [apply gr_add_log|]. eapply gr_trans; [apply gr_add_log|]. apply gr_append_edge.
    - eapply gr_trans; [apply gr_add_log|]. eapply gr_trans; [apply gr_add_log|].
      eapply gr_trans; [apply gr_snoc|]. eapply gr_trans; [apply gr_append_edge|].
      apply (gr_with_next_app _ [_]).
  Qed.

  Lemma gr_expand_node var m id : gr m (expand_node st_eqb inp var m id).
  Proof.
    unfold expand_node. cbv zeta. destruct (_ >? _)%Z.
    - eapply gr_trans; [|apply gr_fold; intros; apply gr_branch_on].
      eapply gr_trans; [|apply gr_add_log]. apply gr_upd_node; reflexivity.
    - apply gr_upd_node; reflexivity.
  Qed.

  Lemma gr_ceq m m' : ceq inp m m' -> ext inp m m' -> gr m m'.
  Proof.
    intros ((_ & _ & _ & A4) & _) He. split; [exact He|].
    intros x. destruct (A4 x) as (_ & _ & _ & c4 & _). rewrite c4. apply incl_refl.
  Qed.

  (* facts a growth step transports *)
  Lemma gr_edge m m' eid : gr m m' -> eid < length (m_edges m) -> get_edge m' eid = get_edge m eid.
  Proof.
    intros [E _] H. destruct (ext_edges _ _ _ E) as [k Hk]. unfold get_edge. rewrite Hk.
    apply app_nth1. exact H.
  Qed.
  Lemma gr_state m m' id : gr m m' -> id < length (m_nodes m) -> n_state (gn m' id) = n_state (gn m id).
  Proof. intros [E _] H. apply (ext_state _ _ _ E). exact H. Qed.
  Lemma gr_nodes m m' : gr m m' -> length (m_nodes m) <= length (m_nodes m').
  Proof. intros [E _]. apply (ext_nodes _ _ _ E). Qed.
  Lemma gr_edges_len m m' : gr m m' -> length (m_edges m) <= length (m_edges m').
  Proof. intros [E _]. destruct (ext_edges _ _ _ E) as [k Hk]. rewrite Hk, app_length. lia. Qed.
  Lemma gr_next m m' x : gr m m' -> In x (m_next m) -> In x (m_next m').
  Proof. intros [E _] H. destruct (ext_next _ _ _ E) as [k Hk]. rewrite Hk. apply in_or_app. left; exact H. Qed.
  Lemma gr_layers m m' : gr m m' -> m_layers m' = m_layers m.
  Proof. intros [E _]. apply (ext_layers _ _ _ E). Qed.

  (* ---------------------------------------------------------------- 2b. diagram paths following a true trajectory *)
  Inductive dpath (m : mdd) : nat -> nat -> St -> list decision -> nat -> St -> Prop :=
  | dp_nil : forall i u s, u < length (m_nodes m) -> cov (n_state (gn m u)) s -> dpath m i u s [] u s
  | dp_snoc : forall i u s ds t s' d eid t',
      dpath m i u s ds t s' ->
      In t (nth (i + length ds) (m_layers m) []) ->
      t' < length (m_nodes m) -> eid < length (m_edges m) -> In eid (n_inb (gn m t')) ->
      e_from (get_edge m eid) = t -> e_dec (get_edge m eid) = d ->
      (transition_cost pb s' (transition pb s' d) d <= e_cost (get_edge m eid))%Z ->
      cov (n_state (gn m t')) (transition pb s' d) ->
      dpath m i u s (ds ++ [d]) t' (transition pb s' d).

  Lemma dpath_cov m i u s ds t s' : dpath m i u s ds t s' -> cov (n_state (gn m t)) s'.
  Proof. intros H. destruct H; auto. Qed.
  Lemma dpath_range m i u s ds t s' : dpath m i u s ds t s' -> t < length (m_nodes m).
  Proof. intros H. destruct H; auto. Qed.
  Lemma dpath_state m i u s ds t s' : dpath m i u s ds t s' -> s' = fold_left (transition pb) ds s.
  Proof. intros H. induction H; [reflexivity|]. rewrite fold_left_app. simpl. congruence. Qed.

  Lemma nth_layers_app (ls : list (list nat)) x i t : In t (nth i ls []) -> In t (nth i (ls ++ [x]) []).
  Proof.
    intros H. destruct (Nat.lt_ge_cases i (length ls)) as [Hlt|Hge].
    - rewrite app_nth1 by exact Hlt. exact H.
    - rewrite nth_overflow in H by exact Hge. destruct H.
  Qed.

  (* transport along: growth, then possibly one more pushed layer *)
  Lemma dpath_transport m m' i u s ds t s' :
    dpath m i u s ds t s' ->
    length (m_nodes m) <= length (m_nodes m') ->
    (forall x, x < length (m_nodes m) -> n_state (gn m' x) = n_state (gn m x)) ->
    (forall x, incl (n_inb (gn m x)) (n_inb (gn m' x))) ->
    length (m_edges m) <= length (m_edges m') ->
    (forall eid, eid < length (m_edges m) -> get_edge m' eid = get_edge m eid) ->
    (forall k x, In x (nth k (m_layers m) []) -> In x (nth k (m_layers m') [])) ->
    dpath m' i u s ds t s'.
  Proof.
    intros Hp Hn Hs Hi He Hg Hl. induction Hp.
    - apply dp_nil; [lia|]. rewrite Hs by assumption. assumption.
    - apply (dp_snoc m' i u s ds t s' d eid t'); auto; try lia.
      + apply Hi. assumption.
      + rewrite Hg by assumption. assumption.
      + rewrite Hg by assumption. assumption.
      + rewrite Hg by assumption. assumption.
      + rewrite Hs by assumption. assumption.
  Qed.

  Lemma dpath_gr m m' i u s ds t s' : gr m m' -> dpath m i u s ds t s' -> dpath m' i u s ds t s'.
  Proof.
    intros G Hp. eapply dpath_transport; eauto.
    - apply gr_nodes; auto.
    - intros; apply gr_state; auto.
    - apply G.
    - apply gr_edges_len; auto.
    - intros; apply gr_edge; auto.
    - intros k x. rewrite (gr_layers _ _ G). auto.
  Qed.

  Lemma dpath_peq m m' i u s ds t s' :
    peq inp m m' -> (forall k x, In x (nth k (m_layers m) []) -> In x (nth k (m_layers m') [])) ->
    dpath m i u s ds t s' -> dpath m' i u s ds t s'.
  Proof.
    intros (A1 & A2 & A3 & A4) Hl Hp. eapply dpath_transport; eauto; try lia.
    - intros x _. destruct (A4 x) as (c1 & _). congruence.
    - intros x. destruct (A4 x) as (_ & _ & _ & c4 & _). rewrite c4. apply incl_refl.
    - rewrite A1. lia.
    - intros eid _. apply ge_edges_eq. exact A1.
  Qed.

  Lemma dpath_split m i u s ds t s' : dpath m i u s ds t s' -> forall ds1 ds2, ds = ds1 ++ ds2 ->
    exists c sc, dpath m i u s ds1 c sc /\ dpath m (i + length ds1) c sc ds2 t s'.
  Proof.
    intros Hp. induction Hp as [i u s Hu Hc|i u s ds t s' d eid t' Hp IH Hlay Ht' He Hin Hf Hd Hcost Hcov];
      intros ds1 ds2 E.
    - symmetry in E. apply app_eq_nil in E. destruct E as [-> ->].
      exists u, s. split; apply dp_nil; auto.
    - apply app_snoc_cases in E. destruct E as [[-> ->]|(ds2' & -> & ->)].
      + exists t', (transition pb s' d). split.
        * eapply dp_snoc; eauto.
        * apply dp_nil; auto.
      + destruct (IH ds1 ds2' eq_refl) as (c & sc & P1 & P2).
        exists c, sc. split; [exact P1|].
        eapply dp_snoc; eauto. rewrite app_length in Hlay. rewrite <- Nat.add_assoc. exact Hlay.
  Qed.

  (* ---------------------------------------------------------------- 2c. the edge invariant *)
  Record Einv (m : mdd) : Prop := {
    E_le : m_layer_end m <= length (m_nodes m);
    E_from : forall eid, eid < length (m_edges m) -> e_from (get_edge m eid) < m_layer_end m;
    E_inb : forall id eid, id < length (m_nodes m) -> In eid (n_inb (gn m id)) ->
      eid < length (m_edges m) /\
      (sat_add (n_vtop (gn m (e_from (get_edge m eid)))) (e_cost (get_edge m eid)) <= n_vtop (gn m id))%Z /\
      (is_ex m id = true ->
         is_ex m (e_from (get_edge m eid)) = true /\
         n_state (gn m id) = transition pb (n_state (gn m (e_from (get_edge m eid)))) (e_dec (get_edge m eid)) /\
         n_depth (gn m id) = S (n_depth (gn m (e_from (get_edge m eid))))) }.

  Lemma Einv_peq m m' :
    peq inp m m' -> m_layer_end m <= m_layer_end m' -> m_layer_end m' <= length (m_nodes m') ->
    Einv m -> Einv m'.
  Proof.
    intros (A1 & A2 & A3 & A4) Hl1 Hl2 [E1 E2 E3]. split.
    - exact Hl2.
    - intros eid He. rewrite A1 in He. rewrite (ge_edges_eq m m' eid A1). specialize (E2 eid He). lia.
    - intros id eid Hid Hin. rewrite A3 in Hid.
      pose proof (A4 id) as Cid. pose proof (core_eq_is_exact _ _ Cid) as Xid.
      destruct Cid as (c1 & c2 & c3 & c4 & c5 & c6 & c7).
      rewrite <- c4 in Hin. destruct (E3 id eid Hid Hin) as (G1 & G2 & G3).
      rewrite (ge_edges_eq m m' eid A1). rewrite A1.
      set (p := e_from (get_edge m eid)) in *.
      pose proof (A4 p) as Cp. pose proof (core_eq_is_exact _ _ Cp) as Xp.
      destruct Cp as (p1 & p2 & p3 & p4 & p5 & p6 & p7).
      unfold is_ex in *. rewrite <- c1, <- c2, <- c7, <- p1, <- p2, <- p7, <- Xid, <- Xp. auto.
  Qed.

  Lemma Einv_ceq m m' : ceq inp m m' -> Einv m -> Einv m'.
  Proof.
    intros (Hp & _ & Hl & _) HE. eapply Einv_peq; eauto; [lia|].
    destruct Hp as (_ & _ & A3 & _). rewrite Hl, A3. apply (E_le _ HE).
  Qed.

  Lemma Einv_append_edge (m : mdd) e :
    Einv m -> e_from e < m_layer_end m -> m_layer_end m <= e_to e -> e_to e < length (m_nodes m) ->
    (is_ex m (e_to e) = true -> is_ex m (e_from e) = true ->
       n_state (gn m (e_to e)) = transition pb (n_state (gn m (e_from e))) (e_dec e) /\
       n_depth (gn m (e_to e)) = S (n_depth (gn m (e_from e)))) ->
    Einv (append_edge inp m e).
  Proof.
    intros [E1 E2 E3] Hfrom Hto Hlt Hex.
    assert (Hedges : m_edges (append_edge inp m e) = m_edges m ++ [e]) by reflexivity.
    assert (Hlen : length (m_nodes (append_edge inp m e)) = length (m_nodes m))
      by (msimpl; apply upd_nth_length).
    assert (Helen : length (m_edges (append_edge inp m e)) = S (length (m_edges m)))
      by (rewrite Hedges, app_length; simpl; lia).
    assert (Hsrc : forall k, k < m_layer_end m -> gn (append_edge inp m e) k = gn m k).
    { intros k Hk. apply gn_append_other. lia. }
    split.
    - rewrite Hlen. exact E1.
    - intros eid He. rewrite Helen in He. change (m_layer_end (append_edge inp m e)) with (m_layer_end m).
      destruct (Nat.eq_dec eid (length (m_edges m))) as [->|Hne].
      + rewrite (ge_snoc_new m _ e Hedges). exact Hfrom.
      + rewrite (ge_snoc_old m _ e eid Hedges) by lia. apply E2. lia.
    - intros id eid Hid Hin. rewrite Hlen in Hid. rewrite Helen. unfold is_ex.
      destruct (Nat.eq_dec id (e_to e)) as [->|Hidne].
      + rewrite (gn_append_same inp m e Hlt) in Hin. rewrite (gn_append_same inp m e Hlt).
        cbv zeta in Hin |- *. nsimpl_in Hin. nsimpl.
        rewrite fl_is_exact_set_exact.
        destruct Hin as [<-|Hin].
        * rewrite (ge_snoc_new m _ e Hedges). rewrite Hsrc by exact Hfrom.
          split; [lia|]. split.
          -- destruct (sat_add (n_vtop (gn m (e_from e))) (e_cost e) >=? n_vtop (gn m (e_to e)))%Z eqn:Eb.
             ++ lia.
             ++ rewrite Z.geb_leb in Eb. apply Z.leb_gt in Eb. lia.
          -- intros Hx. apply andb_true_iff in Hx. destruct Hx as [Hx Hr].
             apply andb_true_iff in Hx. destruct Hx as [Hp Ht].
             split; [exact Hp|]. apply Hex; assumption.
        * destruct (E3 _ eid Hlt Hin) as (G1 & G2 & G3).
          rewrite (ge_snoc_old m _ e eid Hedges) by exact G1.
          rewrite Hsrc by (apply E2; exact G1).
          split; [lia|]. split.
          -- destruct (sat_add (n_vtop (gn m (e_from e))) (e_cost e) >=? n_vtop (gn m (e_to e)))%Z eqn:Eb.
             ++ rewrite Z.geb_leb in Eb. apply Z.leb_le in Eb. lia.
             ++ exact G2.
          -- intros Hx. apply andb_true_iff in Hx. destruct Hx as [Hx Hr].
             apply andb_true_iff in Hx. destruct Hx as [Hp Ht]. apply G3. exact Ht.
      + rewrite (gn_append_other inp m e id Hidne) in Hin. rewrite (gn_append_other inp m e id Hidne).
        destruct (E3 _ eid Hid Hin) as (G1 & G2 & G3).
        rewrite (ge_snoc_old m _ e eid Hedges) by exact G1.
        rewrite Hsrc by (apply E2; exact G1). split; [lia|]. split; assumption.
  Qed.

  Lemma Einv_snoc (m : mdd) n : Einv m -> n_inb n = [] -> Einv (with_nodes m (m_nodes m ++ [n])).
  Proof.
    intros [E1 E2 E3] Hn. split.
    - rewrite len_snoc. msimpl. lia.
    - exact E2.
    - intros id eid Hid Hin. rewrite len_snoc in Hid. unfold is_ex.
      destruct (Nat.eq_dec id (length (m_nodes m))) as [->|Hne].
      + rewrite gn_snoc_new in Hin. rewrite Hn in Hin. destruct Hin.
      + assert (Hid' : id < length (m_nodes m)) by lia.
        rewrite (gn_snoc_old inp m n id Hid') in Hin. rewrite (gn_snoc_old inp m n id Hid').
        destruct (E3 _ eid Hid' Hin) as (G1 & G2 & G3).
        change (m_edges (with_nodes m (m_nodes m ++ [n]))) with (m_edges m).
        change (get_edge (with_nodes m (m_nodes m ++ [n])) eid) with (get_edge m eid).
        rewrite gn_snoc_old by (specialize (E2 eid G1); lia). auto.
  Qed.

  (* an update of an OPEN node that keeps state, value, inbound list, depth and can only clear exactness *)
  Lemma Einv_upd_open (m : mdd) id f :
    Einv m -> m_layer_end m <= id ->
    (forall n, n_state (f n) = n_state n /\ n_vtop (f n) = n_vtop n /\ n_inb (f n) = n_inb n /\
               n_depth (f n) = n_depth n /\
               (fl_is_exact (n_flags (f n)) = true -> fl_is_exact (n_flags n) = true)) ->
    Einv (upd_node m id f).
  Proof.
    intros [E1 E2 E3] Hid Hf.
    assert (Hlen : length (m_nodes (upd_node m id f)) = length (m_nodes m)) by (msimpl; apply upd_nth_length).
    assert (Hsrc : forall k, k < m_layer_end m -> gn (upd_node m id f) k = gn m k).
    { intros k Hk. apply gn_upd_other. lia. }
    split.
    - rewrite Hlen. exact E1.
    - exact E2.
    - intros x eid Hx Hin. rewrite Hlen in Hx. unfold is_ex.
      change (m_edges (upd_node m id f)) with (m_edges m).
      change (get_edge (upd_node m id f) eid) with (get_edge m eid).
      destruct (Nat.eq_dec id x) as [->|Hne].
      + rewrite (gn_upd_same inp m x f Hx) in Hin. rewrite (gn_upd_same inp m x f Hx).
        destruct (Hf (gn m x)) as (f1 & f2 & f3 & f4 & f5). rewrite f3 in Hin.
        destruct (E3 _ eid Hx Hin) as (G1 & G2 & G3).
        rewrite Hsrc by (apply E2; exact G1). rewrite f1, f2, f4. split; [exact G1|]. split; [exact G2|].
        intros Hex. apply G3. apply f5. exact Hex.
      + rewrite (gn_upd_other inp m id f x Hne) in Hin. rewrite (gn_upd_other inp m id f x Hne).
        destruct (E3 _ eid Hx Hin) as (G1 & G2 & G3).
        rewrite Hsrc by (apply E2; exact G1). auto.
  Qed.

  Lemma Einv_frame m m' :
    m_nodes m' = m_nodes m -> m_edges m' = m_edges m ->
    m_layer_end m <= m_layer_end m' -> m_layer_end m' <= length (m_nodes m') ->
    Einv m -> Einv m'.
  Proof.
    intros Hn He H1 H2 [E1 E2 E3].
    assert (Hg : forall k, gn m' k = gn m k) by (intros; apply gn_nodes_eq; exact Hn).
    assert (Hge : forall k, get_edge m' k = get_edge m k) by (intros; apply ge_edges_eq; exact He).
    split.
    - exact H2.
    - intros eid Hlt. rewrite He in Hlt. rewrite Hge. specialize (E2 eid Hlt). lia.
    - intros id eid Hid Hin. rewrite Hn in Hid. rewrite Hg in Hin. unfold is_ex. rewrite He, Hge, !Hg.
      apply E3; assumption.
  Qed.

  (* what the invariant buys along a diagram path from the root *)
  Lemma dpath_vtop_gen m i u s ds t s' k v :
    Einv m -> dpath m i u s ds t s' -> (v <= n_vtop (gn m u))%Z ->
    (forall ds1 s1 v1, frn k s v ds1 = Some (s1, v1) -> in_isize v1) ->
    forall s'' v', frn k s v ds = Some (s'', v') -> (v' <= n_vtop (gn m t))%Z.
  Proof.
    intros HE Hp Hroot Hiso.
    induction Hp as [i u s Hu Hc|i u s ds t s' d eid t' Hp IH Hlay Ht' He Hin Hf Hd Hcost Hcov];
      intros s'' v' Hr.
    - simpl in Hr. inversion Hr; subst. exact Hroot.
    - specialize (IH Hroot Hiso).
      pose proof (Hiso _ _ _ Hr) as Hisov.
      rewrite frun_app in Hr. destruct (frn k s v ds) as [[s1 v1]|] eqn:E1; [|discriminate].
      pose proof (IH _ _ eq_refl) as Hv1.
      pose proof (frun_state pb _ _ _ _ _ _ E1) as Hs1.
      pose proof (dpath_state _ _ _ _ _ _ _ Hp) as Hs1'.
      assert (s1 = s') by congruence. subst s1.
      cbn [frun] in Hr.
      match type of Hr with context [if ?c then _ else _] => destruct c end; [|discriminate].
      injection Hr as _ Hv'. subst v'.
      destruct (E_inb _ HE t' eid Ht' Hin) as (_ & G2 & _). rewrite Hf in G2.
      eapply Z.le_trans; [|exact G2]. apply sat_add_ge; [exact Hisov|]. rewrite <- Hs1'. lia.
  Qed.

  Lemma dpath_vtop m ds u s' :
    Einv m -> dpath m 0 0 rs ds u s' -> (rv <= n_vtop (gn m 0))%Z ->
    forall s'' v', frn rd rs rv ds = Some (s'', v') -> (v' <= n_vtop (gn m u))%Z.
  Proof.
    intros HE Hp Hroot. eapply dpath_vtop_gen; eauto. intros; eapply guard_isize; eauto.
  Qed.

  Lemma dpath_exact m i u s ds t s' :
    Einv m -> dpath m i u s ds t s' -> n_state (gn m u) = s -> is_ex m t = true ->
    n_state (gn m t) = s' /\ n_depth (gn m t) = n_depth (gn m u) + length ds /\ is_ex m u = true.
  Proof.
    intros HE Hp. induction Hp as [i u s Hu Hc|i u s ds t s' d eid t' Hp IH Hlay Ht' He Hin Hf Hd Hcost Hcov];
      intros Hs Hex.
    - split; [exact Hs|]. split; [simpl; lia|exact Hex].
    - destruct (E_inb _ HE t' eid Ht' Hin) as (_ & _ & G3). destruct (G3 Hex) as (X1 & X2 & X3).
      rewrite Hf in X1, X2, X3. rewrite Hd in X2.
      destruct (IH Hs X1) as (I1 & I2 & I3).
      split; [rewrite X2, I1; reflexivity|]. split; [|exact I3].
      rewrite X3, I2, app_length. simpl. lia.
  Qed.

  (* ---------------------------------------------------------------- 2d. the filters do nothing here *)
  Lemma filter_with_cache_nocache l : forall m, snd (filter_with_cache st_eqb inp m l) = l.
  Proof.
    induction l as [|id l IH]; intros m; [reflexivity|].
    cbn [filter_with_cache]. cbv zeta. unfold cache_get. rewrite Hnocache.
    match goal with |- context [filter_with_cache st_eqb inp ?mm l] =>
      specialize (IH mm); destruct (filter_with_cache st_eqb inp mm l) as [m2 r] end.
    simpl in *. congruence.
  Qed.

  Lemma dom_retain_nodom l : forall m, snd (dom_retain inp m l) = l.
  Proof.
    induction l as [|id l IH]; intros m; [reflexivity|].
    cbn [dom_retain]. cbv zeta. destruct (fl_is_exact (n_flags (gn m id))).
    - unfold dom_query. rewrite Hnodom. cbn [dc_dominated].
      match goal with |- context [dom_retain inp ?mm l] =>
        specialize (IH mm); destruct (dom_retain inp mm l) as [m2 r] end.
      simpl in *. congruence.
    - specialize (IH m). destruct (dom_retain inp m l) as [m2 r]. simpl in *. congruence.
  Qed.

  Lemma filter_with_dominance_nodom m l x :
    In x (snd (filter_with_dominance inp m l)) <-> In x l.
  Proof. unfold filter_with_dominance. rewrite dom_retain_nodom. apply sort_by_In. Qed.

  (* ---------------------------------------------------------------- 2e. branch_on *)
  Lemma branch_on_spec (m : mdd) id d :
    (forall x, In x (m_next m) -> x < length (m_nodes m)) ->
    let m' := branch_on st_eqb inp m id d in
    let s := n_state (gn m id) in
    exists t, In t (m_next m') /\ t < length (m_nodes m') /\
      In (length (m_edges m)) (n_inb (gn m' t)) /\
      get_edge m' (length (m_edges m)) =
        {| e_from := id; e_to := t; e_dec := d; e_cost := transition_cost pb s (transition pb s d) d |} /\
      n_state (gn m' t) = transition pb s d /\
      length (m_edges m') = S (length (m_edges m)).
  Proof.
    intros Hnext. cbv zeta. unfold branch_on. cbv zeta.
    set (s := n_state (gn m id)).
    set (ns := transition (ci_problem inp) s d).
    set (cost := transition_cost (ci_problem inp) s ns d).
    set (m1 := add_log (add_log m (EvTransition s d ns)) (EvCost s ns d cost)).
    assert (Hgn1 : forall k, gn m1 k = gn m k) by reflexivity.
    destruct (find_next st_eqb inp m1 ns) as [t|] eqn:Hfind.
    - unfold find_next in Hfind. apply find_some in Hfind. destruct Hfind as [Hin Heq].
      apply st_eqb_spec in Heq. change (m_next m1) with (m_next m) in Hin.
      pose proof (Hnext t Hin) as Ht.
      set (e := {| e_from := id; e_to := t; e_dec := d; e_cost := cost |}).
      exists t. split; [exact Hin|]. split; [msimpl; rewrite upd_nth_length; exact Ht|].
      split; [|split; [|split]].
      + change t with (e_to e) at 1. rewrite gn_append_same by exact Ht. cbv zeta. nsimpl. left; reflexivity.
      + apply (ge_snoc_new m1 _ e). reflexivity.
      + change t with (e_to e). rewrite gn_append_same by exact Ht. cbv zeta. nsimpl. exact Heq.
      + msimpl. rewrite app_length. simpl. lia.
    - set (t := length (m_nodes m1)).
      set (n := {| n_state := ns; n_vtop := sat_add (n_vtop (gn m id)) cost; n_vbot := IMIN;
                   n_best := None; n_inb := []; n_rub := IMAX; n_theta := None;
                   n_flags := fl_set_exact fl_new_exact (fl_is_exact (n_flags (gn m id)));
                   n_depth := S (n_depth (gn m id)) |}).
      set (m2 := with_nodes m1 (m_nodes m1 ++ [n])).
      set (e := {| e_from := id; e_to := t; e_dec := d; e_cost := cost |}).
      set (m3 := append_edge inp m2 e).
      assert (Hlen2 : length (m_nodes m2) = S t) by apply len_snoc.
      assert (Hgn2new : gn m2 t = n) by apply gn_snoc_new.
      assert (Ht2 : e_to e < length (m_nodes m2)) by (simpl e_to; lia).
      exists t. change (gn (with_next m3 (m_next m3 ++ [t]))) with (gn m3).
      split; [msimpl; apply in_or_app; right; left; reflexivity|].
      assert (Hlen3 : length (m_nodes m3) = S t).
      { unfold m3. msimpl. rewrite upd_nth_length. exact Hlen2. }
      split; [change (t < length (m_nodes m3)); lia|].
      split; [|split; [|split]].
      + unfold m3. change t with (e_to e) at 1. rewrite gn_append_same by exact Ht2. cbv zeta. nsimpl. left; reflexivity.
      + apply (ge_snoc_new m2 _ e). reflexivity.
      + unfold m3. change t with (e_to e). rewrite gn_append_same by exact Ht2. cbv zeta. nsimpl.
        simpl e_to. rewrite Hgn2new. reflexivity.
      + change (length (m_edges m3) = S (length (m_edges m))). unfold m3. msimpl.
        rewrite app_length. simpl. lia.
  Qed.

  Lemma Einv_branch_on (m : mdd) id d :
    Einv m -> id < m_layer_end m ->
    (forall x, In x (m_next m) -> m_layer_end m <= x < length (m_nodes m) /\
                                 n_depth (gn m x) = S (n_depth (gn m id))) ->
    Einv (branch_on st_eqb inp m id d).
  Proof.
    intros HE Hid Hnext. unfold branch_on. cbv zeta.
    set (s := n_state (gn m id)).
    set (ns := transition (ci_problem inp) s d).
    set (cost := transition_cost (ci_problem inp) s ns d).
    set (m1 := add_log (add_log m (EvTransition s d ns)) (EvCost s ns d cost)).
    assert (HE1 : Einv m1).
    { eapply Einv_frame; [| | | |exact HE]; try reflexivity. apply (E_le _ HE). }
    assert (Hgn1 : forall k, gn m1 k = gn m k) by reflexivity.
    destruct (find_next st_eqb inp m1 ns) as [t|] eqn:Hfind.
    - unfold find_next in Hfind. apply find_some in Hfind. destruct Hfind as [Hin Heq].
      apply st_eqb_spec in Heq. change (m_next m1) with (m_next m) in Hin.
      destruct (Hnext t Hin) as [Hr Hd].
      apply Einv_append_edge; nsimpl.
      + exact HE1.
      + exact Hid.
      + change (m_layer_end m1) with (m_layer_end m). lia.
      + change (length (m_nodes m1)) with (length (m_nodes m)). lia.
      + intros _ _. rewrite !Hgn1. split; [exact Heq|exact Hd].
    - set (t := length (m_nodes m1)).
      set (n := {| n_state := ns; n_vtop := sat_add (n_vtop (gn m id)) cost; n_vbot := IMIN;
                   n_best := None; n_inb := []; n_rub := IMAX; n_theta := None;
                   n_flags := fl_set_exact fl_new_exact (fl_is_exact (n_flags (gn m id)));
                   n_depth := S (n_depth (gn m id)) |}).
      set (m2 := with_nodes m1 (m_nodes m1 ++ [n])).
      assert (HE2 : Einv m2) by (apply Einv_snoc; [exact HE1|reflexivity]).
      pose proof (E_le _ HE1) as Hle1.
      assert (HE3 : Einv (append_edge inp m2 {| e_from := id; e_to := t; e_dec := d; e_cost := cost |})).
      { apply Einv_append_edge; nsimpl.
        - exact HE2.
        - exact Hid.
        - change (m_layer_end m2) with (m_layer_end m1). exact Hle1.
        - unfold m2. rewrite len_snoc. unfold t. lia.
        - intros _ _. unfold m2, t. rewrite gn_snoc_new.
          rewrite gn_snoc_old by (change (m_layer_end m1) with (m_layer_end m) in Hle1; lia).
          rewrite Hgn1. split; reflexivity. }
      eapply Einv_frame; [| | | |exact HE3]; try reflexivity. apply (E_le _ HE3).
  Qed.

  (* ---------------------------------------------------------------- 2f. expand_node *)
  Definition Cinv (dn : nat) (m : mdd) : Prop :=
    Dinv inp m /\ Xinv inp m /\ next_depth inp dn m /\ Einv m.

  Lemma branch_on_Cinv (m : mdd) id d :
    Cinv (S (n_depth (gn m id))) m -> id < m_layer_end m ->
    in_domain pb (n_state (gn m id)) d = true ->
    (exists states, next_variable pb (n_depth (gn m id)) states = Some (d_var d)) ->
    Cinv (S (n_depth (gn m id))) (branch_on st_eqb inp m id d) /\
    stable inp m (branch_on st_eqb inp m id d).
  Proof.
    intros (HD & HX & Hnd & HE) Hid Hdom Hv.
    destruct (branch_on_inv st_eqb st_eqb_spec inp Hclean m id d HD HX Hid Hnd Hdom Hv) as (B1 & B2 & B3 & B4).
    split; [|exact B3]. split; [exact B1|]. split; [exact B2|]. split; [exact B4|].
    apply Einv_branch_on; auto. intros x Hx. split; [apply (D_next _ _ _ HD x Hx)|apply Hnd; exact Hx].
  Qed.

  Lemma prefix_isize ds s' v' h :
    frn rd rs rv ds = Some (s', v') -> rd + length ds <= N -> H pb (rd + length ds) s' = Some h ->
    in_isize (v' + h).
  Proof.
    intros Hr Hle Hh.
    destruct (H_attained pb nv_static nv_some nv_none (N - (rd + length ds)) (rd + length ds) s' v' h eq_refl Hle Hh)
      as (ds2 & s2 & Hr2 & _).
    apply (guard_isize (ds ++ ds2) s2). rewrite frun_app, Hr. exact Hr2.
  Qed.

  Lemma expand_node_track var (m : mdd) i0 c0 sc0 vc0 u ds s' v' dval h :
    let d := {| d_var := var; d_val := dval |} in
    let dn := S (n_depth (gn m u)) in
    Cinv dn m -> u < m_layer_end m ->
    (exists states, next_variable pb (n_depth (gn m u)) states = Some var) ->
    (vc0 <= n_vtop (gn m c0))%Z ->
    (forall ds1 s1 v1, frn (rd + i0) sc0 vc0 ds1 = Some (s1, v1) -> in_isize v1) ->
    In u (nth (i0 + length ds) (m_layers m) []) ->
    dpath m i0 c0 sc0 ds u s' -> frn (rd + i0) sc0 vc0 ds = Some (s', v') ->
    In dval (domain pb var s') ->
    H pb (rd + i0 + length ds) s' = Some h -> (lb < v' + h)%Z -> in_isize (v' + h) ->
    let m' := expand_node st_eqb inp var m u in
    exists t', In t' (m_next m') /\ dpath m' i0 c0 sc0 (ds ++ [d]) t' (transition pb s' d).
  Proof.
    intros d dn HC Hu Hvar Hroot Hisoall Hlay Hp Hr Hdv Hh Hprom Hiso. cbv zeta.
    pose proof (dpath_range _ _ _ _ _ _ _ Hp) as Hulen.
    pose proof (dpath_cov _ _ _ _ _ _ _ Hp) as Hcov.
    destruct HC as (HD & HX & Hnd & HE).
    pose proof (dpath_vtop_gen m i0 c0 sc0 ds u s' (rd + i0) vc0 HE Hp Hroot Hisoall _ _ Hr) as Hvt.
    pose proof (rub_adm _ _ _ _ Hcov Hh) as Hrub.
    unfold expand_node. cbv zeta.
    set (state := n_state (gn m u)) in *.
    set (m1 := upd_node m u (fun n => set_rub n (fast_upper_bound (ci_relax inp) state))).
    assert (Hc1 : ceq inp m m1) by (apply ceq_upd_node; intros n; apply core_eq_set_rub).
    assert (Hvt1 : n_vtop (gn m1 u) = n_vtop (gn m u)).
    { destruct Hc1 as ((_ & _ & _ & A4) & _). destruct (A4 u) as (_ & c2 & _). symmetry; exact c2. }
    assert (Hub : (sat_add (fast_upper_bound (ci_relax inp) state) (n_vtop (gn m1 u)) >? ci_best_lb inp)%Z = true).
    { apply Z.gtb_lt. fold lb. eapply Z.lt_le_trans; [exact Hprom|].
      apply sat_add_ge; [exact Hiso|]. rewrite Hvt1. fold rlx. lia. }
    rewrite Hub.
    set (m2 := add_log m1 (EvDomain var state)).
    assert (Hc2 : ceq inp m m2) by (eapply ceq_trans; [exact Hc1|apply ceq_add_log]).
    assert (Hg2 : gr m m2).
    { apply (gr_trans m m1 m2); [unfold m1; apply gr_upd_node; intros; reflexivity|apply gr_add_log]. }
    destruct (cov_sim _ _ var dval Hcov Hdv) as (Sd & Scov & Scost). fold d in Scov, Scost.
    set (Inv := fun a : mdd => Cinv dn a /\ stable inp m a /\ gr m a).
    set (P := fun a : mdd => exists t', In t' (m_next a) /\ dpath a i0 c0 sc0 (ds ++ [d]) t' (transition pb s' d)).
    assert (Hstep : forall a val, In val (domain pb var state) -> Inv a ->
              Inv (branch_on st_eqb inp a u {| d_var := var; d_val := val |})).
    { intros a val Hval (Ca & Sa & Ga).
      pose proof Sa as (s1 & s2 & s3 & s4 & s5).
      destruct (s4 u Hulen) as [Hs Hdp].
      assert (Hdn : dn = S (n_depth (gn a u))) by (unfold dn; rewrite Hdp; reflexivity).
      rewrite Hdn in Ca.
      destruct (branch_on_Cinv a u {| d_var := var; d_val := val |} Ca) as [C' S'].
      - rewrite s1. exact Hu.
      - rewrite Hs. apply In_in_domain. exact Hval.
      - rewrite Hdp. exact Hvar.
      - split; [rewrite Hdn; exact C'|]. split; [eapply stable_trans; eauto|].
        eapply gr_trans; [exact Ga|apply gr_branch_on]. }
    assert (Hinv2 : Inv m2).
    { split; [|split; [apply ceq_stable; exact Hc2|exact Hg2]].
      split; [eapply Dg_ceq; eauto|]. split; [eapply Xinv_ceq; eauto|]. split; [|eapply Einv_ceq; eauto].
      intros k Hk. destruct Hc2 as ((_ & _ & _ & A4) & Hn & _). rewrite Hn in Hk.
      destruct (A4 k) as (_ & _ & _ & _ & _ & _ & c7). rewrite <- c7. apply Hnd; exact Hk. }
    (* run the fold, remembering membership of the values *)
    assert (G : forall l a, incl l (domain pb var state) -> Inv a ->
              (In dval l \/ P a) ->
              P (fold_left (fun m0 val => branch_on st_eqb inp m0 u {| d_var := var; d_val := val |}) l a)).
    { induction l as [|val l IH]; intros a Hincl Ia Hor; simpl.
      - destruct Hor as [[]|Hor]; exact Hor.
      - assert (Hval : In val (domain pb var state)) by (apply Hincl; left; reflexivity).
        apply IH.
        + intros y Hy. apply Hincl. right; exact Hy.
        + apply Hstep; assumption.
        + destruct Hor as [[->|Hin]|(t' & Ht' & Hp')].
          * right. destruct Ia as (Ca & Sa & Ga).
            destruct Ca as (Da & _).
            destruct (branch_on_spec a u d) as (t & T1 & T2 & T3 & T4 & T5 & T6).
            { intros x Hx. apply (D_next _ _ _ Da x Hx). }
            set (b := branch_on st_eqb inp a u d) in *.
            assert (Gab : gr a b) by apply gr_branch_on.
            assert (Gmb : gr m b) by (eapply gr_trans; eauto).
            exists t. split; [exact T1|].
            apply (dp_snoc b i0 c0 sc0 ds u s' d (length (m_edges a)) t).
            -- eapply dpath_gr; eauto.
            -- rewrite (gr_layers _ _ Gmb). exact Hlay.
            -- exact T2.
            -- lia.
            -- exact T3.
            -- rewrite T4. reflexivity.
            -- rewrite T4. reflexivity.
            -- rewrite T4. nsimpl. rewrite (gr_state _ _ u Ga Hulen). fold state. exact Scost.
            -- rewrite T5. rewrite (gr_state _ _ u Ga Hulen). exact Scov.
          * left. exact Hin.
          * right. pose proof (gr_branch_on a u {| d_var := var; d_val := val |}) as Gab.
            exists t'. split; [eapply gr_next; eauto|eapply dpath_gr; eauto]. }
    apply G; [apply incl_refl|exact Hinv2|left; exact Sd].
  Qed.

  Lemma expand_node_Cinv var (m : mdd) id :
    Cinv (S (n_depth (gn m id))) m -> id < m_layer_end m ->
    (exists states, next_variable pb (n_depth (gn m id)) states = Some var) ->
    Cinv (S (n_depth (gn m id))) (expand_node st_eqb inp var m id) /\
    stable inp m (expand_node st_eqb inp var m id).
  Proof.
    intros (HD & HX & Hnd & HE) Hid Hvar.
    destruct (expand_node_inv st_eqb st_eqb_spec inp Hclean var m id HD HX Hid Hnd Hvar) as (X1 & X2 & X3 & X4).
    split; [|exact X3]. split; [exact X1|]. split; [exact X2|]. split; [exact X4|].
    assert (Hidlen : id < length (m_nodes m)) by (pose proof (D_le _ _ _ HD); lia).
    unfold expand_node. cbv zeta.
    set (state := n_state (gn m id)).
    set (m1 := upd_node m id (fun n => set_rub n (fast_upper_bound (ci_relax inp) state))).
    assert (Hc1 : ceq inp m m1) by (apply ceq_upd_node; intros n; apply core_eq_set_rub).
    assert (HE1 : Einv m1) by (eapply Einv_ceq; eauto).
    destruct (_ >? _)%Z; [|exact HE1].
    set (m2 := add_log m1 (EvDomain var state)).
    assert (Hc2 : ceq inp m m2) by (eapply ceq_trans; [exact Hc1|apply ceq_add_log]).
    set (dn := S (n_depth (gn m id))).
    assert (G : Cinv dn (fold_left (fun m0 val => branch_on st_eqb inp m0 id {| d_var := var; d_val := val |})
                          (domain (ci_problem inp) var state) m2) /\
                stable inp m (fold_left (fun m0 val => branch_on st_eqb inp m0 id {| d_var := var; d_val := val |})
                          (domain (ci_problem inp) var state) m2)).
    { apply (fold_left_inv (fun a => Cinv dn a /\ stable inp m a)).
      - split; [|apply ceq_stable; exact Hc2].
        split; [eapply Dg_ceq; eauto|]. split; [eapply Xinv_ceq; eauto|]. split; [|eapply Einv_ceq; eauto].
        intros k Hk. destruct Hc2 as ((_ & _ & _ & A4) & Hn & _). rewrite Hn in Hk.
        destruct (A4 k) as (_ & _ & _ & _ & _ & _ & c7). rewrite <- c7. apply Hnd; exact Hk.
      - intros a val Hval (Ca & Sa).
        pose proof Sa as (s1 & s2 & s3 & s4 & s5).
        destruct (s4 id Hidlen) as [Hs Hdp].
        assert (Hdn : dn = S (n_depth (gn a id))) by (unfold dn; rewrite Hdp; reflexivity).
        rewrite Hdn in Ca.
        destruct (branch_on_Cinv a id {| d_var := var; d_val := val |} Ca) as [C' S'].
        + rewrite s1. exact Hid.
        + rewrite Hs. apply In_in_domain. exact Hval.
        + rewrite Hdp. exact Hvar.
        + split; [rewrite Hdn; exact C'|eapply stable_trans; eauto]. }
    destruct G as ((_ & _ & _ & G) & _). exact G.
  Qed.

  (* ---------------------------------------------------------------- 2g. expanding a whole layer *)
  Lemma root_vtop m : Dinv inp m -> (rv <= n_vtop (gn m 0))%Z.
  Proof. intros HD. destruct (D_root _ _ _ HD) as (_ & _ & r3 & _). fold root in r3. unfold rv. lia. Qed.

  Lemma expand_layer_Cinv var l d : forall (m : mdd),
    Cinv (S d) m -> (forall id, In id l -> id < m_layer_end m /\ n_depth (gn m id) = d) ->
    (exists states, next_variable pb d states = Some var) ->
    Cinv (S d) (fold_left (expand_node st_eqb inp var) l m) /\
    stable inp m (fold_left (expand_node st_eqb inp var) l m) /\
    gr m (fold_left (expand_node st_eqb inp var) l m).
  Proof.
    intros m HC Hl Hv.
    apply (fold_left_inv (fun a => Cinv (S d) a /\ stable inp m a /\ gr m a)).
    - split; [exact HC|]. split; [apply stable_refl|apply gr_refl].
    - intros a id Hin (Ca & Sa & Ga).
      pose proof Sa as (s1 & s2 & s3 & s4 & s5).
      destruct (Hl id Hin) as [Hlt Hdp].
      assert (Hidlen : id < length (m_nodes m)).
      { destruct HC as (HD & _). pose proof (D_le _ _ _ HD). lia. }
      destruct (s4 id Hidlen) as [_ Hdp'].
      assert (Hd : n_depth (gn a id) = d) by congruence.
      destruct (expand_node_Cinv var a id) as [C' S'].
      + rewrite Hd. exact Ca.
      + rewrite s1. exact Hlt.
      + rewrite Hd. exact Hv.
      + rewrite Hd in C'. split; [exact C'|]. split; [eapply stable_trans; eauto|].
        eapply gr_trans; [exact Ga|apply gr_expand_node].
  Qed.

  Lemma expand_layer_track var l dd (m : mdd) i0 c0 sc0 vc0 u ds s' v' dval h :
    let d := {| d_var := var; d_val := dval |} in
    Cinv (S dd) m -> (forall id, In id l -> id < m_layer_end m /\ n_depth (gn m id) = dd) ->
    (exists states, next_variable pb dd states = Some var) ->
    c0 < m_layer_end m -> (vc0 <= n_vtop (gn m c0))%Z ->
    (forall ds1 s1 v1, frn (rd + i0) sc0 vc0 ds1 = Some (s1, v1) -> in_isize v1) ->
    In u l -> In u (nth (i0 + length ds) (m_layers m) []) ->
    dpath m i0 c0 sc0 ds u s' -> frn (rd + i0) sc0 vc0 ds = Some (s', v') ->
    In dval (domain pb var s') ->
    H pb (rd + i0 + length ds) s' = Some h -> (lb < v' + h)%Z -> in_isize (v' + h) ->
    let m' := fold_left (expand_node st_eqb inp var) l m in
    exists t', In t' (m_next m') /\ dpath m' i0 c0 sc0 (ds ++ [d]) t' (transition pb s' d).
  Proof.
    intros d HC Hl Hv Hc0 Hvc0 Hisoall Hu Hlay Hp Hr Hdv Hh Hprom Hiso. cbv zeta.
    set (P := fun a : mdd => exists t', In t' (m_next a) /\ dpath a i0 c0 sc0 (ds ++ [d]) t' (transition pb s' d)).
    assert (G : forall l0 a, incl l0 l -> Cinv (S dd) a -> stable inp m a -> gr m a ->
              (In u l0 \/ P a) -> P (fold_left (expand_node st_eqb inp var) l0 a)).
    { induction l0 as [|id l0 IH]; intros a Hincl Ca Sa Ga Hor; simpl.
      - destruct Hor as [[]|Hor]; exact Hor.
      - assert (Hid : In id l) by (apply Hincl; left; reflexivity).
        pose proof Sa as (s1 & s2 & s3 & s4 & s5).
        assert (Hlen : forall x, In x l -> x < length (m_nodes m)).
        { intros x Hx. destruct (Hl x Hx) as [Hlt _]. destruct HC as (HD & _). pose proof (D_le _ _ _ HD). lia. }
        assert (Hda : forall x, In x l -> n_depth (gn a x) = dd /\ x < m_layer_end a).
        { intros x Hx. destruct (Hl x Hx) as [Hlt Hdp]. destruct (s4 x (Hlen x Hx)) as [_ Hdp'].
          split; [congruence|rewrite s1; exact Hlt]. }
        destruct (Hda id Hid) as [Hd Hlt].
        destruct (expand_node_Cinv var a id) as [C' S'].
        { rewrite Hd. exact Ca. } { exact Hlt. } { rewrite Hd. exact Hv. }
        rewrite Hd in C'.
        pose proof (gr_expand_node var a id) as Gab.
        apply IH.
        + intros y Hy. apply Hincl. right; exact Hy.
        + exact C'.
        + eapply stable_trans; eauto.
        + eapply gr_trans; eauto.
        + destruct Hor as [[->|Hin]|(t' & Ht' & Hp')].
          * right. destruct (Hda u Hu) as [Hdu Hltu].
            apply (expand_node_track var a i0 c0 sc0 vc0 u ds s' v' dval h); auto.
            -- rewrite Hdu. exact Ca.
            -- rewrite Hdu. exact Hv.
            -- destruct (s3 c0 Hc0) as (_ & q2 & _). rewrite <- q2. exact Hvc0.
            -- rewrite (gr_layers _ _ Ga). exact Hlay.
            -- eapply dpath_gr; eauto.
          * left; exact Hin.
          * right. exists t'. split; [eapply gr_next; eauto|eapply dpath_gr; eauto]. }
    apply G; auto; [apply incl_refl|apply stable_refl|apply gr_refl].
  Qed.

  (* ---------------------------------------------------------------- 2h. relax_layer *)
  Lemma gr_redirect_step merged mid (a : mdd) eid : gr a (redirect_step inp merged mid a eid).
  Proof. unfold redirect_step. cbv zeta. eapply gr_trans; [apply gr_add_log|apply gr_append_edge]. Qed.

  Lemma gr_drop_step merged mid (a : mdd) did : gr a (drop_step inp merged mid a did).
  Proof.
    unfold drop_step. rewrite redirect_edges_fold.
    set (a1 := upd_node a did (fun n => set_flags n (fl_set_deleted (n_flags n) true))).
    apply (gr_trans a a1); [unfold a1; apply gr_upd_node; intros; reflexivity|].
    apply gr_fold. intros; apply gr_redirect_step.
  Qed.

  Definition Rinv (mid : nat) (b : mdd) : Prop :=
    Einv b /\ m_layer_end b <= mid /\ mid < length (m_nodes b) /\ f_relaxed (n_flags (gn b mid)) = true.

  Lemma Rinv_redirect_step merged mid (b : mdd) eid :
    Rinv mid b -> eid < length (m_edges b) -> Rinv mid (redirect_step inp merged mid b eid).
  Proof.
    intros (HE & H1 & H2 & H3) He. unfold redirect_step. cbv zeta.
    match goal with |- Rinv mid (append_edge inp ?aa ?ee) => set (a1 := aa); set (e := ee) end.
    assert (HE1 : Einv a1) by (eapply Einv_frame; [| | | |exact HE]; try reflexivity; apply (E_le _ HE)).
    assert (Hnx : is_ex a1 mid = false).
    { unfold is_ex, fl_is_exact. change (gn a1 mid) with (gn b mid). rewrite H3. apply andb_false_r. }
    split; [|split; [|split]].
    - apply Einv_append_edge; unfold e; nsimpl; auto.
      + apply (E_from _ HE). exact He.
      + intros Hx. rewrite Hnx in Hx. discriminate.
    - exact H1.
    - msimpl. rewrite upd_nth_length. exact H2.
    - change mid with (e_to e). rewrite gn_append_same by exact H2. cbv zeta. nsimpl. exact H3.
  Qed.

  Lemma Rinv_upd_flag mid (b : mdd) id fl :
    (forall n, f_exact (fl n) = f_exact (n_flags n) /\ f_relaxed (fl n) = f_relaxed (n_flags n)) ->
    Rinv mid b -> Rinv mid (upd_node b id (fun n => set_flags n (fl n))).
  Proof.
    intros Hfl (HE & H1 & H2 & H3).
    assert (Hc : ceq inp b (upd_node b id (fun n => set_flags n (fl n)))).
    { apply ceq_upd_node. intros n. destruct (Hfl n). apply core_eq_set_flags_nc; assumption. }
    split; [eapply Einv_ceq; eauto|]. split; [exact H1|]. split; [msimpl; rewrite upd_nth_length; exact H2|].
    destruct Hc as ((_ & _ & _ & A4) & _). destruct (A4 mid) as (_ & _ & _ & _ & _ & c6 & _). congruence.
  Qed.

  Lemma Rinv_drop_step merged mid (b : mdd) did :
    Rinv mid b -> did < length (m_nodes b) -> Rinv mid (drop_step inp merged mid b did).
  Proof.
    intros HR Hd. unfold drop_step. rewrite redirect_edges_fold.
    set (b1 := upd_node b did (fun n => set_flags n (fl_set_deleted (n_flags n) true))).
    assert (HR1 : Rinv mid b1) by (apply (Rinv_upd_flag mid b did (fun n => fl_set_deleted (n_flags n) true)); auto).
    assert (Hd1 : did < length (m_nodes b1)) by (unfold b1; msimpl; rewrite upd_nth_length; exact Hd).
    assert (Hall : forall eid, In eid (n_inb (gn b1 did)) -> eid < length (m_edges b1)).
    { intros eid Hin. destruct HR1 as (HE1 & _). apply (E_inb _ HE1 did eid Hd1 Hin). }
    apply (fold_left_inv (fun a => Rinv mid a /\ gr b1 a)).
    - split; [exact HR1|apply gr_refl].
    - intros a eid Hin (Ra & Ga). split.
      + apply Rinv_redirect_step; [exact Ra|]. pose proof (gr_edges_len _ _ Ga). specialize (Hall eid Hin). lia.
      + eapply gr_trans; [exact Ga|apply gr_redirect_step].
  Qed.

  Lemma redirect_step_track merged mid (b : mdd) i0 c0 sc0 eid0 ds0 t s0 d0 :
    mid < length (m_nodes b) -> eid0 < length (m_edges b) ->
    dpath b i0 c0 sc0 ds0 t s0 -> In t (nth (i0 + length ds0) (m_layers b) []) ->
    e_from (get_edge b eid0) = t -> e_dec (get_edge b eid0) = d0 ->
    (transition_cost pb s0 (transition pb s0 d0) d0 <= e_cost (get_edge b eid0))%Z ->
    cov (n_state (gn b mid)) (transition pb s0 d0) ->
    dpath (redirect_step inp merged mid b eid0) i0 c0 sc0 (ds0 ++ [d0]) mid (transition pb s0 d0).
  Proof.
    intros Hmid He Hp Hlay Hf Hd Hcost Hcov.
    pose proof (gr_redirect_step merged mid b eid0) as G.
    set (b' := redirect_step inp merged mid b eid0) in *.
    set (e := get_edge b eid0) in *.
    set (rc := relax (ci_relax inp) (n_state (gn b (e_from e))) (n_state (gn b (e_to e))) merged (e_dec e) (e_cost e)).
    set (e' := {| e_from := e_from e; e_to := mid; e_dec := e_dec e; e_cost := rc |}).
    assert (Hb' : b' = append_edge inp (add_log b (EvRelax (n_state (gn b (e_from e))) (n_state (gn b (e_to e)))
                                  merged (e_dec e) (e_cost e) rc)) e') by reflexivity.
    assert (Hedges : m_edges b' = m_edges b ++ [e']) by (rewrite Hb'; reflexivity).
    assert (Hnew : get_edge b' (length (m_edges b)) = e') by (apply (ge_snoc_new b b' e' Hedges)).
    apply (dp_snoc b' i0 c0 sc0 ds0 t s0 d0 (length (m_edges b)) mid).
    - eapply dpath_gr; eauto.
    - rewrite (gr_layers _ _ G). exact Hlay.
    - pose proof (gr_nodes _ _ G). lia.
    - rewrite Hedges, app_length. simpl. lia.
    - rewrite Hb'. change mid with (e_to e') at 1. rewrite gn_append_same by exact Hmid.
      cbv zeta. nsimpl. left; reflexivity.
    - rewrite Hnew. exact Hf.
    - rewrite Hnew. exact Hd.
    - rewrite Hnew. unfold e'. nsimpl. unfold rc. fold rlx.
      eapply Z.le_trans; [exact Hcost|apply relax_ge].
    - rewrite (gr_state _ _ mid G Hmid). exact Hcov.
  Qed.

  (* the sources of the arcs *)
  Definition Src (m : mdd) (c : nat) : Prop :=
    exists eid, eid < length (m_edges m) /\ e_from (get_edge m eid) = c.
  Definition srcs (m m' : mdd) : Prop := forall c, Src m' c -> Src m c.
  Lemma srcs_refl m : srcs m m. Proof. intros c H; exact H. Qed.
  Lemma srcs_trans a b c : srcs a b -> srcs b c -> srcs a c.
  Proof. intros H1 H2 x Hx. apply H1, H2, Hx. Qed.
  Lemma srcs_edges_eq (m m' : mdd) : m_edges m' = m_edges m -> srcs m m'.
  Proof.
    intros He c (eid & H1 & H2). exists eid. rewrite He in H1. rewrite (ge_edges_eq m m' eid He) in H2. auto.
  Qed.
  Lemma Src_gr m m' c : gr m m' -> Src m c -> Src m' c.
  Proof.
    intros G (eid & H1 & H2). exists eid. split; [pose proof (gr_edges_len _ _ G); lia|].
    rewrite (gr_edge _ _ eid G H1). exact H2.
  Qed.

  Lemma srcs_redirect_step merged mid (a : mdd) eid :
    eid < length (m_edges a) -> srcs a (redirect_step inp merged mid a eid).
  Proof.
    intros He c (x & H1 & H2). unfold redirect_step in H1, H2. cbv zeta in H1, H2.
    match type of H1 with _ < length (m_edges (append_edge inp ?aa ?ee)) => set (a1 := aa) in *; set (e := ee) in * end.
    assert (Hedges : m_edges (append_edge inp a1 e) = m_edges a ++ [e]) by reflexivity.
    rewrite Hedges, app_length in H1. simpl in H1.
    destruct (Nat.eq_dec x (length (m_edges a))) as [->|Hne].
    - rewrite (ge_snoc_new a _ e Hedges) in H2. unfold e in H2. nsimpl_in H2. exists eid. auto.
    - rewrite (ge_snoc_old a _ e x Hedges) in H2 by lia. exists x. split; [lia|exact H2].
  Qed.

  Lemma srcs_drop_step merged mid (b : mdd) did :
    Rinv mid b -> did < length (m_nodes b) -> srcs b (drop_step inp merged mid b did).
  Proof.
    intros HR Hd. unfold drop_step. rewrite redirect_edges_fold.
    set (b1 := upd_node b did (fun n => set_flags n (fl_set_deleted (n_flags n) true))).
    assert (HR1 : Rinv mid b1) by (apply (Rinv_upd_flag mid b did (fun n => fl_set_deleted (n_flags n) true)); auto).
    assert (Hd1 : did < length (m_nodes b1)) by (unfold b1; msimpl; rewrite upd_nth_length; exact Hd).
    assert (Hall : forall eid, In eid (n_inb (gn b1 did)) -> eid < length (m_edges b1)).
    { intros eid Hin. destruct HR1 as (HE1 & _). apply (E_inb _ HE1 did eid Hd1 Hin). }
    assert (S01 : srcs b b1) by (apply srcs_edges_eq; reflexivity).
    eapply srcs_trans; [exact S01|].
    apply (fold_left_inv (fun a => gr b1 a /\ srcs b1 a)).
    - split; [apply gr_refl|apply srcs_refl].
    - intros a eid Hin (Ga & Sa). split.
      + eapply gr_trans; [exact Ga|apply gr_redirect_step].
      + eapply srcs_trans; [exact Sa|]. apply srcs_redirect_step.
        pose proof (gr_edges_len _ _ Ga). specialize (Hall eid Hin). lia.
  Qed.

  Lemma srcs_drop_fold merged mid mrg (m2 : mdd) :
    Rinv mid m2 -> (forall x, In x mrg -> x < length (m_nodes m2)) ->
    srcs m2 (fold_left (drop_step inp merged mid) mrg m2).
  Proof.
    intros HR Hmrg.
    apply (fold_left_inv (fun b => Rinv mid b /\ gr m2 b /\ srcs m2 b)).
    - split; [exact HR|]. split; [apply gr_refl|apply srcs_refl].
    - intros b x Hx (Rb & Gb & Sb).
      assert (Hxb : x < length (m_nodes b)) by (pose proof (gr_nodes _ _ Gb); specialize (Hmrg x Hx); lia).
      split; [apply Rinv_drop_step; auto|]. split.
      + eapply gr_trans; [exact Gb|apply gr_drop_step].
      + eapply srcs_trans; [exact Sb|apply srcs_drop_step; auto].
  Qed.

  Lemma drop_fold_track merged mid mrg (m2 : mdd) :
    Rinv mid m2 -> (forall x, In x mrg -> x < length (m_nodes m2)) ->
    let m3 := fold_left (drop_step inp merged mid) mrg m2 in
    Rinv mid m3 /\ gr m2 m3 /\
    forall i0 c0 sc0 u ds0 d0 t s0 eid0, In u mrg -> In eid0 (n_inb (gn m2 u)) ->
      dpath m2 i0 c0 sc0 ds0 t s0 -> In t (nth (i0 + length ds0) (m_layers m2) []) ->
      e_from (get_edge m2 eid0) = t -> e_dec (get_edge m2 eid0) = d0 ->
      (transition_cost pb s0 (transition pb s0 d0) d0 <= e_cost (get_edge m2 eid0))%Z ->
      cov (n_state (gn m2 mid)) (transition pb s0 d0) ->
      dpath m3 i0 c0 sc0 (ds0 ++ [d0]) mid (transition pb s0 d0).
  Proof.
    intros HR Hmrg. cbv zeta.
    assert (Hstep : forall b x, In x mrg -> Rinv mid b /\ gr m2 b ->
               Rinv mid (drop_step inp merged mid b x) /\ gr m2 (drop_step inp merged mid b x)).
    { intros b x Hx (Rb & Gb). split.
      - apply Rinv_drop_step; [exact Rb|]. pose proof (gr_nodes _ _ Gb). specialize (Hmrg x Hx). lia.
      - eapply gr_trans; [exact Gb|apply gr_drop_step]. }
    assert (Hall : Rinv mid (fold_left (drop_step inp merged mid) mrg m2) /\
                   gr m2 (fold_left (drop_step inp merged mid) mrg m2)).
    { apply (fold_left_inv (fun b => Rinv mid b /\ gr m2 b)); [split; [exact HR|apply gr_refl]|].
      intros b x Hx Hb. apply Hstep; assumption. }
    destruct Hall as [A1 A2]. split; [exact A1|]. split; [exact A2|].
    intros i0 c0 sc0 u ds0 d0 t s0 eid0 Hu Hin Hp Hlay Hf Hd Hcost Hcov.
    assert (Hmid2 : mid < length (m_nodes m2)) by apply HR.
    assert (Hu2 : u < length (m_nodes m2)) by (apply Hmrg; exact Hu).
    assert (He2 : eid0 < length (m_edges m2)).
    { destruct HR as (HE & _). apply (E_inb _ HE u eid0 Hu2 Hin). }
    set (P := fun b : mdd => dpath b i0 c0 sc0 (ds0 ++ [d0]) mid (transition pb s0 d0)).
    apply (fold_left_hit (fun b => Rinv mid b /\ gr m2 b) P (drop_step inp merged mid) mrg m2 u Hu).
    - split; [exact HR|apply gr_refl].
    - intros b y Hy Hb. apply Hstep; assumption.
    - intros b (Rb & Gb). unfold drop_step. rewrite redirect_edges_fold.
      set (b1 := upd_node b u (fun n => set_flags n (fl_set_deleted (n_flags n) true))).
      assert (HR1 : Rinv mid b1) by (apply (Rinv_upd_flag mid b u (fun n => fl_set_deleted (n_flags n) true)); auto).
      assert (G1 : gr m2 b1).
      { eapply gr_trans; [exact Gb|]. unfold b1. apply gr_upd_node; intros; reflexivity. }
      assert (Hu1 : u < length (m_nodes b1)) by (pose proof (gr_nodes _ _ G1); lia).
      assert (Hin1 : In eid0 (n_inb (gn b1 u))) by (destruct G1 as [_ I1]; apply I1; exact Hin).
      assert (Hall1 : forall eid, In eid (n_inb (gn b1 u)) -> eid < length (m_edges b1)).
      { intros eid Hi. destruct HR1 as (HE1 & _). apply (E_inb _ HE1 u eid Hu1 Hi). }
      apply (fold_left_hit (fun c => Rinv mid c /\ gr b1 c) P (redirect_step inp merged mid)
               (n_inb (gn b1 u)) b1 eid0 Hin1).
      + split; [exact HR1|apply gr_refl].
      + intros c y Hy (Rc & Gc). split.
        * apply Rinv_redirect_step; [exact Rc|]. pose proof (gr_edges_len _ _ Gc). specialize (Hall1 y Hy). lia.
        * eapply gr_trans; [exact Gc|apply gr_redirect_step].
      + intros c (Rc & Gc). assert (G2c : gr m2 c) by (eapply gr_trans; eauto).
        apply (redirect_step_track merged mid c i0 c0 sc0 eid0 ds0 t s0 d0).
        * apply Rc.
        * pose proof (gr_edges_len _ _ G2c). lia.
        * eapply dpath_gr; eauto.
        * rewrite (gr_layers _ _ G2c). exact Hlay.
        * rewrite (gr_edge _ _ eid0 G2c He2). exact Hf.
        * rewrite (gr_edge _ _ eid0 G2c He2). exact Hd.
        * rewrite (gr_edge _ _ eid0 G2c He2). exact Hcost.
        * rewrite (gr_state _ _ mid G2c Hmid2). exact Hcov.
      + intros c y Hy (Rc & Gc) Pc. unfold P in *. eapply dpath_gr; [apply gr_redirect_step|exact Pc].
    - intros b y Hy (Rb & Gb) Pb. unfold P in *. eapply dpath_gr; [apply gr_drop_step|exact Pb].
  Qed.

  Lemma dpath_snoc_inv m i u s ds t' s'' :
    dpath m i u s ds t' s'' -> ds <> [] ->
    exists ds0 d0 t s0 eid0, ds = ds0 ++ [d0] /\ s'' = transition pb s0 d0 /\
      dpath m i u s ds0 t s0 /\ In t (nth (i + length ds0) (m_layers m) []) /\
      t' < length (m_nodes m) /\ eid0 < length (m_edges m) /\ In eid0 (n_inb (gn m t')) /\
      e_from (get_edge m eid0) = t /\ e_dec (get_edge m eid0) = d0 /\
      (transition_cost pb s0 (transition pb s0 d0) d0 <= e_cost (get_edge m eid0))%Z /\
      cov (n_state (gn m t')) (transition pb s0 d0).
  Proof.
    intros Hp Hne. destruct Hp as [i u s Hu Hc|i u s ds t s' d eid t' Hp Hlay Ht' He Hin Hf Hd Hcost Hcov].
    - congruence.
    - exists ds, d, t, s', eid. repeat split; auto.
  Qed.

  Lemma is_exact_set_relaxed (n : node) : fl_is_exact (n_flags (set_relaxed_flag n)) = false.
  Proof. unfold set_relaxed_flag, fl_is_exact. nsimpl. apply andb_false_r. Qed.

  Lemma relax_layer_sim (m : mdd) l dd :
    Dinv inp m -> Einv m -> layer_ok inp m l dd -> ci_width inp < length l ->
    Einv (fst (relax_layer st_eqb inp m l)) /\ gr m (fst (relax_layer st_eqb inp m l)) /\
    srcs m (fst (relax_layer st_eqb inp m l)) /\
    forall i0 c0 sc0 u ds s', In u l -> ds <> [] -> dpath m i0 c0 sc0 ds u s' ->
      exists u', In u' (snd (relax_layer st_eqb inp m l)) /\
                 dpath (fst (relax_layer st_eqb inp m l)) i0 c0 sc0 ds u' s'.
  Proof.
    intros HD HE Hl Hw.
    assert (Hex : exists w1, ci_width inp = S w1) by (exists (ci_width inp - 1); lia).
    destruct Hex as [w1 Ew]. rewrite Ew in Hw.
    rewrite (relax_layer_unfold st_eqb inp m l w1 Ew). cbv zeta.
    destruct (note_squash_fields inp Hclean m) as (F1 & F2 & F3 & F4 & F5 & F6 & F7 & F8 & F9).
    set (m0 := note_squash inp m) in *.
    assert (Hgn0 : forall k, gn m0 k = gn m k) by (intros k; apply gn_nodes_eq; exact F1).
    assert (G0 : gr m m0) by (split; [apply ext_note_squash|apply inbinc_same_nodes; exact F1]).
    assert (HE0 : Einv m0).
    { eapply Einv_frame; [exact F1|exact F2| | |exact HE]; [lia|]. rewrite F5, F1. apply (E_le _ HE). }
    set (sorted := sort_by (rank_order inp m0) l).
    assert (Hsorted : forall x, In x sorted <-> In x l) by (intros x; apply sort_by_In).
    set (keep := firstn w1 sorted). set (mrg := skipn w1 sorted).
    assert (Hsplit : sorted = keep ++ mrg) by (symmetry; apply firstn_skipn).
    set (mstates := map (fun id => n_state (gn m0 id)) mrg).
    set (merged := merge (ci_relax inp) mstates).
    set (m1 := add_log m0 (EvMerge mstates merged)).
    assert (G1 : gr m m1) by (eapply gr_trans; [exact G0|apply gr_add_log]).
    assert (HE1 : Einv m1).
    { eapply Einv_frame; [| | | |exact HE0]; try reflexivity. apply (E_le _ HE0). }
    assert (Hl1 : forall x, In x l -> m_layer_end m1 <= x < length (m_nodes m1)).
    { intros x Hx. destruct (Hl x Hx) as [Hr _]. change (m_layer_end m1) with (m_layer_end m0).
      change (length (m_nodes m1)) with (length (m_nodes m0)). rewrite F5, F1. exact Hr. }
    assert (Hkeep : forall x, In x keep -> In x l).
    { intros x Hx. apply Hsorted. rewrite Hsplit. apply in_or_app; left; exact Hx. }
    assert (Hmrg : forall x, In x mrg -> In x l).
    { intros x Hx. apply Hsorted. rewrite Hsplit. apply in_or_app; right; exact Hx. }
    (* the common argument once the merged node [mid] is in place in [m2] *)
    assert (Core : forall (m2 : mdd) mid, gr m m2 -> Rinv mid m2 -> n_state (gn m2 mid) = merged ->
              length (m_nodes m1) <= length (m_nodes m2) ->
              let m3 := fold_left (drop_step inp merged mid) mrg m2 in
              Einv m3 /\ gr m m3 /\ srcs m2 m3 /\
              forall i0 c0 sc0 u ds s', In u mrg -> ds <> [] -> dpath m i0 c0 sc0 ds u s' -> dpath m3 i0 c0 sc0 ds mid s').
    { intros m2 mid G2 R2 Hst Hlen. cbv zeta.
      assert (Hmrg2 : forall x, In x mrg -> x < length (m_nodes m2)).
      { intros x Hx. apply Hmrg in Hx. apply Hl1 in Hx. lia. }
      destruct (drop_fold_track merged mid mrg m2 R2 Hmrg2) as (T1 & T2 & T3).
      split; [apply T1|]. split; [eapply gr_trans; eauto|].
      split; [apply srcs_drop_fold; auto|].
      intros i0 c0 sc0 u ds s' Hu Hne Hp.
      destruct (dpath_snoc_inv _ _ _ _ _ _ _ Hp Hne) as (ds0 & d0 & t & s0 & eid0 & -> & -> & P0 & P1 & P2 & P3 & P4 & P5 & P6 & P7 & P8).
      apply (T3 i0 c0 sc0 u ds0 d0 t s0 eid0 Hu).
      - destruct G2 as [_ I2]. apply I2. exact P4.
      - eapply dpath_gr; eauto.
      - rewrite (gr_layers _ _ G2). exact P1.
      - rewrite (gr_edge _ _ eid0 G2 P3). exact P5.
      - rewrite (gr_edge _ _ eid0 G2 P3). exact P6.
      - rewrite (gr_edge _ _ eid0 G2 P3). exact P7.
      - rewrite Hst. unfold merged. fold rlx. apply (merge_cov mstates (n_state (gn m u))).
        + unfold mstates. rewrite <- Hgn0. apply (in_map (fun id => n_state (gn m0 id))). exact Hu.
        + exact P8. }
    destruct (find (fun id => st_eqb (n_state (gn m1 id)) merged) keep) as [rid|] eqn:Hrec.
    - (* recycled *)
      apply find_some in Hrec. destruct Hrec as [Hin Heq]. apply st_eqb_spec in Heq.
      pose proof (Hl1 rid (Hkeep rid Hin)) as Hr.
      set (m2 := upd_node m1 rid set_relaxed_flag).
      assert (G12 : gr m1 m2) by (unfold m2; apply gr_upd_node; intros; reflexivity).
      assert (HE2 : Einv m2).
      { unfold m2. apply Einv_upd_open; [exact HE1|lia|]. intros n.
        repeat split; auto. rewrite is_exact_set_relaxed. discriminate. }
      assert (R2 : Rinv rid m2).
      { split; [exact HE2|]. split; [change (m_layer_end m2) with (m_layer_end m1); lia|].
        split; [unfold m2; msimpl; rewrite upd_nth_length; lia|].
        unfold m2. rewrite gn_upd_same by lia. reflexivity. }
      destruct (Core m2 rid) as (C1 & C2 & C2s & C3).
      { eapply gr_trans; eauto. } { exact R2. }
      { unfold m2. rewrite gn_upd_same by lia. exact Heq. }
      { unfold m2. msimpl. rewrite upd_nth_length. lia. }
      cbv zeta in C1, C2, C2s, C3.
      set (m3 := fold_left (drop_step inp merged rid) mrg m2) in *.
      cbn [fst snd].
      set (m4 := upd_node m3 (nth w1 sorted 0) clear_deleted_flag).
      assert (Hc4 : ceq inp m3 m4).
      { unfold m4. apply ceq_upd_node. intros n. apply core_eq_set_flags_nc; reflexivity. }
      assert (G34 : gr m3 m4) by (unfold m4; apply gr_upd_node; intros; reflexivity).
      split; [eapply Einv_ceq; eauto|]. split; [eapply gr_trans; eauto|].
      split.
      { eapply srcs_trans; [apply (srcs_edges_eq m m2); unfold m2; msimpl; exact F2|].
        eapply srcs_trans; [exact C2s|]. apply srcs_edges_eq. reflexivity. }
      intros i0 c0 sc0 u ds s' Hu Hne Hp. apply Hsorted in Hu. rewrite Hsplit in Hu. apply in_app_or in Hu.
      destruct Hu as [Hu|Hu].
      + exists u. split.
        * assert (Hfs : firstn (S w1) sorted = firstn (S w1) (keep ++ mrg)) by (rewrite <- Hsplit; reflexivity).
          rewrite Hfs. rewrite firstn_app. apply in_or_app. left.
          rewrite firstn_all2; [exact Hu|]. unfold keep. rewrite firstn_length. lia.
        * eapply dpath_gr; [|exact Hp]. eapply gr_trans; eauto.
      + exists rid. split.
        * assert (Hfs : firstn (S w1) sorted = firstn (S w1) (keep ++ mrg)) by (rewrite <- Hsplit; reflexivity).
          rewrite Hfs. rewrite firstn_app. apply in_or_app. left.
          rewrite firstn_all2; [exact Hin|]. unfold keep. rewrite firstn_length. lia.
        * eapply dpath_gr; [exact G34|]. apply (C3 i0 c0 sc0 u); auto.
    - (* fresh merged node *)
      set (mid := length (m_nodes m1)).
      set (n := merged_node merged (n_depth (gn m1 (hd 0 mrg)))).
      set (m1' := with_nodes m1 (m_nodes m1 ++ [n])).
      set (m2 := upd_node m1' mid set_relaxed_flag).
      assert (Hlen1' : length (m_nodes m1') = S mid) by apply len_snoc.
      assert (G11' : gr m1 m1') by apply gr_snoc.
      assert (G12 : gr m1' m2) by (unfold m2; apply gr_upd_node; intros; reflexivity).
      assert (HE1' : Einv m1') by (apply Einv_snoc; [exact HE1|reflexivity]).
      pose proof (E_le _ HE1) as Hle1.
      assert (HE2 : Einv m2).
      { unfold m2. apply Einv_upd_open; [exact HE1'|exact Hle1|]. intros n0.
        repeat split; auto. rewrite is_exact_set_relaxed. discriminate. }
      assert (R2 : Rinv mid m2).
      { split; [exact HE2|]. split; [exact Hle1|].
        split; [unfold m2; msimpl; rewrite upd_nth_length; fold m1'; lia|].
        unfold m2. rewrite gn_upd_same by lia. reflexivity. }
      destruct (Core m2 mid) as (C1 & C2 & C2s & C3).
      { eapply gr_trans; [exact G1|]. eapply gr_trans; eauto. } { exact R2. }
      { unfold m2. rewrite gn_upd_same by lia. unfold m1', mid. rewrite gn_snoc_new. reflexivity. }
      { unfold m2. msimpl. rewrite upd_nth_length. fold m1'. lia. }
      cbv zeta in C1, C2, C2s, C3. cbn [fst snd].
      split; [exact C1|]. split; [exact C2|].
      split.
      { eapply srcs_trans; [apply (srcs_edges_eq m m2); unfold m2, m1'; msimpl; exact F2|exact C2s]. }
      intros i0 c0 sc0 u ds s' Hu Hne Hp. apply Hsorted in Hu. rewrite Hsplit in Hu. apply in_app_or in Hu.
      destruct Hu as [Hu|Hu].
      + exists u. split; [apply in_or_app; left; exact Hu|]. eapply dpath_gr; eauto.
      + exists mid. split; [apply in_or_app; right; left; reflexivity|]. apply (C3 i0 c0 sc0 u); auto.
  Qed.

  (* ---------------------------------------------------------------- 2i. squash_if_needed *)
  Definition enabled (m : mdd) : Prop := ci_type inp = Restricted -> m_lel m = None.

  Lemma append_edge_lel (m : mdd) e : m_lel (append_edge inp m e) = m_lel m.
  Proof. reflexivity. Qed.
  Lemma branch_on_lel (m : mdd) id d : m_lel (branch_on st_eqb inp m id d) = m_lel m.
  Proof.
    unfold branch_on. cbv zeta.
    match goal with |- context [find_next ?a ?b ?c ?d] => destruct (find_next a b c d) end; reflexivity.
  Qed.
  Lemma expand_node_lel var (m : mdd) id : m_lel (expand_node st_eqb inp var m id) = m_lel m.
  Proof.
    unfold expand_node. cbv zeta. destruct (_ >? _)%Z; [|reflexivity].
    rewrite (fold_left_proj (fun a : mdd => m_lel a)); [reflexivity|]. intros a x. apply branch_on_lel.
  Qed.
  Lemma expand_layer_lel var l (m : mdd) : m_lel (fold_left (expand_node st_eqb inp var) l m) = m_lel m.
  Proof. apply (fold_left_proj (fun a : mdd => m_lel a)). intros a x. apply expand_node_lel. Qed.

  Lemma squash_sim (mc : mdd) lc dd :
    Dinv inp mc -> Xinv inp mc -> Einv mc -> layer_ok inp mc lc dd ->
    Einv (fst (squash_if_needed st_eqb inp mc lc)) /\ gr mc (fst (squash_if_needed st_eqb inp mc lc)) /\
    srcs mc (fst (squash_if_needed st_eqb inp mc lc)) /\
    (enabled (fst (squash_if_needed st_eqb inp mc lc)) -> enabled mc) /\
    forall i0 c0 sc0 u ds s', In u lc -> (1 < length (m_layers mc) -> ds <> []) ->
      enabled (fst (squash_if_needed st_eqb inp mc lc)) -> dpath mc i0 c0 sc0 ds u s' ->
      exists u', In u' (snd (squash_if_needed st_eqb inp mc lc)) /\
                 dpath (fst (squash_if_needed st_eqb inp mc lc)) i0 c0 sc0 ds u' s'.
  Proof.
    intros HD HX HE Hl. unfold squash_if_needed.
    assert (Htriv : Einv mc /\ gr mc mc /\ srcs mc mc /\ (enabled mc -> enabled mc) /\
              forall i0 c0 sc0 u ds s', In u lc -> (1 < length (m_layers mc) -> ds <> []) -> enabled mc ->
                dpath mc i0 c0 sc0 ds u s' -> exists u', In u' lc /\ dpath mc i0 c0 sc0 ds u' s').
    { split; [exact HE|]. split; [apply gr_refl|]. split; [apply srcs_refl|]. split; [auto|].
      intros i0 c0 sc0 u ds s' Hu _ _ Hp. exists u; auto. }
    destruct (ci_type inp) eqn:Et.
    - exact Htriv.
    - destruct (Nat.ltb (ci_width inp) (length lc) && Nat.ltb 1 (length (m_layers mc))) eqn:Eg; [|exact Htriv].
      apply andb_true_iff in Eg. destruct Eg as [E1 E2].
      apply Nat.ltb_lt in E1. apply Nat.ltb_lt in E2.
      destruct (relax_layer_sim mc lc dd HD HE Hl E1) as (R1 & R2 & R2s & R3).
      split; [exact R1|]. split; [exact R2|]. split; [exact R2s|]. split.
      + intros _ Ht. rewrite Et in Ht. discriminate.
      + intros i0 c0 sc0 u ds s' Hu Hne _ Hp. apply (R3 i0 c0 sc0 u); auto.
    - destruct (Nat.ltb (ci_width inp) (length lc)) eqn:Eg; [|exact Htriv].
      unfold restrict_layer. cbv zeta. cbn [fst snd].
      destruct (note_squash_fields inp Hclean mc) as (F1 & F2 & F3 & F4 & F5 & F6 & F7 & F8 & F9).
      set (m0 := note_squash inp mc) in *.
      assert (G0 : gr mc m0) by (split; [apply ext_note_squash|apply inbinc_same_nodes; exact F1]).
      assert (HE0 : Einv m0).
      { eapply Einv_frame; [exact F1|exact F2| | |exact HE]; [lia|]. rewrite F5, F1. apply (E_le _ HE). }
      set (ids := skipn (ci_width inp) (sort_by (rank_order inp m0) lc)).
      pose proof (mark_deleted_ceq inp ids m0) as Hc.
      assert (Hlel : m_lel (mark_deleted m0 ids) <> None).
      { destruct Hc as (_ & _ & _ & _ & Hlel & _). rewrite Hlel, F8. destruct (m_lel mc); discriminate. }
      split; [eapply Einv_ceq; eauto|]. split.
      { eapply gr_trans; [exact G0|]. apply gr_ceq; [exact Hc|apply ext_mark_deleted]. }
      split.
      { apply srcs_edges_eq. destruct Hc as ((Hce & _) & _). rewrite Hce. exact F2. }
      split.
      + intros Hen. exfalso. apply Hlel. apply Hen. exact Et.
      + intros i0 c0 sc0 u ds s' _ _ Hen. exfalso. apply Hlel. apply Hen. exact Et.
  Qed.

  (* ---------------------------------------------------------------- 2j. _move_to_next_layer *)
  Lemma dpath_ceq m m' i u s ds t s' : ceq inp m m' -> dpath m i u s ds t s' -> dpath m' i u s ds t s'.
  Proof.
    intros (Hp & _ & _ & Hl & _) H. eapply dpath_peq; eauto. intros k x. rewrite Hl. auto.
  Qed.

  Lemma move_sim (m : mdd) d :
    Cinv d m -> m_next m <> [] ->
    exists m3 l ids, move_to_next_layer_clean st_eqb inp m = (m3, Some l) /\
      Cinv (S d) m3 /\ m_next m3 = [] /\
      (forall id, In id l -> id < m_layer_end m3 /\ n_depth (gn m3 id) = d) /\
      m_curr_depth m3 = m_curr_depth m /\ m_layers m3 = m_layers m ++ [ids] /\
      (forall id, In id l -> In id ids) /\
      (enabled m3 -> enabled m) /\
      (forall i0 c0 sc0 u ds s', In u (m_next m) -> (1 < length (m_layers m) -> ds <> []) -> enabled m3 ->
        dpath m i0 c0 sc0 ds u s' -> exists u', In u' l /\ dpath m3 i0 c0 sc0 ds u' s') /\
      srcs m m3 /\
      (forall x, x < m_layer_end m -> core_eq (gn m x) (gn m3 x)) /\
      (forall x, Src m3 x -> ~ In x ids) /\
      (forall x, In x ids -> m_layer_end m <= x) /\
      m_layer_end m <= m_layer_end m3.
  Proof.
    intros (HD & HX & Hnd & HE) Hne.
    rewrite move_clean_unfold.
    destruct (m_next m) as [|c0 cs] eqn:En; [congruence|].
    set (curr := c0 :: cs) in *.
    set (ma := with_next m []).
    assert (Hpa : peq inp m ma) by (apply peq_same_nodes; reflexivity).
    assert (HDa : Dinv inp ma).
    { eapply (Dg_peq inp Hclean); [exact Hpa|exact HD|apply Nat.le_refl|apply (D_le _ _ _ HD)|]. intros id []. }
    assert (HXa : Xinv inp ma) by (eapply Xg_peq; [exact Hpa|reflexivity|reflexivity|reflexivity|exact HX]).
    assert (HEa : Einv ma).
    { eapply Einv_frame; [| | | |exact HE]; try reflexivity. apply (E_le _ HE). }
    assert (Hla : layer_ok inp ma curr d).
    { intros id Hid. rewrite <- En in Hid. split; [apply (D_next _ _ _ HD id Hid)|apply Hnd; exact Hid]. }
    (* cache filter *)
    assert (Hb : ceq inp ma (fst (prefilter st_eqb inp ma curr)) /\ snd (prefilter st_eqb inp ma curr) = curr).
    { unfold prefilter. destruct (Nat.ltb 0 (length (m_layers ma))).
      - split; [apply (filter_with_cache_ceq st_eqb inp Hclean curr ma)|apply filter_with_cache_nocache].
      - split; [apply ceq_refl|reflexivity]. }
    destruct (prefilter st_eqb inp ma curr) as [mb lb0]. cbn [fst snd] in Hb. destruct Hb as [Hcb ->].
    (* dominance filter *)
    pose proof (filter_with_dominance_ceq inp mb curr) as [Hcc _].
    pose proof (filter_with_dominance_nodom mb curr) as Hlc.
    destruct (filter_with_dominance inp mb curr) as [mc lc]. cbn [fst snd] in Hcc, Hlc.
    assert (Hac : ceq inp ma mc) by (eapply ceq_trans; eauto).
    assert (HDc : Dinv inp mc) by (eapply (Dg_ceq inp Hclean); eauto).
    assert (HXc : Xinv inp mc) by (eapply Xinv_ceq; eauto).
    assert (HEc : Einv mc) by (eapply Einv_ceq; eauto).
    assert (Hlcl : layer_ok inp mc lc d).
    { eapply layer_ok_stable; [apply ceq_stable; exact Hac|exact Hla|]. intros x Hx. apply Hlc. exact Hx. }
    assert (Hnc : m_next mc = []) by (destruct Hac as (_ & Hn & _); rewrite Hn; reflexivity).
    (* squash *)
    destruct (squash_if_needed_inv st_eqb inp Hclean mc lc d HDc HXc Hlcl) as (Q1 & Q2 & Q3 & Q4 & Q5).
    destruct (squash_sim mc lc d HDc HXc HEc Hlcl) as (S1 & S2 & S2s & S3 & S4).
    destruct (squash_if_needed st_eqb inp mc lc) as [md ld]. cbn [fst snd] in *.
    set (from := m_layer_end md). set (to := length (m_nodes md)).
    assert (Hft : from <= to) by apply (D_le _ _ _ Q1).
    set (m3 := push_layer md (seq from (to - from)) to).
    assert (Hp : peq inp md m3) by (apply peq_same_nodes; reflexivity).
    exists m3, ld, (seq from (to - from)).
    split; [reflexivity|].
    assert (Hlay3 : m_layers m3 = m_layers m ++ [seq from (to - from)]).
    { unfold m3. msimpl. f_equal. rewrite (gr_layers _ _ S2).
      destruct Hac as (_ & _ & _ & Hl & _). rewrite Hl. reflexivity. }
    assert (Hle_mc : m_layer_end mc = m_layer_end m).
    { destruct Hac as (_ & _ & Hl & _). rewrite Hl. reflexivity. }
    assert (Hle_md : m_layer_end md = m_layer_end m).
    { destruct Q3 as (q1 & _). rewrite q1. exact Hle_mc. }
    split; [|split; [|split; [|split; [|split; [|split; [|split; [|split; [|split; [|split; [|split; [|split]]]]]]]]]]].
    - split; [|split; [|split]].
      + eapply (Dg_peq inp Hclean); [exact Hp|exact Q1|exact Hft|apply Nat.le_refl|].
        intros id Hid. unfold m3 in Hid. msimpl_in Hid. rewrite Q4, Hnc in Hid. destruct Hid.
      + apply Xg_push_layer.
        * eapply Xg_weaken; [|exact Q2]. exact Hft.
        * apply Nat.le_refl.
        * intros id Hid. apply in_seq in Hid. unfold m3. msimpl. unfold from, to in *. lia.
      + intros id Hid. unfold m3 in Hid. msimpl_in Hid. rewrite Q4, Hnc in Hid. destruct Hid.
      + apply (Einv_frame md m3); [reflexivity|reflexivity|exact Hft|apply Nat.le_refl|exact S1].
    - unfold m3. msimpl. rewrite Q4. exact Hnc.
    - intros id Hid. destruct (Q5 id Hid) as [Hr Hdp]. unfold m3. msimpl. split; [unfold to; lia|exact Hdp].
    - unfold m3. msimpl. destruct Q3 as (_ & _ & _ & _ & q5). rewrite q5.
      destruct Hac as (_ & _ & _ & _ & _ & _ & a7). rewrite a7. reflexivity.
    - exact Hlay3.
    - intros id Hid. destruct (Q5 id Hid) as [Hr _]. apply in_seq. unfold from, to. lia.
    - intros Hen. assert (Hmc : enabled mc) by (apply S3; exact Hen).
      intros Ht. specialize (Hmc Ht). destruct Hac as (_ & _ & _ & _ & Hlel & _). rewrite Hlel in Hmc. exact Hmc.
    - intros i0 cc0 sc0 u ds s' Hu Hds Hen Hpth.
      assert (Hpc : dpath mc i0 cc0 sc0 ds u s').
      { eapply dpath_ceq; [exact Hac|]. eapply dpath_peq; [exact Hpa| |exact Hpth]. auto. }
      destruct (S4 i0 cc0 sc0 u ds s') as (u' & Hu' & Hp').
      + apply Hlc. exact Hu.
      + intros H1. apply Hds. destruct Hac as (_ & _ & _ & Hl & _). rewrite Hl in H1. exact H1.
      + exact Hen.
      + exact Hpc.
      + exists u'. split; [exact Hu'|]. eapply dpath_peq; [exact Hp| |exact Hp'].
        intros k x. unfold m3. msimpl. apply nth_layers_app.
    - eapply srcs_trans; [|eapply srcs_trans; [exact S2s|apply srcs_edges_eq; reflexivity]].
      apply srcs_edges_eq. destruct Hac as ((Hce & _) & _). rewrite Hce. reflexivity.
    - intros x Hx.
      destruct Hpa as (_ & _ & _ & A4a). destruct Hac as ((_ & _ & _ & A4c) & _).
      destruct Q3 as (_ & _ & q3 & _). destruct Hp as (_ & _ & _ & A4p).
      eapply (core_eq_trans inp Hclean); [apply A4a|]. eapply (core_eq_trans inp Hclean); [apply A4c|].
      eapply (core_eq_trans inp Hclean); [apply q3; rewrite Hle_mc; exact Hx|apply A4p].
    - intros x (eid & He1 & He2) Hin. apply in_seq in Hin.
      change (m_edges m3) with (m_edges md) in He1. change (get_edge m3 eid) with (get_edge md eid) in He2.
      pose proof (E_from _ S1 eid He1) as Hf. rewrite He2 in Hf. unfold from in Hin. lia.
    - intros x Hin. apply in_seq in Hin. unfold from in Hin. lia.
    - unfold m3. msimpl. unfold to, from in *. lia.
  Qed.

  (* ---------------------------------------------------------------- sources created by an expansion *)
  Lemma Src_branch_on (a : mdd) id d c : Src (branch_on st_eqb inp a id d) c -> Src a c \/ c = id.
  Proof.
    intros (eid & H1 & H2).
    destruct (branch_on_edge st_eqb inp a id d) as (e & He & Hf & _).
    rewrite He, app_length in H1. simpl in H1.
    destruct (Nat.eq_dec eid (length (m_edges a))) as [->|Hne].
    - right. rewrite (ge_snoc_new a _ e He) in H2. congruence.
    - left. exists eid. split; [lia|]. rewrite (ge_snoc_old a _ e eid He) in H2 by lia. exact H2.
  Qed.

  Lemma Src_expand_node var (a : mdd) id c : Src (expand_node st_eqb inp var a id) c -> Src a c \/ c = id.
  Proof.
    unfold expand_node. cbv zeta.
    set (a1 := upd_node a id _).
    assert (S1 : srcs a a1) by (apply srcs_edges_eq; reflexivity).
    destruct (_ >? _)%Z; [|intros H; left; apply S1; exact H].
    set (a2 := add_log a1 _).
    assert (S2 : srcs a a2) by (apply srcs_edges_eq; reflexivity).
    intros H.
    assert (G : forall l b, (forall x, Src b x -> Src a x \/ x = id) ->
              forall x, Src (fold_left (fun m0 val => branch_on st_eqb inp m0 id {| d_var := var; d_val := val |}) l b) x ->
              Src a x \/ x = id).
    { induction l as [|v l IH]; intros b Hb x Hx; simpl in Hx; [apply Hb; exact Hx|].
      apply (IH _ (fun y Hy => match Src_branch_on b id _ y Hy with
                               | or_introl H0 => Hb y H0 | or_intror H0 => or_intror H0 end) x Hx). }
    eapply (G _ a2); [|exact H]. intros x Hx. left. apply S2. exact Hx.
  Qed.

  Lemma Src_expand_layer var l : forall (a : mdd) c,
    Src (fold_left (expand_node st_eqb inp var) l a) c -> Src a c \/ In c l.
  Proof.
    induction l as [|id l IH]; intros a c H; simpl in H; [left; exact H|].
    destruct (IH _ c H) as [H1|H1]; [|right; right; exact H1].
    destruct (Src_expand_node var a id c H1) as [H2|H2]; [left; exact H2|right; left; congruence].
  Qed.

  (* ---------------------------------------------------------------- prefixes of a promising run, any start *)
  Lemma run_prefix k0 s0 v0 ds sN w jj :
    frn k0 s0 v0 ds = Some (sN, w) -> k0 + length ds = N -> (lb < w)%Z -> jj < length ds ->
    exists s1 v1 dj rest h, frn k0 s0 v0 (firstn jj ds) = Some (s1, v1) /\ skipn jj ds = dj :: rest /\
      var_ok pb (k0 + jj) dj = true /\ In (d_val dj) (domain pb (d_var dj) s1) /\
      H pb (k0 + jj) s1 = Some h /\ (lb < v1 + h)%Z.
  Proof.
    intros Hr Hlen Hlb Hj.
    assert (Hfl : length (firstn jj ds) = jj) by (rewrite firstn_length; lia).
    rewrite <- (firstn_skipn jj ds) in Hr. rewrite frun_app in Hr. rewrite Hfl in Hr.
    destruct (frn k0 s0 v0 (firstn jj ds)) as [[s1 v1]|] eqn:E1; [|discriminate].
    destruct (skipn jj ds) as [|dj rest] eqn:Es.
    { exfalso. pose proof (skipn_length jj ds) as Hs. rewrite Es in Hs. simpl in Hs. lia. }
    assert (Hsl : length (dj :: rest) = length ds - jj) by (rewrite <- Es; apply skipn_length).
    destruct (frun_le_H pb nv_static nv_none (dj :: rest) (k0 + jj) s1 v1 sN w) as (h & Hh & Hle); [lia|exact Hr|].
    cbn [frun] in Hr. destruct (var_ok pb (k0 + jj) dj) eqn:Ev; [|discriminate].
    destruct (in_domain pb s1 dj) eqn:Ed; [|discriminate].
    exists s1, v1, dj, rest, h. repeat split; auto; [apply in_domain_In; exact Ed|lia].
  Qed.

  Lemma frun_len_le ds : forall k s v r, frn k s v ds = Some r -> k <= N -> k + length ds <= N.
  Proof.
    induction ds as [|d ds IH]; intros k s v r Hr Hk; simpl in *; [lia|].
    destruct (var_ok pb k d) eqn:Ev; simpl in Hr; [|discriminate].
    destruct (in_domain pb s d); [|discriminate].
    assert (Hlt : k < N).
    { destruct (Nat.lt_ge_cases k N) as [H1|H1]; [exact H1|].
      unfold var_ok in Ev. rewrite nv_none in Ev by exact H1. discriminate. }
    specialize (IH (S k) _ _ r Hr Hlt). lia.
  Qed.

  Definition Start (i : nat) (sc : St) (vc : Z) : Prop :=
    exists pre, frn rd rs rv pre = Some (sc, vc) /\ length pre = i.

  Lemma Start_isize i sc vc ds1 s1 v1 : Start i sc vc -> frn (rd + i) sc vc ds1 = Some (s1, v1) -> in_isize v1.
  Proof.
    intros (pre & Hp & Hl) Hr. apply (guard_isize (pre ++ ds1) s1). rewrite frun_app, Hp, Hl. exact Hr.
  Qed.

  Lemma Start_H_isize i sc vc ds1 s1 v1 h :
    Start i sc vc -> frn (rd + i) sc vc ds1 = Some (s1, v1) -> rd + i + length ds1 <= N ->
    H pb (rd + i + length ds1) s1 = Some h -> in_isize (v1 + h).
  Proof.
    intros HS Hr Hle Hh.
    destruct (H_attained pb nv_static nv_some nv_none (N - (rd + i + length ds1)) (rd + i + length ds1) s1 v1 h eq_refl Hle Hh)
      as (ds2 & s2 & Hr2 & _).
    apply (Start_isize i sc vc (ds1 ++ ds2) s2 _ HS). rewrite frun_app, Hr. exact Hr2.
  Qed.

  (* ---------------------------------------------------------------- 2k. the layer loop *)
  Definition prom (ds : list decision) (sN : St) (w : Z) : Prop :=
    frn rd rs rv ds = Some (sN, w) /\ rd + length ds = N /\ (lb < w)%Z.

  Lemma firstn_S_skipn {A} j (l : list A) x r : skipn j l = x :: r -> firstn (S j) l = firstn j l ++ [x].
  Proof.
    revert l. induction j as [|j IH]; intros l H.
    - simpl in H. subst l. reflexivity.
    - destruct l as [|y l]; [discriminate|]. simpl in H. specialize (IH l H).
      change (firstn (S (S j)) (y :: l)) with (y :: firstn (S j) l). rewrite IH. reflexivity.
  Qed.

  Lemma prom_prefix ds sN w j : prom ds sN w -> j < length ds ->
    exists s1 v1 dj rest h, frn rd rs rv (firstn j ds) = Some (s1, v1) /\ skipn j ds = dj :: rest /\
      var_ok pb (rd + j) dj = true /\ In (d_val dj) (domain pb (d_var dj) s1) /\
      H pb (rd + j) s1 = Some h /\ (lb < v1 + h)%Z.
  Proof.
    intros (Hr & Hlen & Hlb) Hj.
    assert (Hfl : length (firstn j ds) = j) by (rewrite firstn_length; lia).
    rewrite <- (firstn_skipn j ds) in Hr. rewrite frun_app in Hr. rewrite Hfl in Hr.
    destruct (frn rd rs rv (firstn j ds)) as [[s1 v1]|] eqn:E1; [|discriminate].
    destruct (skipn j ds) as [|dj rest] eqn:Es.
    { exfalso. pose proof (skipn_length j ds) as Hs. rewrite Es in Hs. simpl in Hs. lia. }
    assert (Hsl : length (dj :: rest) = length ds - j) by (rewrite <- Es; apply skipn_length).
    destruct (frun_le_H pb nv_static nv_none (dj :: rest) (rd + j) s1 v1 sN w) as (h & Hh & Hle); [lia|exact Hr|].
    cbn [frun] in Hr. destruct (var_ok pb (rd + j) dj) eqn:Ev; [|discriminate].
    destruct (in_domain pb s1 dj) eqn:Ed; [|discriminate].
    exists s1, v1, dj, rest, h. repeat split; auto; [apply in_domain_In; exact Ed|lia].
  Qed.

  Definition Tinv (m : mdd) : Prop :=
    forall ds sN w, prom ds sN w -> enabled m ->
    exists u s', In u (m_next m) /\ dpath m 0 0 rs (firstn (m_curr_depth m - rd) ds) u s'.

  (* the same from any expanded node [c] of a closed layer [i], for any true state it covers *)
  Definition promC (i : nat) (sc : St) (vc : Z) (ds2 : list decision) (sN : St) (w : Z) : Prop :=
    frn (rd + i) sc vc ds2 = Some (sN, w) /\ rd + i + length ds2 = N /\ (lb < w)%Z.

  Definition UTinv (m : mdd) : Prop :=
    forall i c sc vc ds2 sN w, i < m_curr_depth m - rd ->
      In c (nth i (m_layers m) []) -> Src m c ->
      cov (n_state (gn m c)) sc -> (vc <= n_vtop (gn m c))%Z -> Start i sc vc ->
      promC i sc vc ds2 sN w -> enabled m ->
      n_depth (gn m c) = rd + i /\
      exists u s', In u (m_next m) /\ dpath m i c sc (firstn (m_curr_depth m - rd - i) ds2) u s'.

  Definition SrcLay (m : mdd) : Prop :=
    forall c, Src m c -> exists i, In c (nth i (m_layers m) []) /\ n_depth (gn m c) = rd + i.

  Definition Linv (m : mdd) : Prop :=
    Cinv (m_curr_depth m) m /\ rd <= m_curr_depth m /\ m_curr_depth m <= N /\
    length (m_layers m) = m_curr_depth m - rd /\ Tinv m /\ UTinv m /\ SrcLay m.

  Definition UPost (ml : mdd) : Prop :=
    forall i c sc vc ds2 sN w,
      In c (nth i (m_layers ml) []) -> Src ml c ->
      cov (n_state (gn ml c)) sc -> (vc <= n_vtop (gn ml c))%Z -> Start i sc vc ->
      promC i sc vc ds2 sN w -> enabled ml ->
      Einv ml /\ Xinv inp ml /\ length (m_layers ml) = N - rd /\ n_depth (gn ml c) = rd + i /\
      exists u s', In u (m_next ml) /\ m_layer_end ml <= u < length (m_nodes ml) /\ dpath ml i c sc ds2 u s'.

  Definition Post (ml : mdd) : Prop :=
    (forall u, In u (m_next ml) -> n_depth (gn ml u) = N) /\
    (forall ds sN w, prom ds sN w -> enabled ml ->
      Einv ml /\ length (m_layers ml) = N - rd /\
      exists u s', In u (m_next ml) /\ m_layer_end ml <= u < length (m_nodes ml) /\ dpath ml 0 0 rs ds u s') /\
    UPost ml /\ SrcLay ml /\ (m_next ml <> [] -> Xinv inp ml).

  Lemma dpath_frame m m' i u s ds t s' :
    m_nodes m' = m_nodes m -> m_edges m' = m_edges m -> m_layers m' = m_layers m ->
    dpath m i u s ds t s' -> dpath m' i u s ds t s'.
  Proof.
    intros Hn He Hl Hp. eapply dpath_transport; eauto; try (rewrite ?Hn, ?He; lia).
    - intros x _. rewrite (gn_nodes_eq inp m m' x Hn). reflexivity.
    - intros x. rewrite (gn_nodes_eq inp m m' x Hn). apply incl_refl.
    - intros eid _. apply ge_edges_eq. exact He.
    - intros k x. rewrite Hl. auto.
  Qed.

  Lemma layer_loop_sim : forall fuel (m m' : mdd),
    Linv m -> layer_loop st_eqb inp fuel m = (m', LoopDone) -> Post m'.
  Proof.
    induction fuel as [|fuel IH]; intros m m' HL Hloop; [simpl in Hloop; inversion Hloop|].
    destruct HL as (HC & Hd1 & Hd2 & Hlen & HT & HU & HSL).
    set (d := m_curr_depth m) in *.
    cbn [layer_loop] in Hloop. cbv zeta in Hloop.
    set (states := map (fun id => n_state (gn m id)) (m_next m)) in *.
    fold pb in Hloop.
    destruct (next_variable pb (m_curr_depth m) states) as [var|] eqn:Eov.
    2:{ (* the variables are exhausted *)
      inversion Hloop; subst m'. clear Hloop.
      assert (HdN : d = N).
      { destruct (Nat.lt_ge_cases d N) as [Hlt|Hge]; [|lia].
        destruct (nv_some d states Hlt) as [x Hx]. unfold d in Hx. rewrite Hx in Eov. discriminate. }
      destruct HC as (HD & HX & Hnd & HE).
      split; [|split; [|split; [|split]]].
      - intros u Hu. change (n_depth (gn m u) = N). rewrite <- HdN. apply Hnd. exact Hu.
      - intros ds sN w Hp Hen.
        split; [eapply Einv_frame; [| | | |exact HE]; try reflexivity; apply (E_le _ HE)|].
        split; [msimpl; rewrite Hlen; lia|].
        destruct (HT ds sN w Hp Hen) as (u & s' & Hu & Hpth).
        exists u, s'. split; [exact Hu|]. split; [apply (D_next _ _ _ HD u Hu)|].
        destruct Hp as (_ & Hl & _).
        rewrite firstn_all2 in Hpth by (fold d; lia).
        eapply dpath_frame; [| | |exact Hpth]; reflexivity.
      - intros i c sc vc ds2 sN w Hc HSrc Hcov Hvc HSt Hpc Hen.
        assert (Hi : i < d - rd).
        { destruct (Nat.lt_ge_cases i (length (m_layers m))) as [Hlt|Hge]; [lia|].
          msimpl_in Hc. rewrite nth_overflow in Hc by exact Hge. destruct Hc. }
        destruct (HU i c sc vc ds2 sN w Hi Hc HSrc Hcov Hvc HSt Hpc Hen) as (Hdep & u & s' & Hu & Hpth).
        split; [eapply Einv_frame; [| | | |exact HE]; try reflexivity; apply (E_le _ HE)|].
        split; [eapply Xinv_ceq; [apply ceq_add_log|exact HX]|].
        split; [msimpl; rewrite Hlen; lia|]. split; [exact Hdep|].
        exists u, s'. split; [exact Hu|]. split; [apply (D_next _ _ _ HD u Hu)|].
        destruct Hpc as (_ & Hl & _). fold d in Hpth.
        rewrite firstn_all2 in Hpth by lia.
        eapply dpath_frame; [| | |exact Hpth]; reflexivity.
      - exact HSL.
      - intros _. eapply Xinv_ceq; [apply ceq_add_log|exact HX]. }
    set (m1 := add_log m (EvNextVar (m_curr_depth m) states (Some var))) in *.
    set (m2 := with_polls m1 (S (m_polls m1))) in *.
    rewrite Hnocut in Hloop. cbn [Nat.ltb Nat.leb andb] in Hloop.
    rewrite (not_pooled inp Hclean) in Hloop.
    assert (HdN : d < N).
    { destruct (Nat.lt_ge_cases d N) as [Hlt|Hge]; [exact Hlt|].
      pose proof (nv_none d states Hge) as Hn. unfold d in Hn. rewrite Hn in Eov. discriminate. }
    assert (Hc2 : ceq inp m m2) by (eapply ceq_trans; [apply ceq_add_log|apply ceq_with_polls]).
    assert (HC2 : Cinv d m2).
    { destruct HC as (HD & HX & Hnd & HE).
      split; [eapply (Dg_ceq inp Hclean); eauto|]. split; [eapply Xinv_ceq; eauto|]. split; [exact Hnd|].
      eapply Einv_ceq; eauto. }
    destruct (m_next m) as [|c0 cs] eqn:En.
    - (* the next layer is empty: the loop stops *)
      rewrite move_clean_unfold in Hloop. change (m_next m2) with (m_next m) in Hloop. rewrite En in Hloop.
      inversion Hloop; subst m'. clear Hloop.
      split; [intros u []|]. split; [|split; [|split]].
      + intros ds sN w Hp Hen. exfalso.
        destruct (HT ds sN w Hp) as (u & s' & Hu & _); [exact Hen|]. rewrite En in Hu. destruct Hu.
      + intros i c sc vc ds2 sN w Hc HSrc Hcov Hvc HSt Hpc Hen. exfalso.
        msimpl_in Hc.
        assert (Hi : i < d - rd).
        { destruct (Nat.lt_ge_cases i (length (m_layers m))) as [Hlt|Hge]; [lia|].
          rewrite app_nth2 in Hc by exact Hge.
          destruct (i - length (m_layers m2)) as [|k]; [simpl in Hc; destruct Hc|destruct k; simpl in Hc; destruct Hc]. }
        change (m_layers m2) with (m_layers m) in Hc. rewrite app_nth1 in Hc by lia.
        destruct (HU i c sc vc ds2 sN w Hi Hc HSrc Hcov Hvc HSt Hpc Hen) as (_ & u & s' & Hu & _).
        rewrite En in Hu. destruct Hu.
      + intros c Hc. destruct (HSL c Hc) as (i & Hi & Hdp). exists i. split; [msimpl; apply nth_layers_app; exact Hi|exact Hdp].
      + intros Hne. exfalso. apply Hne. reflexivity.
    - assert (Hne : m_next m2 <> []) by (change (m_next m2) with (m_next m); rewrite En; discriminate).
      destruct (move_sim m2 d HC2 Hne) as (m3 & l & ids & Emv & C3 & N3 & L3 & D3 & Ly3 & Lids & En3 & T3 & Sr3 & Cl3 & Ns3 & Ge3 & Le3).
      rewrite Emv in Hloop.
      destruct (expand_layer_Cinv var l d m3 C3 L3) as (C4 & S4 & G4).
      { exists states. exact Eov. }
      set (m4 := fold_left (expand_node st_eqb inp var) l m3) in *.
      set (m5 := with_depth m4 (S (m_curr_depth m4))) in *.
      assert (Hcd4 : m_curr_depth m4 = d).
      { destruct S4 as (_ & _ & _ & _ & s5). rewrite s5, D3. reflexivity. }
      apply (IH m5 m'); [|exact Hloop].
      assert (Hp5 : peq inp m4 m5) by (apply peq_same_nodes; reflexivity).
      assert (Hly4 : m_layers m4 = m_layers m ++ [ids]) by (rewrite (gr_layers _ _ G4); exact Ly3).
      assert (Hen35 : enabled m5 -> enabled m3).
      { intros Hen5 Ht. specialize (Hen5 Ht). change (m_lel m5) with (m_lel m4) in Hen5.
        unfold m4 in Hen5. rewrite expand_layer_lel in Hen5. exact Hen5. }
      assert (Hdj_of : forall dj k, var_ok pb (rd + k) dj = true -> rd + k = d -> var = d_var dj).
      { intros dj k P3 Hk. apply (var_ok_spec pb nv_static (rd + k) dj states) in P3.
        rewrite Hk in P3. unfold d in P3. rewrite P3 in Eov. inversion Eov; reflexivity. }
      split; [|split; [|split; [|split; [|split; [|split]]]]].
      + change (m_curr_depth m5) with (S (m_curr_depth m4)). rewrite Hcd4.
        destruct C4 as (D4 & X4 & Nd4 & E4).
        split; [|split; [|split]].
        * eapply (Dg_peq inp Hclean); [exact Hp5|exact D4|apply Nat.le_refl|apply (D_le _ _ _ D4)|apply (D_next _ _ _ D4)].
        * eapply Xg_peq; [exact Hp5|reflexivity|reflexivity|reflexivity|exact X4].
        * exact Nd4.
        * eapply Einv_frame; [| | | |exact E4]; try reflexivity. apply (E_le _ E4).
      + change (m_curr_depth m5) with (S (m_curr_depth m4)). lia.
      + change (m_curr_depth m5) with (S (m_curr_depth m4)). lia.
      + change (m_curr_depth m5) with (S (m_curr_depth m4)). change (m_layers m5) with (m_layers m4).
        rewrite Hly4, app_length, Hlen, Hcd4. cbn [length]. lia.
      + (* tracking *)
        intros ds sN w Hp Hen5.
        change (m_curr_depth m5) with (S (m_curr_depth m4)). rewrite Hcd4.
        assert (Hen3 : enabled m3).
        { intros Ht. specialize (Hen5 Ht). change (m_lel m5) with (m_lel m4) in Hen5.
          unfold m4 in Hen5. rewrite expand_layer_lel in Hen5. exact Hen5. }
        assert (Hen : enabled m).
        { intros Ht. specialize (En3 Hen3 Ht). exact En3. }
        destruct (HT ds sN w Hp Hen) as (u & s' & Hu & Hpth). fold d in Hpth.
        set (j := d - rd) in *.
        pose proof Hp as (_ & Hdsl & _).
        assert (Hj : j < length ds) by (unfold j; lia).
        destruct (prom_prefix ds sN w j Hp Hj) as (s1 & v1 & dj & rest & h & P1 & P2 & P3 & P4 & P5 & P6).
        assert (Hfl : length (firstn j ds) = j) by (rewrite firstn_length; lia).
        assert (Hs1 : s1 = s').
        { rewrite (frun_state pb _ _ _ _ _ _ P1). symmetry. apply (dpath_state _ _ _ _ _ _ _ Hpth). }
        subst s1.
        destruct (T3 0 0 rs u (firstn j ds) s') as (u' & Hu' & Hp3).
        * change (m_next m2) with (m_next m). exact Hu.
        * intros H1. change (m_layers m2) with (m_layers m) in H1. rewrite Hlen in H1. fold j in H1.
          intros E. rewrite E in Hfl. simpl in Hfl. lia.
        * exact Hen3.
        * eapply dpath_ceq; [exact Hc2|exact Hpth].
        * assert (Hdj : var = d_var dj).
          { apply (var_ok_spec pb nv_static (rd + j) dj states) in P3.
            replace (rd + j) with d in P3 by (unfold j; lia). unfold d in P3. rewrite P3 in Eov.
            inversion Eov; reflexivity. }
          pose proof (expand_layer_track var l d m3 0 0 rs rv u' (firstn j ds) s' v1 (d_val dj) h) as X.
          cbv zeta in X. rewrite !Nat.add_0_r in X.
          destruct X as (t' & Ht' & Hpt'); auto.
          -- exists states. exact Eov.
          -- destruct (L3 u' Hu'). lia.
          -- apply root_vtop. apply C3.
          -- intros ds1 s1 w1 Hr1. eapply guard_isize; eauto.
          -- simpl. rewrite Hfl, Ly3. change (m_layers m2) with (m_layers m). rewrite app_nth2 by lia.
             rewrite Hlen. fold j. rewrite Nat.sub_diag. simpl. apply Lids. exact Hu'.
          -- rewrite Hdj. exact P4.
          -- rewrite Hfl. exact P5.
          -- apply (prefix_isize (firstn j ds) s' v1 h P1); [rewrite Hfl; unfold j; lia|rewrite Hfl; exact P5].
          -- fold m4 in Ht', Hpt'. exists t', (transition pb s' {| d_var := var; d_val := d_val dj |}).
             split; [exact Ht'|].
             replace (S d - rd) with (S j) by (unfold j; lia).
             rewrite (firstn_S_skipn j ds dj rest P2).
             assert (Edj : dj = {| d_var := var; d_val := d_val dj |}) by (rewrite Hdj; destruct dj; reflexivity).
             rewrite Edj at 1.
             eapply dpath_frame; [| | |exact Hpt']; reflexivity.
      + (* tracking from every expanded node *)
        intros i c sc vc ds2 sN w Hi Hc HSrc Hcov Hvc HSt Hpc Hen5.
        change (m_curr_depth m5) with (S (m_curr_depth m4)) in Hi |- *. rewrite Hcd4 in Hi |- *.
        change (m_layers m5) with (m_layers m4) in Hc. rewrite Hly4 in Hc.
        change (gn m5 c) with (gn m4 c) in Hcov, Hvc |- *.
        pose proof (Hen35 Hen5) as Hen3.
        assert (Hen : enabled m) by (intros Ht; exact (En3 Hen3 Ht)).
        set (j := d - rd) in *.
        pose proof Hpc as (Hrun & Hdsl & Hlbw).
        assert (HSrc4 : Src m4 c) by exact HSrc.
        destruct C3 as (D3' & X3' & Nd3' & E3').
        pose proof S4 as (s41 & s42 & s43 & s44 & s45).
        destruct (Nat.lt_ge_cases i j) as [Hij|Hij].
        * (* a start of an earlier layer *)
          rewrite app_nth1 in Hc by lia.
          assert (Hclt : c < m_layer_end m).
          { destruct HC as (_ & HX & _). apply (X_layers _ _ _ HX (nth i (m_layers m) []) c); [apply nth_In; lia|exact Hc]. }
          assert (Hcore : core_eq (gn m c) (gn m4 c)).
          { eapply (core_eq_trans inp Hclean); [apply (Cl3 c Hclt)|]. apply s43.
            change (m_layer_end m2) with (m_layer_end m) in Le3. lia. }
          destruct Hcore as (k1 & k2 & _ & _ & _ & _ & k7).
          assert (HSrcm : Src m c).
          { destruct (Src_expand_layer var l m3 c HSrc4) as [H3|H3].
            - apply Sr3 in H3. exact H3.
            - exfalso. apply Lids in H3. apply Ge3 in H3. change (m_layer_end m2) with (m_layer_end m) in H3. lia. }
          assert (Hcov' : cov (n_state (gn m c)) sc) by (rewrite k1; exact Hcov).
          assert (Hvc' : (vc <= n_vtop (gn m c))%Z) by (rewrite k2; exact Hvc).
          destruct (HU i c sc vc ds2 sN w Hij Hc HSrcm Hcov' Hvc' HSt Hpc Hen) as (Hdep & u & s' & Hu & Hpth).
          fold d in Hpth. fold j in Hpth.
          assert (Hjj : j - i < length ds2) by (unfold j; lia).
          destruct (run_prefix (rd + i) sc vc ds2 sN w (j - i) Hrun Hdsl Hlbw Hjj)
            as (s1 & v1 & dj & rest & h & P1 & P2 & P3 & P4 & P5 & P6).
          assert (Hfl : length (firstn (j - i) ds2) = j - i) by (rewrite firstn_length; lia).
          assert (Hs1 : s1 = s').
          { rewrite (frun_state pb _ _ _ _ _ _ P1). symmetry. apply (dpath_state _ _ _ _ _ _ _ Hpth). }
          subst s1.
          destruct (T3 i c sc u (firstn (j - i) ds2) s') as (u' & Hu' & Hp3).
          -- exact Hu.
          -- intros _ E. rewrite E in Hfl. simpl in Hfl. lia.
          -- exact Hen3.
          -- eapply dpath_ceq; [exact Hc2|exact Hpth].
          -- assert (Hdj : var = d_var dj) by (apply (Hdj_of dj (i + (j - i))); [rewrite Nat.add_assoc; exact P3|unfold j; lia]).
             destruct (expand_layer_track var l d m3 i c sc vc u' (firstn (j - i) ds2) s' v1 (d_val dj) h)
               as (t' & Ht' & Hpt').
             ++ split; [exact D3'|]. split; [exact X3'|]. split; [exact Nd3'|exact E3'].
             ++ exact L3.
             ++ exists states. exact Eov.
             ++ change (m_layer_end m2) with (m_layer_end m) in Le3. lia.
             ++ destruct (Cl3 c Hclt) as (_ & q2 & _). rewrite <- q2.
                change (gn m2 c) with (gn m c). rewrite k2. exact Hvc.
             ++ intros ds1 s1 w1 Hr1. eapply Start_isize; eauto.
             ++ exact Hu'.
             ++ rewrite Hfl, Ly3. change (m_layers m2) with (m_layers m).
                replace (i + (j - i)) with (length (m_layers m)) by (rewrite Hlen; fold j; lia).
                rewrite app_nth2 by lia. rewrite Nat.sub_diag. simpl. apply Lids. exact Hu'.
             ++ exact Hp3.
             ++ exact P1.
             ++ rewrite Hdj. exact P4.
             ++ rewrite Hfl. exact P5.
             ++ exact P6.
             ++ apply (Start_H_isize i sc vc (firstn (j - i) ds2) s' v1 h HSt P1).
                ** rewrite Hfl. unfold j. lia.
                ** rewrite Hfl. exact P5.
             ++ fold m4 in Ht', Hpt'. split; [rewrite <- k7; exact Hdep|].
                exists t', (transition pb s' {| d_var := var; d_val := d_val dj |}).
                split; [exact Ht'|].
                replace (S d - rd - i) with (S (j - i)) by (unfold j; lia).
                rewrite (firstn_S_skipn (j - i) ds2 dj rest P2).
                assert (Edj : dj = {| d_var := var; d_val := d_val dj |}) by (rewrite Hdj; destruct dj; reflexivity).
                rewrite Edj at 1.
                eapply dpath_frame; [| | |exact Hpt']; reflexivity.
        * (* a start of the layer just expanded *)
          assert (i = j) by (unfold j in *; lia). subst i.
          rewrite app_nth2 in Hc by lia. rewrite Hlen in Hc. fold j in Hc. rewrite Nat.sub_diag in Hc. simpl in Hc.
          assert (Hcl : In c l).
          { destruct (Src_expand_layer var l m3 c HSrc4) as [H3|H3]; [|exact H3].
            exfalso. apply (Ns3 c H3). exact Hc. }
          destruct (L3 c Hcl) as [Hclt Hcdep].
          assert (Hclen : c < length (m_nodes m3)) by (pose proof (D_le _ _ _ D3'); lia).
          destruct (s43 c Hclt) as (k1 & k2 & _ & _ & _ & _ & k7).
          assert (Hjj : 0 < length ds2) by (unfold j in *; lia).
          destruct (run_prefix (rd + j) sc vc ds2 sN w 0 Hrun Hdsl Hlbw Hjj)
            as (s1 & v1 & dj & rest & h & P1 & P2 & P3 & P4 & P5 & P6).
          simpl in P1. inversion P1; subst s1 v1. clear P1.
          assert (Hdj : var = d_var dj) by (apply (Hdj_of dj (j + 0)); [rewrite Nat.add_assoc; exact P3|unfold j; lia]).
          destruct (expand_layer_track var l d m3 j c sc vc c [] sc vc (d_val dj) h) as (t' & Ht' & Hpt').
          -- split; [exact D3'|]. split; [exact X3'|]. split; [exact Nd3'|exact E3'].
          -- exact L3.
          -- exists states. exact Eov.
          -- exact Hclt.
          -- rewrite k2. exact Hvc.
          -- intros ds1 s1 w1 Hr1. eapply Start_isize; eauto.
          -- exact Hcl.
          -- simpl. rewrite Nat.add_0_r, Ly3. change (m_layers m2) with (m_layers m).
             rewrite app_nth2 by lia. rewrite Hlen. fold j. rewrite Nat.sub_diag. simpl. exact Hc.
          -- apply dp_nil; [exact Hclen|]. rewrite k1. exact Hcov.
          -- reflexivity.
          -- rewrite Hdj. exact P4.
          -- simpl. exact P5.
          -- exact P6.
          -- apply (Start_H_isize j sc vc [] sc vc h HSt eq_refl); [simpl; unfold j; lia|simpl; exact P5].
          -- fold m4 in Ht', Hpt'. split; [rewrite <- k7, Hcdep; unfold j; lia|].
             exists t', (transition pb sc {| d_var := var; d_val := d_val dj |}).
             split; [exact Ht'|].
             replace (S d - rd - j) with 1 by (unfold j; lia).
             rewrite (firstn_S_skipn 0 ds2 dj rest P2). simpl firstn.
             assert (Edj : dj = {| d_var := var; d_val := d_val dj |}) by (rewrite Hdj; destruct dj; reflexivity).
             rewrite Edj at 1.
             eapply dpath_frame; [| | |exact Hpt']; reflexivity.
      + (* sources lie in layers *)
        intros c HSrc. change (m_layers m5) with (m_layers m4). rewrite Hly4.
        change (gn m5 c) with (gn m4 c).
        pose proof S4 as (s41 & s42 & s43 & s44 & s45).
        destruct (Src_expand_layer var l m3 c HSrc) as [H3|H3].
        * apply Sr3 in H3. destruct (HSL c H3) as (i & Hi & Hdp). exists i. split; [apply nth_layers_app; exact Hi|].
          assert (Hclt : c < m_layer_end m).
          { destruct HC as (_ & HX & _).
            destruct (Nat.lt_ge_cases i (length (m_layers m))) as [Hlt|Hge].
            - apply (X_layers _ _ _ HX (nth i (m_layers m) []) c); [apply nth_In; exact Hlt|exact Hi].
            - rewrite nth_overflow in Hi by exact Hge. destruct Hi. }
          assert (Hcore : core_eq (gn m c) (gn m4 c)).
          { eapply (core_eq_trans inp Hclean); [apply (Cl3 c Hclt)|]. apply s43.
            change (m_layer_end m2) with (m_layer_end m) in Le3. lia. }
          destruct Hcore as (_ & _ & _ & _ & _ & _ & k7). rewrite <- k7. exact Hdp.
        * exists (length (m_layers m)). split.
          -- rewrite app_nth2 by lia. rewrite Nat.sub_diag. simpl. apply Lids. exact H3.
          -- destruct (L3 c H3) as [Hclt Hcdep]. destruct (s43 c Hclt) as (_ & _ & _ & _ & _ & _ & k7).
             rewrite <- k7, Hcdep, Hlen. fold d. lia.
  Qed.

  (* ---------------------------------------------------------------- 2l. initial state, compile *)
  Lemma Linv_initialize c ds polls : Linv (initialize inp c ds polls).
  Proof.
    destruct (initialize_inv inp c ds polls) as (I1 & I2 & I3).
    split; [|split; [|split; [|split; [|split; [|split]]]]].
    - split; [exact I1|]. split; [exact I2|]. split; [exact I3|].
      split.
      + simpl. lia.
      + intros eid He. simpl in He. lia.
      + intros id eid Hid Hin. simpl in Hid. assert (id = 0) by lia. subst id. destruct Hin.
    - simpl. apply Nat.le_refl.
    - simpl. exact Hrd.
    - simpl. fold root. fold rd. lia.
    - intros ds0 sN w Hp Hen. exists 0, rs. split; [left; reflexivity|].
      replace (m_curr_depth (initialize inp c ds polls) - rd) with 0 by (simpl; fold root; fold rd; lia).
      simpl firstn. apply dp_nil; [simpl; lia|]. simpl. apply cov_refl.
    - intros i cc sc vc ds2 sN w Hi. exfalso. simpl in Hi. fold root in Hi. fold rd in Hi. lia.
    - intros cc (eid & He & _). simpl in He. lia.
  Qed.

  Lemma compile_post tb tb2 c ds polls m :
    compile st_eqb inp tb tb2 c ds polls = (m, Compiled) ->
    exists ml, m = finalize st_eqb inp tb tb2 ml /\ Sinv inp ml /\ Xs inp ml /\ Post ml.
  Proof.
    unfold compile. cbv zeta. intros H.
    pose proof (layer_loop_Sinv st_eqb st_eqb_spec inp Hclean (S (S (nb_vars (ci_problem inp)))) c ds polls) as [HS HX].
    destruct (layer_loop st_eqb inp (S (S (nb_vars (ci_problem inp)))) (initialize inp c ds polls)) as [ml e] eqn:El.
    cbn [fst] in HS, HX. destruct e; inversion H. exists ml.
    split; [reflexivity|]. split; [exact HS|]. split; [exact HX|].
    eapply layer_loop_sim; [apply Linv_initialize|exact El].
  Qed.

  (* ---------------------------------------------------------------- 2m. argmax / pick *)
  Lemma zmax_list_spec l mx : zmax_list l = Some mx -> In mx l /\ forall x, In x l -> (x <= mx)%Z.
  Proof.
    revert mx. induction l as [|y l IH]; intros mx H; simpl in H; [discriminate|].
    destruct (zmax_list l) as [m0|] eqn:E.
    - inversion H; subst mx. destruct (IH m0 eq_refl) as [I1 I2]. split.
      + destruct (Z.max_spec y m0) as [[_ Em]|[_ Em]]; rewrite Em; [right; exact I1|left; reflexivity].
      + intros x [<-|Hx]; [lia|]. specialize (I2 x Hx). lia.
    - inversion H; subst mx. destruct l; [|simpl in E; destruct (zmax_list l); discriminate].
      split; [left; reflexivity|]. intros x [<-|[]]. lia.
  Qed.

  Lemma zmax_list_some l : l <> [] -> exists mx, zmax_list l = Some mx.
  Proof. destruct l as [|y l]; [congruence|]. intros _. simpl. destruct (zmax_list l); eexists; reflexivity. Qed.

  Lemma pick_argmax_spec tb (m : mdd) ids b :
    pick tb (argmax_candidates inp m ids) = Some b ->
    In b ids /\ forall x, In x ids -> (n_vtop (gn m x) <= n_vtop (gn m b))%Z.
  Proof.
    intros Hb. apply pick_In in Hb. unfold argmax_candidates in Hb.
    destruct (zmax_list (map (fun id => n_vtop (gn m id)) ids)) as [mx|] eqn:E; [|destruct Hb].
    apply filter_In in Hb. destruct Hb as [Hin Heq]. apply Z.eqb_eq in Heq.
    split; [exact Hin|]. intros x Hx. rewrite Heq.
    apply (proj2 (zmax_list_spec _ _ E)). apply (in_map (fun id => n_vtop (gn m id))). exact Hx.
  Qed.

  Lemma pick_argmax_some tb (m : mdd) ids :
    ids <> [] -> exists b, pick tb (argmax_candidates inp m ids) = Some b.
  Proof.
    intros Hne. unfold argmax_candidates.
    destruct (zmax_list_some (map (fun id => n_vtop (gn m id)) ids)) as [mx E].
    { destruct ids; [congruence|discriminate]. }
    rewrite E. destruct (zmax_list_spec _ _ E) as [Hin _].
    apply in_map_iff in Hin. destruct Hin as (x & Hx1 & Hx2).
    set (cands := filter (fun id => (n_vtop (gn m id) =? mx)%Z) ids).
    assert (Hc : In x cands) by (apply filter_In; split; [exact Hx2|apply Z.eqb_eq; exact Hx1]).
    unfold pick. destruct cands as [|c0 cs] eqn:Ec; [destruct Hc|].
    assert (Hlt : Nat.modulo tb (length (c0 :: cs)) < length (c0 :: cs)) by (apply Nat.mod_upper_bound; simpl; lia).
    apply nth_error_Some in Hlt. destruct (nth_error (c0 :: cs) (tb mod length (c0 :: cs))) as [b|]; [|congruence].
    exists b; reflexivity.
  Qed.

  (* ---------------------------------------------------------------- 2n. what _finalize computes *)
  Definition hdr (m : mdd) := (m_is_exact m, m_has_ebp m, m_best m, m_best_exact m).

  Lemma hdr_lel_cutset (m : mdd) k : hdr (lel_cutset m k) = hdr m.
  Proof.
    unfold lel_cutset. rewrite (fold_left_proj hdr) by (intros; reflexivity).
    destruct (nth_error _ _); [|reflexivity]. unfold hdr at 1. msimpl.
    change (hdr (fold_left (fun m0 id => upd_node m0 id (fun n => set_flags n (fl_set_above (fl_set_cutset (n_flags n) true) true))) l m) = hdr m).
    apply (fold_left_proj hdr). intros; reflexivity.
  Qed.

  Lemma hdr_frontier_cutset (m : mdd) push : hdr (frontier_cutset inp m push) = hdr m.
  Proof.
    unfold frontier_cutset. apply (fold_left_proj hdr). intros a id.
    destruct (fl_is_exact _); [reflexivity|].
    apply (fold_left_proj hdr). intros b eid.
    destruct (_ && _); [|reflexivity]. destruct push; reflexivity.
  Qed.

  Lemma hdr_finalize_cutset (m : mdd) : hdr (finalize_cutset inp m) = hdr m.
  Proof.
    unfold finalize_cutset.
    destruct (ci_flavour inp); destruct (m_lel m); destruct (_ || _);
      rewrite ?hdr_lel_cutset, ?hdr_frontier_cutset; reflexivity.
  Qed.

  Lemma hdr_compute_local_bounds (m : mdd) : hdr (compute_local_bounds inp m) = hdr m.
  Proof.
    unfold compute_local_bounds. destruct (_ && _); [|reflexivity].
    rewrite (fold_left_proj hdr).
    - apply (fold_left_proj hdr); intros; reflexivity.
    - intros a id. destruct (f_marked _); [|reflexivity].
      apply (fold_left_proj hdr); intros; reflexivity.
  Qed.

  Lemma cache_update_nocache (m : mdd) s d v e :
    cache_update st_eqb inp m s d v e = add_log m (EvCacheUpd s d v e).
  Proof. unfold cache_update. rewrite Hnocache. reflexivity. Qed.

  Section ProjThresholds.
    Context {X : Type} (pr : mdd -> X).
    Hypothesis pr_theta : forall (a : mdd) k (t : node -> option Z), pr (upd_node a k (fun n => set_theta n (t n))) = pr a.
    Hypothesis pr_log : forall (a : mdd) e, pr (add_log a e) = pr a.

    Lemma proj_maybe_update_cache (m : mdd) id : pr (maybe_update_cache st_eqb inp m id) = pr m.
    Proof.
      unfold maybe_update_cache. destruct (n_theta _); [|reflexivity].
      destruct (f_above _); [rewrite cache_update_nocache; apply pr_log|reflexivity].
    Qed.

    Lemma proj_compute_thresholds (m : mdd) : pr (compute_thresholds st_eqb inp m) = pr m.
    Proof.
      unfold compute_thresholds. destruct (_ || _); [|reflexivity].
      assert (Hbody : forall bk (a : mdd) id,
        pr (let n := gn a id in
             if f_deleted (n_flags n) then a
             else
               let m0 :=
                 if negb (f_cache (n_flags n)) then
                   let tot_rub := sat_add (n_vtop n) (n_rub n) in
                   let m0 :=
                     if (tot_rub <=? bk)%Z then upd_node a id (fun n0 => set_theta n0 (Some (sat_sub bk (n_rub n0))))
                     else if f_cutset (n_flags n) then
                       let tot_locb := sat_add (n_vtop n) (n_vbot n) in
                       if (tot_locb <=? bk)%Z then
                         upd_node a id (fun n0 => set_theta n0 (Some (Z.min (opt_default IMAX (n_theta n0)) (sat_sub bk (n_vbot n0)))))
                       else upd_node a id (fun n0 => set_theta n0 (Some (n_vtop n0)))
                     else if fl_is_exact (n_flags n) && match n_theta n with None => true | Some _ => false end then
                       upd_node a id (fun n0 => set_theta n0 (Some IMAX))
                     else a in
                   maybe_update_cache st_eqb inp m0 id
                 else a in
               match n_theta (gn m0 id) with
               | Some my_theta =>
                   fold_left (fun m1 eid =>
                       let e := get_edge m1 eid in
                       upd_node m1 (e_from e) (fun p =>
                         set_theta p (Some (Z.min (opt_default IMAX (n_theta p)) (sat_sub my_theta (e_cost e))))))
                     (n_inb (gn m0 id)) m0
               | None => m0
               end) = pr a).
      { intros bk a id. cbv zeta. destruct (f_deleted _); [reflexivity|].
        match goal with |- pr (match n_theta (get_node inp ?mm id) with _ => _ end) = _ =>
          set (m2 := mm); assert (Hm2 : pr m2 = pr a) end.
        { subst m2. destruct (negb _); [|reflexivity].
          rewrite proj_maybe_update_cache.
          repeat match goal with |- context [if ?c then _ else _] => destruct c end;
            try reflexivity; apply pr_theta. }
        destruct (n_theta (gn m2 id)); [|exact Hm2].
        rewrite (fold_left_proj pr); [exact Hm2|]. intros b eid. cbv zeta. apply pr_theta. }
      match goal with |- context [match ?x with Some be => _ | None => _ end] =>
        destruct x as [be|] end.
      - rewrite (fold_left_proj pr).
        + apply (fold_left_proj pr). intros a id.
          match goal with |- context [if ?c then _ else _] => destruct c end; [apply pr_theta|reflexivity].
        + intros a id. apply Hbody.
      - apply (fold_left_proj pr). intros a id. apply Hbody.
    Qed.
  End ProjThresholds.

  Lemma hdr_compute_thresholds (m : mdd) : hdr (compute_thresholds st_eqb inp m) = hdr m.
  Proof. apply proj_compute_thresholds; intros; reflexivity. Qed.

  (* everything but theta is untouched by _compute_thresholds *)
  Lemma node_compute_thresholds {Y} (g : node -> Y) (m : mdd) x :
    (forall n t, g (set_theta n t) = g n) ->
    g (gn (compute_thresholds st_eqb inp m) x) = g (gn m x).
  Proof.
    intros Hg. apply (proj_compute_thresholds (fun a : mdd => g (gn a x))).
    - intros a k t. apply (get_node_upd_node_proj inp g). intros n. apply Hg.
    - intros; reflexivity.
  Qed.

  Lemma hdr_eq (m m' : mdd) : hdr m = hdr m' ->
    m_is_exact m = m_is_exact m' /\ m_has_ebp m = m_has_ebp m' /\ m_best m = m_best m' /\
    m_best_exact m = m_best_exact m'.
  Proof. unfold hdr. intros H. inversion H. auto. Qed.

  Lemma finalize_layers_fields (ml : mdd) :
    m_nodes (finalize_layers inp ml) = m_nodes ml /\ m_next (finalize_layers inp ml) = m_next ml /\
    m_lel (finalize_layers inp ml) = m_lel ml /\ m_edges (finalize_layers inp ml) = m_edges ml /\
    m_layers (finalize_layers inp ml) =
      match m_next ml with
      | [] => m_layers ml
      | _ => m_layers ml ++ [seq (m_layer_end ml) (length (m_nodes ml) - m_layer_end ml)]
      end.
  Proof.
    unfold finalize_layers. cbv zeta. rewrite (not_pooled inp Hclean).
    destruct (m_next ml) eqn:E; repeat split; auto.
  Qed.

  Lemma finalize_hdr tb tb2 (ml : mdd) :
    let m := finalize st_eqb inp tb tb2 ml in
    let m1 := finalize_layers inp ml in
    m_is_exact m = (match m_lel ml with None => true | Some _ => false end) /\
    (m_has_ebp m = true -> ci_type inp = Relaxed) /\
    m_best m = pick tb (argmax_candidates inp m1 (m_next ml)) /\
    m_best_exact m =
      (if m_has_ebp m then m_best m
       else pick tb2 (argmax_candidates inp m1 (filter (fun id => fl_is_exact (n_flags (gn m1 id))) (m_next ml)))).
  Proof.
    cbv zeta. unfold finalize.
    destruct (finalize_layers_fields ml) as (F1 & F2 & F3 & F4 & F5).
    set (m1 := finalize_layers inp ml) in *.
    set (m2 := find_best_node inp tb tb2 m1).
    set (m3 := finalize_exact inp m2).
    assert (Hh : hdr (compute_thresholds st_eqb inp (compute_local_bounds inp (finalize_cutset inp m3))) = hdr m3).
    { rewrite hdr_compute_thresholds, hdr_compute_local_bounds, hdr_finalize_cutset. reflexivity. }
    apply hdr_eq in Hh. destruct Hh as (H1 & H2 & H3 & H4).
    rewrite H1, H2, H3, H4. clear H1 H2 H3 H4.
    set (ebp := is_relaxed_ct (ci_type inp) && has_exact_best_path inp (S (length (m_nodes m2))) m2 (m_best m2)).
    assert (A1 : m_is_exact m3 = match m_lel m2 with None => true | Some _ => false end).
    { unfold m3, finalize_exact. cbv zeta. cbn [m_is_exact]. rewrite (not_pooled inp Hclean). reflexivity. }
    assert (A2 : m_has_ebp m3 = ebp) by reflexivity.
    assert (A3 : m_best m3 = m_best m2) by reflexivity.
    assert (A4 : m_best_exact m3 = if ebp then m_best m2 else m_best_exact m2) by reflexivity.
    assert (B1 : m_best m2 = pick tb (argmax_candidates inp m1 (m_next m1))) by reflexivity.
    assert (B2 : m_best_exact m2 = pick tb2 (argmax_candidates inp m1
                   (filter (fun id => fl_is_exact (n_flags (gn m1 id))) (m_next m1)))) by reflexivity.
    rewrite A1, A2, A3, A4, B1, B2, F2. change (m_lel m2) with (m_lel m1). rewrite F3.
    split; [reflexivity|]. split; [|split; reflexivity].
    intros Hb. unfold ebp in Hb. apply andb_true_iff in Hb. destruct Hb as [Hb _].
    destruct (ci_type inp); simpl in Hb; try discriminate. reflexivity.
  Qed.

  Lemma gn_finalize_layers (ml : mdd) x : gn (finalize_layers inp ml) x = gn ml x.
  Proof. apply gn_nodes_eq. apply finalize_layers_fields. Qed.

  (* the compiled diagram versus the diagram at the end of the loop *)
  Lemma finalize_core tb tb2 (ml : mdd) x :
    Sinv inp ml -> Xs inp ml ->
    core_eq (gn ml x) (gn (finalize st_eqb inp tb tb2 ml) x).
  Proof.
    intros HS HX. destruct (finalize_spec st_eqb inp Hclean tb tb2 ml HS HX) as ((_ & _ & _ & A4) & _). apply A4.
  Qed.

  (* ================================================================== 3. the semantic theorems *)
  Definition vstar : option Z := oadd rv (H pb rd rs).

  Lemma vstar_opt_enum : vstar = opt_enum_from pb rd rs rv.
  Proof. unfold vstar. symmetry. apply opt_enum_from_H. Qed.

  Lemma vstar_prom o : vstar = Some o -> (lb < o)%Z -> exists ds sN, prom ds sN o.
  Proof.
    unfold vstar. intros Hv Hlb. destruct (H pb rd rs) as [h|] eqn:Eh; [|discriminate].
    simpl in Hv. inversion Hv; subst o.
    destruct (H_attained pb nv_static nv_some nv_none (N - rd) rd rs rv h eq_refl Hrd Eh) as (ds & sN & Hr & Hl).
    exists ds, sN. split; [exact Hr|]. split; [exact Hl|exact Hlb].
  Qed.

  Lemma vstar_upper o ds s' v' :
    vstar = Some o -> frn rd rs rv ds = Some (s', v') -> rd + length ds = N -> (v' <= o)%Z.
  Proof.
    unfold vstar. intros Hv Hr Hl.
    destruct (frun_le_H pb nv_static nv_none ds rd rs rv s' v' Hl Hr) as (h & Hh & Hle).
    rewrite Hh in Hv. simpl in Hv. inversion Hv; subst o. exact Hle.
  Qed.

  Lemma Sinv_root_vtop (m : mdd) : Sinv inp m -> (rv <= n_vtop (gn m 0))%Z.
  Proof. intros HS. destruct (S_root _ _ HS) as (_ & _ & r3 & _). fold root in r3. unfold rv. lia. Qed.

  Lemma track_terminal (ml : mdd) o :
    Sinv inp ml -> Post ml -> enabled ml -> vstar = Some o -> (lb < o)%Z ->
    exists ds sN u s', prom ds sN o /\ Einv ml /\ length (m_layers ml) = N - rd /\ In u (m_next ml) /\
      m_layer_end ml <= u < length (m_nodes ml) /\
      dpath ml 0 0 rs ds u s' /\ (o <= n_vtop (gn ml u))%Z.
  Proof.
    intros HS (_ & HP & _) Hen Hv Hlb.
    destruct (vstar_prom o Hv Hlb) as (ds & sN & Hp).
    destruct (HP ds sN o Hp Hen) as (HE & Hlen & u & s' & Hu & Hr & Hpth).
    pose proof Hp as (Hrun & _ & _).
    exists ds, sN, u, s'.
    split; [exact Hp|]. split; [exact HE|]. split; [exact Hlen|]. split; [exact Hu|]. split; [exact Hr|].
    split; [exact Hpth|].
    apply (dpath_vtop ml ds u s' HE Hpth (Sinv_root_vtop ml HS) _ _ Hrun).
  Qed.

  (* a clean chain is a feasible run from the root, and the node's value is the exact value of that run *)
  Lemma clean_chain_frun (m : mdd) id :
    Sinv inp m -> clean_chain inp m id -> id < length (m_nodes m) ->
    exists ds, frn rd rs rv ds = Some (n_state (gn m id), n_vtop (gn m id)) /\
               n_depth (gn m id) = rd + length ds.
  Proof.
    intros HS Hcc. induction Hcc as [Hr Hb|id eid Hr Hb Hcc IH]; intros Hid.
    - destruct (S_root _ _ HS) as (r1 & r2 & r3 & r4 & r5). exists []. simpl.
      rewrite r2, r3, r4. fold root. split; [reflexivity|unfold rd; lia].
    - destruct (S_nodes _ _ HS id Hid) as [_ Hok]. specialize (Hok Hr). rewrite Hb in Hok.
      destruct Hok as (b1 & b2 & b3 & b4 & b5 & b6 & b7 & b8 & b9).
      set (e := get_edge m eid) in *. set (p := e_from e) in *.
      destruct IH as (ds & Hrun & Hdep); [lia|].
      exists (ds ++ [e_dec e]).
      assert (Hvar : var_ok pb (rd + length ds) (e_dec e) = true).
      { destruct (S_var _ _ HS eid b1) as [st Hst]. fold e in Hst. fold p in Hst. rewrite Hdep in Hst.
        apply (var_ok_spec pb nv_static _ _ st). exact Hst. }
      assert (Hrun' : frn rd rs rv (ds ++ [e_dec e]) =
                Some (n_state (gn m id), (n_vtop (gn m p) + e_cost e)%Z)).
      { rewrite (frun_snoc pb rd rs rv ds (e_dec e) _ _ Hrun). rewrite Hvar. fold pb in b6. rewrite b6. simpl.
        fold pb in b4, b5. rewrite <- b4, <- b5. reflexivity. }
      split.
      + rewrite Hrun'. f_equal. f_equal. rewrite b7. unfold sat_add. rewrite clampZ_id; [reflexivity|].
        eapply guard_isize; eauto.
      + rewrite b8, Hdep, app_length. simpl. lia.
  Qed.

  Lemma exact_terminal_le (m : mdd) b o :
    Sinv inp m -> clean_chain inp m b -> b < length (m_nodes m) -> n_depth (gn m b) = N ->
    vstar = Some o -> (n_vtop (gn m b) <= o)%Z.
  Proof.
    intros HS Hcc Hb Hd Hv. destruct (clean_chain_frun m b HS Hcc Hb) as (ds & Hr & Hdep).
    eapply vstar_upper; eauto. lia.
  Qed.

  Lemma best_ge tb tb2 (ml : mdd) u :
    Sinv inp ml -> Xs inp ml -> In u (m_next ml) ->
    exists b, m_best (finalize st_eqb inp tb tb2 ml) = Some b /\ In b (m_next ml) /\
      (n_vtop (gn ml u) <= n_vtop (gn (finalize st_eqb inp tb tb2 ml) b))%Z.
  Proof.
    intros HS HX Hu. destruct (finalize_hdr tb tb2 ml) as (_ & _ & Hb & _). cbv zeta in Hb.
    destruct (pick_argmax_some tb (finalize_layers inp ml) (m_next ml)) as [b Eb].
    { intros E. rewrite E in Hu. destruct Hu. }
    destruct (pick_argmax_spec tb _ _ _ Eb) as [Hin Hmax].
    exists b. split; [rewrite Hb; exact Eb|]. split; [exact Hin|].
    specialize (Hmax u Hu). rewrite !gn_finalize_layers in Hmax.
    destruct (finalize_core tb tb2 ml b HS HX) as (_ & c2 & _). rewrite <- c2. exact Hmax.
  Qed.

  Lemma best_exact_ge tb tb2 (ml : mdd) u :
    Sinv inp ml -> Xs inp ml -> In u (m_next ml) -> is_ex ml u = true ->
    m_has_ebp (finalize st_eqb inp tb tb2 ml) = false ->
    exists b, m_best_exact (finalize st_eqb inp tb tb2 ml) = Some b /\ In b (m_next ml) /\
      (n_vtop (gn ml u) <= n_vtop (gn (finalize st_eqb inp tb tb2 ml) b))%Z.
  Proof.
    intros HS HX Hu Hex Hebp. destruct (finalize_hdr tb tb2 ml) as (_ & _ & _ & Hb). cbv zeta in Hb.
    rewrite Hebp in Hb.
    set (m1 := finalize_layers inp ml) in *.
    set (ids := filter (fun id => fl_is_exact (n_flags (gn m1 id))) (m_next ml)) in *.
    assert (Huf : In u ids).
    { apply filter_In. split; [exact Hu|]. unfold m1. rewrite gn_finalize_layers. exact Hex. }
    destruct (pick_argmax_some tb2 m1 ids) as [b Eb].
    { intros E. rewrite E in Huf. destruct Huf. }
    destruct (pick_argmax_spec tb2 _ _ _ Eb) as [Hin Hmax].
    exists b. split; [rewrite Hb; exact Eb|]. split; [apply filter_In in Hin; apply Hin|].
    specialize (Hmax u Huf). unfold m1 in Hmax. rewrite !gn_finalize_layers in Hmax.
    destruct (finalize_core tb tb2 ml b HS HX) as (_ & c2 & _). rewrite <- c2. exact Hmax.
  Qed.

  (* S1 (C06, bound) *)
  Theorem S1_relaxed_upper_bound tb tb2 c ds polls m o :
    compile st_eqb inp tb tb2 c ds polls = (m, Compiled) ->
    ci_type inp = Relaxed \/ ci_type inp = Exact ->
    vstar = Some o -> (o > lb)%Z ->
    exists b, dd_best_value inp m = Some b /\ (o <= b)%Z.
  Proof.
    intros Hc Ht Hv Hlb. destruct (compile_post _ _ _ _ _ _ Hc) as (ml & -> & HS & HX & HP).
    assert (Hen : enabled ml) by (intros E; destruct Ht as [E'|E']; rewrite E' in E; discriminate).
    destruct (track_terminal ml o HS HP Hen Hv) as (ds0 & sN & u & s' & _ & _ & _ & Hu & _ & _ & Hvt); [lia|].
    destruct (best_ge tb tb2 ml u HS HX Hu) as (b & Hb & _ & Hge).
    unfold dd_best_value. rewrite Hb. simpl. eexists; split; [reflexivity|lia].
  Qed.

  (* S2 (K2; C06 (b); C07) *)
  Theorem S2_exact_truthful tb tb2 c ds polls m o :
    compile st_eqb inp tb tb2 c ds polls = (m, Compiled) ->
    dd_is_exact m = true -> vstar = Some o -> (o > lb)%Z ->
    dd_best_exact_value inp m = Some o.
  Proof.
    intros Hc Hex Hv Hlb. destruct (compile_post _ _ _ _ _ _ Hc) as (ml & -> & HS & HX & HP).
    destruct (finalize_spec st_eqb inp Hclean tb tb2 ml HS HX) as (F1 & F2 & F3 & F4 & F5 & F6 & F7).
    destruct (finalize_hdr tb tb2 ml) as (H1 & H2 & H3 & H4). cbv zeta in H1, H2, H3, H4.
    set (m := finalize st_eqb inp tb tb2 ml) in *.
    unfold dd_is_exact in Hex.
    assert (Hen : enabled ml).
    { intros Et. destruct (m_has_ebp m) eqn:Eb.
      - rewrite (H2 eq_refl) in Et. discriminate.
      - rewrite orb_false_r in Hex. rewrite Hex in H1. destruct (m_lel ml); [discriminate|reflexivity]. }
    destruct (track_terminal ml o HS HP Hen Hv) as (ds0 & sN & u & s' & _ & _ & _ & Hu & Hur & _ & Hvt); [lia|].
    assert (Hbest : exists b, m_best_exact m = Some b /\ In b (m_next ml) /\ (o <= n_vtop (gn m b))%Z).
    { destruct (m_has_ebp m) eqn:Eb.
      - destruct (best_ge tb tb2 ml u HS HX Hu) as (b & Hb & Hin & Hge). fold m in Hb, Hge.
        exists b. split; [rewrite H4; exact Hb|]. split; [exact Hin|lia].
      - rewrite orb_false_r in Hex. rewrite Hex in H1.
        assert (Hlel : m_lel ml = None) by (destruct (m_lel ml); [discriminate|reflexivity]).
        assert (Hux : is_ex ml u = true) by (apply (X_lel_none _ _ _ HX Hlel); lia).
        destruct (best_exact_ge tb tb2 ml u HS HX Hu Hux Eb) as (b & Hb & Hin & Hge). fold m in Hb, Hge.
        exists b. split; [exact Hb|]. split; [exact Hin|lia]. }
    destruct Hbest as (b & Hb & Hin & Hge).
    destruct (F5 b Hb) as [Hblt Hcc].
    assert (Hdep : n_depth (gn m b) = N).
    { destruct (finalize_core tb tb2 ml b HS HX) as (_ & _ & _ & _ & _ & _ & c7). fold m in c7.
      rewrite <- c7. apply (proj1 HP). exact Hin. }
    pose proof (exact_terminal_le m b o F3 Hcc Hblt Hdep Hv) as Hle.
    unfold dd_best_exact_value. rewrite Hb. simpl. f_equal. lia.
  Qed.

  (* C07, plain clause: an Exact compilation returns the optimum whatever the width *)
  Theorem S2_exact_mode tb tb2 c ds polls m o :
    compile st_eqb inp tb tb2 c ds polls = (m, Compiled) ->
    ci_type inp = Exact -> vstar = Some o -> (o > lb)%Z ->
    dd_best_value inp m = Some o.
  Proof.
    intros Hc Ht Hv Hlb. destruct (compile_post _ _ _ _ _ _ Hc) as (ml & -> & HS & HX & HP).
    destruct (finalize_spec st_eqb inp Hclean tb tb2 ml HS HX) as (F1 & F2 & F3 & F4 & F5 & F6 & F7).
    set (m := finalize st_eqb inp tb tb2 ml) in *.
    assert (Hen : enabled ml) by (intros E; rewrite Ht in E; discriminate).
    destruct (track_terminal ml o HS HP Hen Hv) as (ds0 & sN & u & s' & _ & _ & _ & Hu & Hur & _ & Hvt); [lia|].
    destruct (best_ge tb tb2 ml u HS HX Hu) as (b & Hb & Hin & Hge). fold m in Hb, Hge.
    pose proof (F4 b Hb) as Hblt.
    assert (Hnr : ci_type inp <> Relaxed) by (rewrite Ht; discriminate).
    assert (Hcc : clean_chain inp m b).
    { apply (Sinv_exact_flag_clean_chain inp m F3 b Hblt). apply F7; auto. }
    assert (Hdep : n_depth (gn m b) = N).
    { destruct (finalize_core tb tb2 ml b HS HX) as (_ & _ & _ & _ & _ & _ & c7). fold m in c7.
      rewrite <- c7. apply (proj1 HP). exact Hin. }
    pose proof (exact_terminal_le m b o F3 Hcc Hblt Hdep Hv) as Hle.
    unfold dd_best_value. rewrite Hb. simpl. f_equal. lia.
  Qed.

  (* ================================================================== 4. a node-local invariant:
     no cut-set flag before _finalize; the rough bound of a node is IMAX or the user's bound of its state *)
  Definition Pn (n : node) : Prop :=
    f_cutset (n_flags n) = false /\ f_marked (n_flags n) = false /\
    (n_rub n = IMAX \/ n_rub n = fast_upper_bound rlx (n_state n)).
  Definition Ninv (m : mdd) : Prop := Forall Pn (m_nodes m).

  Lemma Forall_upd_nth_at {A} (P : A -> Prop) k f (l : list A) d :
    (k < length l -> P (f (nth k l d))) -> Forall P l -> Forall P (upd_nth k f l).
  Proof.
    revert k. induction l as [|x l IH]; intros [|k] Hk HF; simpl; auto; inversion HF; subst; constructor; auto.
    - apply Hk. simpl. lia.
    - apply IH; auto. intros Hlt. apply Hk. simpl. lia.
  Qed.

  Lemma Ninv_same (m m' : mdd) : m_nodes m' = m_nodes m -> Ninv m -> Ninv m'.
  Proof. unfold Ninv. intros ->. auto. Qed.

  Lemma Ninv_upd (m : mdd) id f : (forall n, Pn n -> Pn (f n)) -> Ninv m -> Ninv (upd_node m id f).
  Proof. intros Hf H. unfold Ninv. msimpl. apply Forall_upd_nth; auto. Qed.

  Lemma Ninv_append_edge (m : mdd) e : Ninv m -> Ninv (append_edge inp m e).
  Proof.
    intros H. unfold Ninv. msimpl. apply Forall_upd_nth; [|exact H].
    intros n (P1 & P2 & P3). split; [|split]; nsimpl; auto.
  Qed.

  Lemma Ninv_snoc (m : mdd) n : Pn n -> Ninv m -> Ninv (with_nodes m (m_nodes m ++ [n])).
  Proof. intros Hn H. unfold Ninv. msimpl. apply Forall_app. split; [exact H|constructor; auto]. Qed.

  Lemma Ninv_fold {X} (f : mdd -> X -> mdd) l m : (forall a x, Ninv a -> Ninv (f a x)) -> Ninv m -> Ninv (fold_left f l m).
  Proof. intros Hf. revert m. induction l as [|x l IH]; intros m Hm; simpl; auto. Qed.

  Lemma Ninv_branch_on (m : mdd) id d : Ninv m -> Ninv (branch_on st_eqb inp m id d).
  Proof.
    intros H. unfold branch_on. cbv zeta.
    match goal with |- context [find_next ?a ?b ?c ?d] => destruct (find_next a b c d) end.
    - apply Ninv_append_edge. eapply Ninv_same; [|exact H]. reflexivity.
    - eapply Ninv_same; [reflexivity|]. apply Ninv_append_edge. apply Ninv_snoc.
      + split; [reflexivity|split; [reflexivity|left; reflexivity]].
      + eapply Ninv_same; [|exact H]. reflexivity.
  Qed.

  Lemma Ninv_expand_node var (m : mdd) id : Ninv m -> Ninv (expand_node st_eqb inp var m id).
  Proof.
    intros H. unfold expand_node. cbv zeta.
    set (m1 := upd_node m id (fun n => set_rub n (fast_upper_bound (ci_relax inp) (n_state (gn m id))))).
    assert (H1 : Ninv m1).
    { unfold m1, Ninv. msimpl. apply (Forall_upd_nth_at Pn id _ (m_nodes m) (default_node (sp_state (ci_root inp)))); [|exact H].
      intros Hlt. unfold Ninv in H. rewrite Forall_forall in H.
      destruct (H (gn m id)) as (P1 & P2 & P3); [apply nth_In; exact Hlt|].
      split; [exact P1|]. split; [exact P2|right; reflexivity]. }
    destruct (_ >? _)%Z; [|exact H1].
    apply Ninv_fold; [intros; apply Ninv_branch_on; assumption|].
    eapply Ninv_same; [|exact H1]. reflexivity.
  Qed.

  Lemma filter_with_cache_nodes l : forall (m : mdd), m_nodes (fst (filter_with_cache st_eqb inp m l)) = m_nodes m.
  Proof.
    induction l as [|id l IH]; intros m; [reflexivity|].
    cbn [filter_with_cache]. cbv zeta. unfold cache_get. rewrite Hnocache.
    match goal with |- context [filter_with_cache st_eqb inp ?mm l] =>
      specialize (IH mm); destruct (filter_with_cache st_eqb inp mm l) as [m2 r] end.
    simpl in *. exact IH.
  Qed.

  Lemma dom_retain_nodes l : forall (m : mdd), m_nodes (fst (dom_retain inp m l)) = m_nodes m.
  Proof.
    induction l as [|id l IH]; intros m; [reflexivity|].
    cbn [dom_retain]. cbv zeta. destruct (fl_is_exact (n_flags (gn m id))).
    - unfold dom_query. rewrite Hnodom. cbn [dc_dominated].
      match goal with |- context [dom_retain inp ?mm l] =>
        specialize (IH mm); destruct (dom_retain inp mm l) as [m2 r] end.
      simpl in *. exact IH.
    - specialize (IH m). destruct (dom_retain inp m l) as [m2 r]. simpl in *. exact IH.
  Qed.

  Lemma Pn_set_flag (n : node) fl :
    f_cutset fl = f_cutset (n_flags n) -> f_marked fl = f_marked (n_flags n) -> Pn n -> Pn (set_flags n fl).
  Proof. intros Hf Hg (P1 & P2 & P3). split; [|split]; nsimpl; [congruence|congruence|exact P3]. Qed.

  Lemma Ninv_note_squash (m : mdd) : Ninv m -> Ninv (note_squash inp m).
  Proof. intros H. eapply Ninv_same; [|exact H]. apply (note_squash_fields inp Hclean m). Qed.

  Lemma Ninv_redirect_step merged mid (a : mdd) eid : Ninv a -> Ninv (redirect_step inp merged mid a eid).
  Proof. intros H. unfold redirect_step. cbv zeta. apply Ninv_append_edge. eapply Ninv_same; [|exact H]. reflexivity. Qed.

  Lemma Ninv_drop_step merged mid (a : mdd) did : Ninv a -> Ninv (drop_step inp merged mid a did).
  Proof.
    intros H. unfold drop_step. rewrite redirect_edges_fold.
    apply Ninv_fold; [intros; apply Ninv_redirect_step; assumption|].
    apply Ninv_upd; [|exact H]. intros n Hn. apply Pn_set_flag; [reflexivity|reflexivity|exact Hn].
  Qed.

  Lemma Ninv_squash (m : mdd) l : Ninv m -> Ninv (fst (squash_if_needed st_eqb inp m l)).
  Proof.
    intros H. unfold squash_if_needed. destruct (ci_type inp); [exact H| |].
    - destruct (_ && _); [|exact H].
      assert (Hex : exists w1, ci_width inp = S w1) by (exists (ci_width inp - 1); lia).
      destruct Hex as [w1 Ew]. rewrite (relax_layer_unfold st_eqb inp m l w1 Ew). cbv zeta.
      pose proof (Ninv_note_squash m H) as H0.
      set (m0 := note_squash inp m) in *.
      match goal with |- context [add_log m0 ?ev] => set (m1 := add_log m0 ev) end.
      assert (H1 : Ninv m1) by (eapply Ninv_same; [|exact H0]; reflexivity).
      match goal with |- context [find ?f ?k] => destruct (find f k) as [rid|] end; cbn [fst].
      + apply Ninv_upd; [intros n Hn; apply Pn_set_flag; [reflexivity|reflexivity|exact Hn]|].
        apply Ninv_fold; [intros; apply Ninv_drop_step; assumption|].
        apply Ninv_upd; [intros n Hn; apply Pn_set_flag; [reflexivity|reflexivity|exact Hn]|exact H1].
      + apply Ninv_fold; [intros; apply Ninv_drop_step; assumption|].
        apply Ninv_upd; [intros n Hn; apply Pn_set_flag; [reflexivity|reflexivity|exact Hn]|].
        apply Ninv_snoc; [|exact H1]. split; [reflexivity|split; [reflexivity|left; reflexivity]].
    - destruct (_ <? _); [|exact H]. unfold restrict_layer. cbv zeta. cbn [fst].
      unfold mark_deleted. apply Ninv_fold; [|apply Ninv_note_squash; exact H].
      intros a x Ha. apply Ninv_upd; [|exact Ha]. intros n Hn. apply Pn_set_flag; [reflexivity|reflexivity|exact Hn].
  Qed.

  Lemma Ninv_move (m : mdd) : Ninv m -> Ninv (fst (move_to_next_layer_clean st_eqb inp m)).
  Proof.
    intros H. rewrite move_clean_unfold. destruct (m_next m) as [|c0 cs]; [exact H|].
    set (curr := c0 :: cs).
    assert (Hb : Ninv (fst (prefilter st_eqb inp (with_next m []) curr))).
    { unfold prefilter. destruct (Nat.ltb 0 _); [|exact H].
      eapply Ninv_same; [apply filter_with_cache_nodes|exact H]. }
    destruct (prefilter st_eqb inp (with_next m []) curr) as [mb lb0]. cbn [fst] in Hb.
    assert (Hcc : Ninv (fst (filter_with_dominance inp mb lb0))).
    { unfold filter_with_dominance. eapply Ninv_same; [apply dom_retain_nodes|exact Hb]. }
    destruct (filter_with_dominance inp mb lb0) as [mc lc]. cbn [fst] in Hcc.
    pose proof (Ninv_squash mc lc Hcc) as Hd.
    destruct (squash_if_needed st_eqb inp mc lc) as [md ld]. cbn [fst] in *. exact Hd.
  Qed.

  Lemma layer_loop_Ninv : forall fuel (m : mdd), Ninv m -> Ninv (fst (layer_loop st_eqb inp fuel m)).
  Proof.
    induction fuel as [|fuel IH]; intros m H; [exact H|].
    cbn [layer_loop]. cbv zeta.
    destruct (next_variable _ _ _) as [var|]; [|exact H].
    destruct (_ && _); [exact H|].
    rewrite (not_pooled inp Hclean).
    match goal with |- context [move_to_next_layer_clean st_eqb inp ?mm] =>
      pose proof (Ninv_move mm) as Hmv; destruct (move_to_next_layer_clean st_eqb inp mm) as [m3 ol] end.
    cbn [fst] in Hmv. specialize (Hmv H).
    destruct ol as [l|]; [|exact Hmv].
    apply IH. eapply Ninv_same; [reflexivity|].
    apply Ninv_fold; [intros; apply Ninv_expand_node; assumption|exact Hmv].
  Qed.

  Lemma Ninv_initialize c ds polls : Ninv (initialize inp c ds polls).
  Proof. constructor; [|constructor]. split; [reflexivity|split; [reflexivity|left; reflexivity]]. Qed.

  (* ================================================================== 5. _compute_local_bounds along a diagram path *)
  Definition lb_upd (using_edge : Z) (p : node) : node :=
    set_vbot (set_flags p (fl_set_marked (n_flags p) true)) (Z.max (n_vbot p) using_edge).

  Definition lb_step (a : mdd) (id : nat) : mdd :=
    let n := gn a id in
    if f_marked (n_flags n) then
      fold_left (fun m eid =>
          let e := get_edge m eid in
          upd_node m (e_from e) (lb_upd (sat_add (n_vbot n) (e_cost e))))
        (n_inb n) a
    else a.

  Definition lb_init (m : mdd) : mdd :=
    fold_left (fun m id => upd_node m id (fun n => set_vbot (set_flags n (fl_set_marked (n_flags n) true)) 0%Z))
      (last (m_layers m) []) m.

  Definition lb_go (m : mdd) : bool :=
    Nat.ltb (opt_default 0 (m_lel m)) (length (m_layers m)) && is_relaxed_ct (ci_type inp).

  Lemma compute_local_bounds_unfold (m : mdd) :
    compute_local_bounds inp m = if lb_go m then fold_left lb_step (bottom_up m) (lb_init m) else m.
  Proof.
    assert (Hl : bottom_up (lb_init m) = bottom_up m).
    { unfold bottom_up, lb_init. rewrite (fold_left_proj (fun a : mdd => m_layers a)); [reflexivity|].
      intros; reflexivity. }
    rewrite <- Hl.
    unfold compute_local_bounds, lb_go, lb_step, lb_init, lb_upd. cbv zeta.
    rewrite (not_pooled inp Hclean). reflexivity.
  Qed.

  Definition Stat (a a' : mdd) : Prop :=
    m_edges a' = m_edges a /\ m_layers a' = m_layers a /\ length (m_nodes a') = length (m_nodes a) /\
    forall x, n_inb (gn a' x) = n_inb (gn a x).
  Definition Mono (a a' : mdd) : Prop :=
    Stat a a' /\
    forall x, (f_marked (n_flags (gn a x)) = true -> f_marked (n_flags (gn a' x)) = true) /\
              (n_vbot (gn a x) <= n_vbot (gn a' x))%Z.

  Lemma Stat_refl a : Stat a a. Proof. repeat split; auto. Qed.
  Lemma Stat_trans a b c : Stat a b -> Stat b c -> Stat a c.
  Proof.
    intros (A1 & A2 & A3 & A4) (B1 & B2 & B3 & B4).
    split; [congruence|]. split; [congruence|]. split; [congruence|]. intros x. rewrite B4. apply A4.
  Qed.
  Lemma Mono_refl a : Mono a a.
  Proof. split; [apply Stat_refl|]. intros x. split; [auto|lia]. Qed.
  Lemma Mono_trans a b c : Mono a b -> Mono b c -> Mono a c.
  Proof.
    intros (S1 & M1) (S2 & M2). split; [eapply Stat_trans; eauto|]. intros x.
    destruct (M1 x) as [m1 v1]. destruct (M2 x) as [m2 v2]. split; [auto|lia].
  Qed.

  Lemma Stat_upd (a : mdd) k f : (forall n, n_inb (f n) = n_inb n) -> Stat a (upd_node a k f).
  Proof.
    intros Hf. split; [reflexivity|]. split; [reflexivity|]. split; [msimpl; apply upd_nth_length|].
    intros x. apply (get_node_upd_node_proj inp (@n_inb St)). exact Hf.
  Qed.

  Lemma Mono_lb_upd (a : mdd) k u : Mono a (upd_node a k (lb_upd u)).
  Proof.
    split; [apply Stat_upd; reflexivity|]. intros x.
    destruct (Nat.eq_dec k x) as [->|Hne].
    - destruct (Nat.lt_ge_cases x (length (m_nodes a))) as [Hlt|Hge].
      + rewrite gn_upd_same by exact Hlt. unfold lb_upd. nsimpl. split; [auto|lia].
      + rewrite gn_upd_out by exact Hge. split; [auto|lia].
    - rewrite gn_upd_other by exact Hne. split; [auto|lia].
  Qed.

  Lemma Mono_fold {X} (f : mdd -> X -> mdd) l a : (forall b x, Mono b (f b x)) -> Mono a (fold_left f l a).
  Proof.
    intros Hf. revert a. induction l as [|x l IH]; intros a; simpl; [apply Mono_refl|].
    eapply Mono_trans; [apply Hf|apply IH].
  Qed.

  Lemma Mono_lb_step (a : mdd) id : Mono a (lb_step a id).
  Proof.
    unfold lb_step. cbv zeta. destruct (f_marked _); [|apply Mono_refl].
    apply Mono_fold. intros b x. apply Mono_lb_upd.
  Qed.

  Lemma Stat_edge a a' eid : Stat a a' -> get_edge a' eid = get_edge a eid.
  Proof. intros (E & _). apply ge_edges_eq. exact E. Qed.

  Lemma lb_step_hit (a : mdd) y eid p :
    f_marked (n_flags (gn a y)) = true -> In eid (n_inb (gn a y)) ->
    e_from (get_edge a eid) = p -> p < length (m_nodes a) ->
    f_marked (n_flags (gn (lb_step a y) p)) = true /\
    (sat_add (n_vbot (gn a y)) (e_cost (get_edge a eid)) <= n_vbot (gn (lb_step a y) p))%Z.
  Proof.
    intros Hm Hin Hf Hp. unfold lb_step. cbv zeta. rewrite Hm.
    set (vb := n_vbot (gn a y)).
    set (P := fun c : mdd => f_marked (n_flags (gn c p)) = true /\
                             (sat_add vb (e_cost (get_edge a eid)) <= n_vbot (gn c p))%Z).
    apply (fold_left_hit (fun c => Mono a c) P _ (n_inb (gn a y)) a eid Hin).
    - apply Mono_refl.
    - intros c x _ Hc. eapply Mono_trans; [exact Hc|apply Mono_lb_upd].
    - intros c Hc. destruct Hc as (Sc & _). unfold P. rewrite (Stat_edge a c eid Sc), Hf.
      destruct Sc as (_ & _ & Hl & _).
      rewrite gn_upd_same by lia. unfold lb_upd. nsimpl. split; [reflexivity|lia].
    - intros c x _ Hc [P1 P2]. unfold P.
      match goal with |- context [upd_node c ?k ?f] => destruct (Mono_lb_upd c k (sat_add vb (e_cost (get_edge c x)))) as (_ & Mx) end.
      destruct (Mx p) as [m1 v1]. split; [auto|lia].
  Qed.

  Definition proc (a : mdd) (ids : list nat) : mdd := fold_left lb_step ids a.

  Lemma Mono_proc a ids : Mono a (proc a ids).
  Proof. unfold proc. apply Mono_fold. intros; apply Mono_lb_step. Qed.

  Lemma proc_hit (a : mdd) L y eid p r :
    In y L -> f_marked (n_flags (gn a y)) = true -> (r <= n_vbot (gn a y))%Z ->
    In eid (n_inb (gn a y)) -> e_from (get_edge a eid) = p -> p < length (m_nodes a) ->
    f_marked (n_flags (gn (proc a L) p)) = true /\
    (sat_add r (e_cost (get_edge a eid)) <= n_vbot (gn (proc a L) p))%Z.
  Proof.
    intros Hy Hm Hr Hin Hf Hp. unfold proc.
    set (P := fun c : mdd => f_marked (n_flags (gn c p)) = true /\
                             (sat_add r (e_cost (get_edge a eid)) <= n_vbot (gn c p))%Z).
    apply (fold_left_hit (fun c => Mono a c) P lb_step L a y Hy).
    - apply Mono_refl.
    - intros c x _ Hc. eapply Mono_trans; [exact Hc|apply Mono_lb_step].
    - intros c (Sc & Mc). destruct (Mc y) as [my vy].
      pose proof Sc as (_ & _ & Hl & Hi).
      destruct (lb_step_hit c y eid p) as [Q1 Q2]; auto.
      + rewrite Hi. exact Hin.
      + rewrite (Stat_edge a c eid Sc). exact Hf.
      + lia.
      + unfold P. split; [exact Q1|]. rewrite (Stat_edge a c eid Sc) in Q2.
        eapply Z.le_trans; [|exact Q2]. unfold sat_add. apply clampZ_mono. lia.
    - intros c x _ Hc [P1 P2]. unfold P. destruct (Mono_lb_step c x) as (_ & Mx).
      destruct (Mx p) as [m1 v1]. split; [auto|lia].
  Qed.

  Lemma fold_left_concat {A X} (f : A -> X -> A) (ls : list (list X)) (a : A) :
    fold_left f (concat ls) a = fold_left (fun a l => fold_left f l a) ls a.
  Proof.
    revert a. induction ls as [|l ls IH]; intros a; simpl; [reflexivity|].
    rewrite fold_left_app. apply IH.
  Qed.

  Lemma skipn_nth_cons {A} k (l : list A) d : k < length l -> skipn k l = nth k l d :: skipn (S k) l.
  Proof.
    revert l. induction k as [|k IH]; intros [|x l] H; simpl in *; try lia; auto. apply IH. lia.
  Qed.

  (* the state after the layers of index >= k have been processed *)
  Definition Stg (m0 : mdd) (ls : list (list nat)) (k : nat) : mdd := fold_left proc (rev (skipn k ls)) m0.

  Lemma Stg_step m0 ls k : k < length ls -> Stg m0 ls k = proc (Stg m0 ls (S k)) (nth k ls []).
  Proof.
    intros H. unfold Stg. rewrite (skipn_nth_cons k ls [] H). cbn [rev]. rewrite fold_left_app. reflexivity.
  Qed.

  Lemma Stg_mono1 m0 ls k : Mono (Stg m0 ls (S k)) (Stg m0 ls k).
  Proof.
    destruct (Nat.lt_ge_cases k (length ls)) as [Hlt|Hge].
    - rewrite (Stg_step m0 ls k Hlt). apply Mono_proc.
    - unfold Stg. rewrite !skipn_all2 by lia. apply Mono_refl.
  Qed.

  Lemma Stg_mono m0 ls k : Mono (Stg m0 ls k) (Stg m0 ls 0).
  Proof.
    induction k as [|k IH]; [apply Mono_refl|]. eapply Mono_trans; [apply Stg_mono1|exact IH].
  Qed.

  Lemma Stg_base m0 ls k : Mono m0 (Stg m0 ls k).
  Proof.
    unfold Stg. generalize (rev (skipn k ls)). intros l. revert m0.
    induction l as [|x l IH]; intros m0; simpl; [apply Mono_refl|].
    eapply Mono_trans; [apply Mono_proc|apply IH].
  Qed.

  Lemma lb_path (m m0 : mdd) :
    Stat m m0 ->
    forall i c sc ds t s', dpath m i c sc ds t s' ->
    forall kk v wt r, frn kk sc v ds = Some (s', wt) ->
      i + length ds < length (m_layers m) ->
      In t (nth (i + length ds) (m_layers m) []) ->
      f_marked (n_flags (gn (Stg m0 (m_layers m) (S (i + length ds))) t)) = true ->
      (r <= n_vbot (gn (Stg m0 (m_layers m) (S (i + length ds))) t))%Z ->
      (forall ds1 ds2 s1 v1, ds = ds1 ++ ds2 -> frn kk sc v ds1 = Some (s1, v1) -> in_isize (r + wt - v1)) ->
      f_marked (n_flags (gn (Stg m0 (m_layers m) 0) c)) = true /\
      (r + wt - v <= n_vbot (gn (Stg m0 (m_layers m) 0) c))%Z.
  Proof.
    intros HS0 i c sc ds t s' Hp.
    induction Hp as [i u s Hu Hc|i u s ds t s' d eid t' Hp IH Hlay Ht' He Hin Hf Hd Hcost Hcov];
      intros kk v wt r Hr Hlen Hlast Hm Hvb Hiso.
    - simpl in Hr. inversion Hr; subst wt.
      destruct (Stg_mono m0 (m_layers m) (S (i + length (@nil decision)))) as (_ & Mx).
      destruct (Mx u) as [m1 v1]. split; [auto|lia].
    - rewrite frun_app in Hr. destruct (frn kk s v ds) as [[s1 w1]|] eqn:E1; [|discriminate].
      assert (s1 = s').
      { rewrite (frun_state pb _ _ _ _ _ _ E1). symmetry. apply (dpath_state _ _ _ _ _ _ _ Hp). }
      subst s1.
      cbn [frun] in Hr.
      match type of Hr with context [if ?cc then _ else _] => destruct cc end; [|discriminate].
      injection Hr as Hwt.
      set (ls := m_layers m) in *.
      rewrite app_length in Hlen, Hlast, Hm, Hvb. cbn [length] in Hlen, Hlast, Hm, Hvb.
      replace (i + (length ds + 1)) with (S (i + length ds)) in * by lia.
      set (k' := S (i + length ds)) in *.
      set (a := Stg m0 ls (S k')) in *.
      assert (Ma : Stat m a).
      { eapply Stat_trans; [exact HS0|]. apply (Stg_base m0 ls (S k')). }
      pose proof Ma as (_ & _ & Hla & Hia).
      destruct (proc_hit a (nth k' ls []) t' eid t r) as [Q1 Q2]; auto.
      + rewrite Hia. exact Hin.
      + rewrite (Stat_edge m a eid Ma). exact Hf.
      + pose proof (dpath_range _ _ _ _ _ _ _ Hp). lia.
      + rewrite (Stat_edge m a eid Ma) in Q2. unfold a in Q1, Q2.
        rewrite <- (Stg_step m0 ls k') in Q1, Q2 by exact Hlen.
        assert (Hisor : in_isize (r + wt - w1)).
        { apply (Hiso ds [d] s' w1); [reflexivity|exact E1]. }
        destruct (IH kk v w1 (r + wt - w1)%Z E1) as [R1 R2].
        * lia.
        * exact Hlay.
        * exact Q1.
        * eapply Z.le_trans; [|exact Q2]. apply sat_add_ge; [exact Hisor|].
          rewrite <- Hwt. lia.
        * intros ds1 ds2 s1 v1 E Hr1.
          replace (r + wt - w1 + w1 - v1)%Z with (r + wt - v1)%Z by lia.
          apply (Hiso ds1 (ds2 ++ [d]) s1 v1); [rewrite E, app_assoc; reflexivity|exact Hr1].
        * split; [exact R1|]. lia.
  Qed.

  Lemma last_is_nth {A} (l : list A) d : last l d = nth (length l - 1) l d.
  Proof.
    induction l as [|x l IH]; [reflexivity|]. destruct l as [|y l]; [reflexivity|].
    change (last (x :: y :: l) d) with (last (y :: l) d). rewrite IH. simpl. rewrite Nat.sub_0_r. reflexivity.
  Qed.

  Lemma Stat_fold {X} (f : mdd -> X -> mdd) l a : (forall b x, Stat b (f b x)) -> Stat a (fold_left f l a).
  Proof.
    intros Hf. revert a. induction l as [|x l IH]; intros a; simpl; [apply Stat_refl|].
    eapply Stat_trans; [apply Hf|apply IH].
  Qed.

  Lemma lb_init_spec (m : mdd) :
    Stat m (lb_init m) /\
    forall t, In t (last (m_layers m) []) -> t < length (m_nodes m) ->
      f_marked (n_flags (gn (lb_init m) t)) = true /\ (0 <= n_vbot (gn (lb_init m) t))%Z.
  Proof.
    split.
    - unfold lb_init. apply Stat_fold. intros b x. apply Stat_upd. reflexivity.
    - intros t Ht Hlt. unfold lb_init.
      set (f := fun (m0 : mdd) (id : nat) => upd_node m0 id (fun n => set_vbot (set_flags n (fl_set_marked (n_flags n) true)) 0%Z)).
      set (P := fun c : mdd => f_marked (n_flags (gn c t)) = true /\ (0 <= n_vbot (gn c t))%Z).
      apply (fold_left_hit (fun c => Stat m c) P f (last (m_layers m) []) m t Ht).
      + apply Stat_refl.
      + intros c y _ Hc. eapply Stat_trans; [exact Hc|]. apply Stat_upd. reflexivity.
      + intros c (_ & _ & Hl & _). unfold P, f. rewrite gn_upd_same by lia. nsimpl. split; [reflexivity|lia].
      + intros c y _ _ [P1 P2]. unfold P, f. destruct (Nat.eq_dec y t) as [->|Hne].
        * destruct (Nat.lt_ge_cases t (length (m_nodes c))) as [H1|H1].
          -- rewrite gn_upd_same by exact H1. nsimpl. split; [reflexivity|lia].
          -- rewrite gn_upd_out by exact H1. auto.
        * rewrite gn_upd_other by exact Hne. auto.
  Qed.

  Lemma local_bounds_path (m : mdd) i c sc ds t s' kk v w :
    lb_go m = true -> dpath m i c sc ds t s' -> frn kk sc v ds = Some (s', w) ->
    S (i + length ds) = length (m_layers m) -> In t (last (m_layers m) []) ->
    (forall ds1 ds2 s1 v1, ds = ds1 ++ ds2 -> frn kk sc v ds1 = Some (s1, v1) -> in_isize (w - v1)) ->
    f_marked (n_flags (gn (compute_local_bounds inp m) c)) = true /\
    (w - v <= n_vbot (gn (compute_local_bounds inp m) c))%Z.
  Proof.
    intros Hgo Hp Hr Hlen Hlast Hiso.
    rewrite compute_local_bounds_unfold, Hgo.
    destruct (lb_init_spec m) as [HS0 Hinit].
    set (m0 := lb_init m) in *. set (ls := m_layers m) in *.
    assert (E0 : fold_left lb_step (bottom_up m) m0 = Stg m0 ls 0).
    { unfold bottom_up, Stg. rewrite fold_left_concat. reflexivity. }
    rewrite E0.
    assert (Etop : Stg m0 ls (S (i + length ds)) = m0).
    { unfold Stg. rewrite skipn_all2 by lia. reflexivity. }
    pose proof (dpath_range _ _ _ _ _ _ _ Hp) as Htl.
    destruct (Hinit t Hlast Htl) as [I1 I2].
    destruct (lb_path m m0 HS0 i c sc ds t s' Hp kk v w 0%Z Hr) as [R1 R2].
    - fold ls. lia.
    - fold ls. rewrite (last_is_nth ls []) in Hlast. replace (i + length ds) with (length ls - 1) by lia. exact Hlast.
    - fold ls. rewrite Etop. exact I1.
    - fold ls. rewrite Etop. exact I2.
    - intros ds1 ds2 s1 v1 E H1. replace (0 + w - v1)%Z with (w - v1)%Z by lia. eapply Hiso; eauto.
    - fold ls in R1, R2. split; [exact R1|lia].
  Qed.

  (* ================================================================== 6. the cut-sets *)
  Definition fc_inner (m : mdd) (eid : nat) : mdd :=
    let e := get_edge m eid in
    let p := gn m (e_from e) in
    if fl_is_exact (n_flags p) && negb (f_cutset (n_flags p)) then
      upd_node (with_cutset m (m_cutset m ++ [e_from e])) (e_from e)
        (fun n => set_flags n (fl_set_cutset (n_flags n) true))
    else m.
  Definition fc_step (m : mdd) (id : nat) : mdd :=
    let n := gn m id in
    if fl_is_exact (n_flags n) then upd_node m id (fun n => set_flags n (fl_set_above (n_flags n) true))
    else fold_left fc_inner (n_inb n) m.

  Lemma frontier_cutset_unfold (m : mdd) : frontier_cutset inp m true = fold_left fc_step (bottom_up m) m.
  Proof. reflexivity. Qed.

  Definition FInv (m a : mdd) : Prop :=
    m_edges a = m_edges m /\ length (m_nodes a) = length (m_nodes m) /\
    (forall x, n_inb (gn a x) = n_inb (gn m x) /\ is_ex a x = is_ex m x) /\
    (forall x, x < length (m_nodes a) -> f_cutset (n_flags (gn a x)) = true -> In x (m_cutset a)).

  Lemma FInv_upd_above (m a : mdd) id :
    FInv m a -> FInv m (upd_node a id (fun n => set_flags n (fl_set_above (n_flags n) true))).
  Proof.
    intros (F1 & F2 & F3 & F4).
    set (f := fun n : node => set_flags n (fl_set_above (n_flags n) true)).
    assert (Hg : forall x, n_inb (gn (upd_node a id f) x) = n_inb (gn a x) /\
                           is_ex (upd_node a id f) x = is_ex a x /\
                           f_cutset (n_flags (gn (upd_node a id f) x)) = f_cutset (n_flags (gn a x))).
    { intros x. unfold is_ex. destruct (Nat.eq_dec id x) as [->|Hne].
      - destruct (Nat.lt_ge_cases x (length (m_nodes a))) as [Hlt|Hge].
        + rewrite gn_upd_same by exact Hlt. repeat split.
        + rewrite gn_upd_out by exact Hge. repeat split.
      - rewrite gn_upd_other by exact Hne. repeat split. }
    split; [exact F1|]. split; [msimpl; rewrite upd_nth_length; exact F2|]. split.
    - intros x. destruct (Hg x) as (g1 & g2 & _). destruct (F3 x) as [f1 f2]. split; congruence.
    - intros x Hx Hc. destruct (Hg x) as (_ & _ & g3). rewrite g3 in Hc.
      change (m_cutset (upd_node a id f)) with (m_cutset a). apply F4; [|exact Hc].
      revert Hx. msimpl. rewrite upd_nth_length. auto.
  Qed.

  Lemma FInv_fc_inner (m a : mdd) eid :
    FInv m a -> FInv m (fc_inner a eid) /\ incl (m_cutset a) (m_cutset (fc_inner a eid)).
  Proof.
    intros HF. pose proof HF as (F1 & F2 & F3 & F4). unfold fc_inner. cbv zeta.
    set (p := e_from (get_edge a eid)).
    destruct (fl_is_exact (n_flags (gn a p)) && negb (f_cutset (n_flags (gn a p)))); [|split; [exact HF|apply incl_refl]].
    set (a1 := with_cutset a (m_cutset a ++ [p])).
    set (f := fun n : node => set_flags n (fl_set_cutset (n_flags n) true)).
    assert (Hg : forall x, n_inb (gn (upd_node a1 p f) x) = n_inb (gn a x) /\
                           is_ex (upd_node a1 p f) x = is_ex a x /\
                           (x <> p -> f_cutset (n_flags (gn (upd_node a1 p f) x)) = f_cutset (n_flags (gn a x)))).
    { intros x. unfold is_ex. destruct (Nat.eq_dec p x) as [<-|Hne].
      - destruct (Nat.lt_ge_cases p (length (m_nodes a1))) as [Hlt|Hge].
        + rewrite gn_upd_same by exact Hlt. change (gn a1 p) with (gn a p). repeat split. congruence.
        + rewrite gn_upd_out by exact Hge. repeat split.
      - rewrite gn_upd_other by exact Hne. repeat split. }
    split.
    - split; [exact F1|]. split; [msimpl; rewrite upd_nth_length; exact F2|]. split.
      + intros x. destruct (Hg x) as (g1 & g2 & _). destruct (F3 x) as [f1 f2]. split; congruence.
      + intros x Hx Hc. change (m_cutset (upd_node a1 p f)) with (m_cutset a ++ [p]).
        destruct (Nat.eq_dec x p) as [->|Hne]; [apply in_or_app; right; left; reflexivity|].
        destruct (Hg x) as (_ & _ & g3). rewrite (g3 Hne) in Hc. apply in_or_app. left. apply F4; [|exact Hc].
        revert Hx. msimpl. rewrite upd_nth_length. auto.
    - change (m_cutset (upd_node a1 p f)) with (m_cutset a ++ [p]). apply incl_appl, incl_refl.
  Qed.

  Lemma FInv_fc_step (m a : mdd) id :
    FInv m a -> FInv m (fc_step a id) /\ incl (m_cutset a) (m_cutset (fc_step a id)).
  Proof.
    intros HF. unfold fc_step. cbv zeta. destruct (fl_is_exact _).
    - split; [apply FInv_upd_above; exact HF|apply incl_refl].
    - apply (fold_left_inv (fun b => FInv m b /\ incl (m_cutset a) (m_cutset b))).
      + split; [exact HF|apply incl_refl].
      + intros b x _ [Hb Hi]. destruct (FInv_fc_inner m b x Hb) as [H1 H2].
        split; [exact H1|eapply incl_tran; eauto].
  Qed.

  Lemma frontier_cutset_hit (m : mdd) c c' eid :
    (forall x, x < length (m_nodes m) -> f_cutset (n_flags (gn m x)) = true -> In x (m_cutset m)) ->
    In c' (bottom_up m) -> is_ex m c' = false -> In eid (n_inb (gn m c')) ->
    e_from (get_edge m eid) = c -> is_ex m c = true -> c < length (m_nodes m) ->
    In c (m_cutset (frontier_cutset inp m true)).
  Proof.
    intros H0 Hc' Hnx Hin Hf Hx Hlt. rewrite frontier_cutset_unfold.
    assert (HF0 : FInv m m) by (repeat split; auto).
    apply (fold_left_hit (fun a => FInv m a) (fun a => In c (m_cutset a)) fc_step (bottom_up m) m c' Hc' HF0).
    - intros a y _ Ha. apply (FInv_fc_step m a y Ha).
    - intros a Ha. pose proof Ha as (F1 & F2 & F3 & F4). unfold fc_step. cbv zeta.
      destruct (F3 c') as [i1 x1]. unfold is_ex in x1. rewrite x1. unfold is_ex in Hnx. rewrite Hnx. rewrite i1.
      apply (fold_left_hit (fun b => FInv m b) (fun b => In c (m_cutset b)) fc_inner (n_inb (gn m c')) a eid Hin Ha).
      + intros b y _ Hb. apply (FInv_fc_inner m b y Hb).
      + intros b Hb. pose proof Hb as (G1 & G2 & G3 & G4). unfold fc_inner. cbv zeta.
        rewrite (ge_edges_eq m b eid G1), Hf.
        destruct (G3 c) as [_ x2]. unfold is_ex in x2, Hx. rewrite x2, Hx. simpl andb.
        destruct (f_cutset (n_flags (gn b c))) eqn:Ec; simpl negb; cbv iota.
        * apply G4; [lia|exact Ec].
        * msimpl. apply in_or_app. right; left; reflexivity.
      + intros b y _ Hb Hc. apply (FInv_fc_inner m b y Hb). exact Hc.
    - intros a y _ Ha Hc. apply (FInv_fc_step m a y Ha). exact Hc.
  Qed.

  Lemma lel_finalize_cutset (m : mdd) k : m_lel m = Some k -> m_lel (finalize_cutset inp m) = Some k.
  Proof.
    intros Hk. unfold finalize_cutset. cbv zeta. rewrite Hk.
    assert (L1 : forall (a : mdd) j, m_lel (lel_cutset a j) = m_lel a).
    { intros a j. unfold lel_cutset. rewrite (fold_left_proj (fun b : mdd => m_lel b)) by (intros; reflexivity).
      destruct (nth_error _ _); [|reflexivity]. msimpl.
      apply (fold_left_proj (fun b : mdd => m_lel b)). intros; reflexivity. }
    assert (L2 : forall (a : mdd) push, m_lel (frontier_cutset inp a push) = m_lel a).
    { intros a push. unfold frontier_cutset. apply (fold_left_proj (fun b : mdd => m_lel b)). intros b id.
      destruct (fl_is_exact _); [reflexivity|].
      apply (fold_left_proj (fun c : mdd => m_lel c)). intros c eid.
      destruct (_ && _); [|reflexivity]. destruct push; reflexivity. }
    destruct (ci_flavour inp); destruct (_ || _); rewrite ?L1, ?L2; exact Hk.
  Qed.

  (* ---------------------------------------------------------------- more on diagram paths *)
  Lemma dpath_start_layer m i c sc ds t s' :
    dpath m i c sc ds t s' -> ds <> [] -> In c (nth i (m_layers m) []).
  Proof.
    intros Hp. induction Hp as [i u s Hu Hc|i u s ds t s' d eid t' Hp IH Hlay Ht' He Hin Hf Hd Hcost Hcov]; intros Hne.
    - congruence.
    - destruct ds as [|d0 ds0].
      + inversion Hp; subst; [|match goal with H : _ ++ [_] = [] |- _ => destruct (app_cons_not_nil _ _ _ (eq_sym H)) end].
        simpl in Hlay. rewrite Nat.add_0_r in Hlay. exact Hlay.
      + apply IH. discriminate.
  Qed.

  Lemma dpath_last_exact m i u s ds t s' :
    dpath m i u s ds t s' -> is_ex m u = true -> is_ex m t = false ->
    exists ds1 ds2 c sc c' eid, ds = ds1 ++ ds2 /\ ds2 <> [] /\
      dpath m i u s ds1 c sc /\ dpath m (i + length ds1) c sc ds2 t s' /\ is_ex m c = true /\
      c' < length (m_nodes m) /\ In eid (n_inb (gn m c')) /\ e_from (get_edge m eid) = c /\
      is_ex m c' = false /\ (c' = t \/ exists k, In c' (nth k (m_layers m) [])).
  Proof.
    intros Hp. induction Hp as [i u s Hu Hc|i u s ds t s' d eid t' Hp IH Hlay Ht' He Hin Hf Hd Hcost Hcov];
      intros Hxu Hxt.
    - congruence.
    - destruct (is_ex m t) eqn:Ext.
      + exists ds, [d], t, s', t', eid.
        split; [reflexivity|]. split; [discriminate|]. split; [exact Hp|]. split.
        * apply (dp_snoc m (i + length ds) t s' [] t s' d eid t'); auto.
          -- apply dp_nil; [eapply dpath_range; eauto|eapply dpath_cov; eauto].
          -- simpl. rewrite Nat.add_0_r. exact Hlay.
        * split; [exact Ext|]. split; [exact Ht'|]. split; [exact Hin|]. split; [exact Hf|]. split; [exact Hxt|].
          left; reflexivity.
      + destruct (IH Hxu eq_refl) as (ds1 & ds2 & c & sc & c' & eid' & E & Hne & P1 & P2 & Xc & Lc' & Ic' & Fc' & Xc' & Oc').
        exists ds1, (ds2 ++ [d]), c, sc, c', eid'.
        split; [rewrite E, app_assoc; reflexivity|]. split; [intros E0; apply app_eq_nil in E0; destruct E0; discriminate|].
        split; [exact P1|]. split.
        * apply (dp_snoc m (i + length ds1) c sc ds2 t s' d eid t'); auto.
          rewrite <- Nat.add_assoc, <- app_length, <- E. exact Hlay.
        * split; [exact Xc|]. split; [exact Lc'|]. split; [exact Ic'|]. split; [exact Fc'|]. split; [exact Xc'|].
          right. destruct Oc' as [->|Hk]; [eexists; exact Hlay|exact Hk].
  Qed.

  (* ---------------------------------------------------------------- the stages of _finalize, node by node *)
  Lemma node_finalize_cutset {Y} (g : node -> Y) (m : mdd) x :
    (forall n f, g (set_flags n f) = g n) ->
    g (gn (finalize_cutset inp m) x) = g (gn m x).
  Proof.
    intros Hg.
    assert (Hu : forall (a : mdd) k (f : node -> flags),
              g (gn (upd_node a k (fun n => set_flags n (f n))) x) = g (gn a x)).
    { intros a k f. apply (get_node_upd_node_proj inp g). intros n. apply Hg. }
    assert (L1 : forall (a : mdd) j, g (gn (lel_cutset a j) x) = g (gn a x)).
    { intros a j. unfold lel_cutset.
      rewrite (fold_left_proj (fun b : mdd => g (gn b x))) by (intros b id; apply Hu).
      destruct (nth_error _ _); [|reflexivity].
      change (g (gn (fold_left (fun m0 id => upd_node m0 id (fun n => set_flags n (fl_set_above (fl_set_cutset (n_flags n) true) true))) l a) x) = g (gn a x)).
      apply (fold_left_proj (fun b : mdd => g (gn b x))). intros b id. apply Hu. }
    assert (L2 : forall (a : mdd) push, g (gn (frontier_cutset inp a push) x) = g (gn a x)).
    { intros a push. unfold frontier_cutset. apply (fold_left_proj (fun b : mdd => g (gn b x))). intros b id.
      destruct (fl_is_exact _); [apply Hu|].
      apply (fold_left_proj (fun c : mdd => g (gn c x))). intros c eid. cbv zeta.
      destruct (_ && _); [|reflexivity]. destruct push; rewrite Hu; reflexivity. }
    unfold finalize_cutset. cbv zeta.
    destruct (ci_flavour inp); destruct (m_lel m); destruct (_ || _); rewrite ?L1, ?L2; reflexivity.
  Qed.

  Lemma node_compute_local_bounds {Y} (g : node -> Y) (m : mdd) x :
    (forall n f, g (set_flags n f) = g n) -> (forall n v, g (set_vbot n v) = g n) ->
    g (gn (compute_local_bounds inp m) x) = g (gn m x).
  Proof.
    intros Hg1 Hg2.
    assert (Hu : forall (a : mdd) k (f : node -> flags) (v : node -> Z),
              g (gn (upd_node a k (fun n => set_vbot (set_flags n (f n)) (v n))) x) = g (gn a x)).
    { intros a k f v. apply (get_node_upd_node_proj inp g). intros n. rewrite Hg2. apply Hg1. }
    unfold compute_local_bounds. cbv zeta. destruct (_ && _); [|reflexivity].
    rewrite (fold_left_proj (fun b : mdd => g (gn b x))).
    - apply (fold_left_proj (fun b : mdd => g (gn b x))). intros b id. apply (Hu b id _ (fun _ => 0%Z)).
    - intros b id. destruct (f_marked _); [|reflexivity].
      apply (fold_left_proj (fun c : mdd => g (gn c x))). intros c eid. apply Hu.
  Qed.

  Lemma pipe3 tb tb2 (ml : mdd) :
    Sinv inp ml -> Xs inp ml ->
    let m3 := finalize_exact inp (find_best_node inp tb tb2 (finalize_layers inp ml)) in
    m_nodes m3 = m_nodes ml /\ m_edges m3 = m_edges ml /\
    m_layers m3 = m_layers (finalize_layers inp ml) /\ m_lel m3 = m_lel ml /\ m_cutset m3 = m_cutset ml /\
    Sinv inp m3 /\ Xs inp m3 /\ peq inp ml m3.
  Proof.
    intros HS HX. cbv zeta.
    destruct (finalize_layers_spec inp Hclean ml HS HX) as (S1 & X1 & P1 & N1).
    destruct (finalize_layers_fields ml) as (F1 & F2 & F3 & F4 & F5).
    set (m1 := finalize_layers inp ml) in *.
    set (m3 := finalize_exact inp (find_best_node inp tb tb2 m1)).
    assert (P3 : peq inp m1 m3) by (apply peq_same_nodes; reflexivity).
    split; [exact F1|]. split; [exact F4|]. split; [reflexivity|]. split; [exact F3|].
    split.
    { change (m_cutset (finalize_layers inp ml) = m_cutset ml). unfold finalize_layers. cbv zeta.
      rewrite (not_pooled inp Hclean). destruct (m_next ml); reflexivity. }
    split; [|split].
    - eapply (Sinv_peq inp Hclean); [exact P3| |exact S1]. intros id Hid. apply (S_next _ _ S1). exact Hid.
    - eapply Xg_peq; [exact P3|reflexivity|reflexivity|reflexivity|exact X1].
    - eapply peq_trans; eauto.
  Qed.

  (* ---------------------------------------------------------------- the cut-set node met by a tracked path *)
  Lemma in_bottom_up (m : mdd) k x : In x (nth k (m_layers m) []) -> In x (bottom_up m).
  Proof.
    intros H. unfold bottom_up. apply in_concat. exists (nth k (m_layers m) []). split; [|exact H].
    apply in_rev. rewrite rev_involutive.
    destruct (Nat.lt_ge_cases k (length (m_layers m))) as [Hlt|Hge]; [apply nth_In; exact Hlt|].
    rewrite nth_overflow in H by exact Hge. destruct H.
  Qed.

  Lemma cut_node tb tb2 (ml : mdd) k ds u s' :
    ci_type inp = Relaxed -> Sinv inp ml -> Xs inp ml -> Ninv ml -> Einv ml -> m_lel ml = Some k ->
    length (m_layers ml) = length ds -> In u (m_next ml) -> m_layer_end ml <= u < length (m_nodes ml) ->
    dpath ml 0 0 rs ds u s' -> is_ex ml u = false ->
    let m4 := finalize_cutset inp (finalize_exact inp (find_best_node inp tb tb2 (finalize_layers inp ml))) in
    exists ds1 ds2 c sc, ds = ds1 ++ ds2 /\ ds2 <> [] /\ dpath ml 0 0 rs ds1 c sc /\
      dpath ml (length ds1) c sc ds2 u s' /\ is_ex ml c = true /\ In c (m_cutset m4).
  Proof.
    intros Ht HS HX HN HE Hlel Hlen Hu Hur Hp Hxu. cbv zeta.
    destruct (pipe3 tb tb2 ml HS HX) as (G1 & G2 & G3 & G4 & G5 & S3 & X3 & Pl3). cbv zeta in G1, G2, G3, G4, G5, S3, X3, Pl3.
    set (m3 := finalize_exact inp (find_best_node inp tb tb2 (finalize_layers inp ml))) in *.
    destruct (finalize_layers_fields ml) as (_ & _ & _ & _ & F5).
    assert (Hly3 : m_layers m3 = m_layers ml ++ [seq (m_layer_end ml) (length (m_nodes ml) - m_layer_end ml)]).
    { rewrite G3, F5. destruct (m_next ml); [destruct Hu|reflexivity]. }
    assert (Hgn3 : forall x, gn m3 x = gn ml x) by (intros x; apply gn_nodes_eq; exact G1).
    assert (Hge3 : forall x, get_edge m3 x = get_edge ml x) by (intros x; apply ge_edges_eq; exact G2).
    pose proof (X_lel_lt _ _ _ HX Ht k Hlel) as Hk.
    assert (Hfl : length (firstn k ds) = k) by (rewrite firstn_length; lia).
    destruct (dpath_split _ _ _ _ _ _ _ Hp (firstn k ds) (skipn k ds)) as (ck & sck & Pa & Pb).
    { symmetry. apply firstn_skipn. }
    rewrite Hfl in Pb. simpl in Pb.
    assert (Hsk : skipn k ds <> []).
    { intros E. pose proof (skipn_length k ds) as Hs. rewrite E in Hs. simpl in Hs. lia. }
    pose proof (dpath_start_layer _ _ _ _ _ _ _ Pb Hsk) as Hck.
    assert (Hnk : nth_error (m_layers ml) k = Some (nth k (m_layers ml) [])) by (apply nth_error_nth'; exact Hk).
    assert (Hxck : is_ex ml ck = true) by (apply (X_lel_some _ _ _ HX k _ ck Hlel Hnk Hck)).
    assert (Hrs : n_state (gn ml 0) = rs) by (destruct (S_root _ _ HS) as (_ & r2 & _); exact r2).
    destruct (dpath_exact _ _ _ _ _ _ _ HE Pa Hrs Hxck) as (_ & _ & Hx0).
    destruct Hclean as [Hf|Hf].
    - (* last exact layer *)
      exists (firstn k ds), (skipn k ds), ck, sck.
      split; [symmetry; apply firstn_skipn|]. split; [exact Hsk|]. split; [exact Pa|].
      split; [rewrite Hfl; exact Pb|]. split; [exact Hxck|].
      unfold finalize_cutset. cbv zeta. rewrite Hf, G4, Hlel, Ht. cbn [is_relaxed_ct orb opt_default].
      rewrite G4, Hlel. cbn [opt_default].
      destruct (lel_cutset_spec inp m3 k) as [_ Hcs]. rewrite Hcs.
      apply in_or_app. right. rewrite Hly3. rewrite nth_error_app1 by exact Hk. rewrite Hnk. exact Hck.
    - (* frontier *)
      destruct (dpath_last_exact _ _ _ _ _ _ _ Hp Hx0 Hxu)
        as (ds1 & ds2 & c & sc & c' & eid & E & Hne & P1 & P2 & Xc & Lc' & Ic' & Fc' & Xc' & Oc').
      exists ds1, ds2, c, sc. split; [exact E|]. split; [exact Hne|]. split; [exact P1|].
      split; [exact P2|]. split; [exact Xc|].
      unfold finalize_cutset. cbv zeta. rewrite Hf, G4, Hlel, Ht. cbn [is_relaxed_ct orb].
      apply (frontier_cutset_hit m3 c c' eid).
      + intros x Hx Hc. exfalso. rewrite Hgn3 in Hc. rewrite G1 in Hx.
        unfold Ninv in HN. rewrite Forall_forall in HN.
        destruct (HN (gn ml x)) as [Q _]; [apply nth_In; exact Hx|]. congruence.
      + destruct Oc' as [->|[k' Hk']].
        * apply (in_bottom_up m3 (length (m_layers ml))). rewrite Hly3. rewrite app_nth2 by lia.
          rewrite Nat.sub_diag. simpl. apply in_seq. lia.
        * apply (in_bottom_up m3 k'). rewrite Hly3. apply nth_layers_app. exact Hk'.
      + unfold is_ex. rewrite Hgn3. exact Xc'.
      + rewrite Hgn3. exact Ic'.
      + rewrite Hge3. exact Fc'.
      + unfold is_ex. rewrite Hgn3. exact Xc.
      + rewrite G1. eapply dpath_range; eauto.
  Qed.

  (* ---------------------------------------------------------------- S4 core: the cut-set node of an optimal path *)
  Lemma S4_core tb tb2 (ml : mdd) o :
    ci_type inp = Relaxed -> Sinv inp ml -> Xs inp ml -> Ninv ml -> Post ml ->
    vstar = Some o -> (lb < o)%Z ->
    let m := finalize st_eqb inp tb tb2 ml in
    dd_is_exact m = false -> (forall e, dd_best_exact_value inp m = Some e -> (e < o)%Z) ->
    exists c, In c (m_cutset m) /\ f_marked (n_flags (gn m c)) = true /\
      oadd (n_vtop (gn m c)) (H pb (n_depth (gn m c)) (n_state (gn m c))) = Some o /\
      (o <= sat_add (n_vtop (gn m c)) (n_vbot (gn m c)))%Z /\
      (o <= sat_add (n_vtop (gn m c)) (n_rub (gn m c)))%Z.
  Proof.
    intros Ht HS HX HN HP Hv Hlb m Hnex Hbe.
    assert (Hen : enabled ml) by (intros E; rewrite Ht in E; discriminate).
    destruct (track_terminal ml o HS HP Hen Hv Hlb) as (ds & sN & u & s' & Hprom & HE & Hlen & Hu & Hur & Hp & Hvt).
    destruct (finalize_hdr tb tb2 ml) as (H1 & H2 & H3 & H4). cbv zeta in H1, H2, H3, H4. fold m in H1, H2, H3, H4.
    unfold dd_is_exact in Hnex. apply orb_false_iff in Hnex. destruct Hnex as [Hnx Hebp].
    rewrite Hnx in H1. destruct (m_lel ml) as [k|] eqn:Hlel; [|discriminate].
    pose proof Hprom as (Hrun & Hdsl & _).
    (* the terminal node of the path is not exact *)
    assert (Hxu : is_ex ml u = false).
    { destruct (is_ex ml u) eqn:Ex; [|reflexivity]. exfalso.
      destruct (best_exact_ge tb tb2 ml u HS HX Hu Ex Hebp) as (b & Hb & _ & Hge). fold m in Hb, Hge.
      specialize (Hbe (n_vtop (gn m b))). unfold dd_best_exact_value in Hbe. rewrite Hb in Hbe.
      specialize (Hbe eq_refl). lia. }
    destruct (cut_node tb tb2 ml k ds u s' Ht HS HX HN HE Hlel) as (ds1 & ds2 & c & sc & E & Hne & P1 & P2 & Xc & Hcut); auto.
    { lia. }
    cbv zeta in Hcut.
    destruct (pipe3 tb tb2 ml HS HX) as (G1 & G2 & G3 & G4 & G5 & S3 & X3 & Pl3). cbv zeta in G1, G2, G3, G4, G5, S3, X3, Pl3.
    set (m3 := finalize_exact inp (find_best_node inp tb tb2 (finalize_layers inp ml))) in *.
    set (m4 := finalize_cutset inp m3) in *.
    set (m5 := compute_local_bounds inp m4).
    assert (Em : m = compute_thresholds st_eqb inp m5) by reflexivity.
    (* semantic facts about c *)
    assert (Hrs : n_state (gn ml 0) = rs) by (destruct (S_root _ _ HS) as (_ & r2 & _); exact r2).
    assert (Hrdp : n_depth (gn ml 0) = rd) by (destruct (S_root _ _ HS) as (_ & _ & _ & r4 & _); exact r4).
    destruct (dpath_exact _ _ _ _ _ _ _ HE P1 Hrs Xc) as (Hsc & Hdc & _). rewrite Hrdp in Hdc.
    rewrite E, frun_app in Hrun.
    destruct (frn rd rs rv ds1) as [[sc' vc]|] eqn:Er1; [|discriminate].
    assert (sc' = sc).
    { rewrite (frun_state pb _ _ _ _ _ _ Er1). symmetry. apply (dpath_state _ _ _ _ _ _ _ P1). }
    subst sc'.
    assert (HsN : sN = s').
    { rewrite (frun_state pb _ _ _ _ _ _ Hrun). symmetry. apply (dpath_state _ _ _ _ _ _ _ P2). }
    subst sN.
    pose proof (dpath_vtop ml ds1 c sc HE P1 (Sinv_root_vtop ml HS) _ _ Er1) as Hvc.
    rewrite E, app_length in Hdsl.
    destruct (frun_le_H pb nv_static nv_none ds2 (rd + length ds1) sc vc s' o) as (h & Hh & Hle); [lia|exact Hrun|].
    assert (Hclen : c < length (m_nodes ml)) by (eapply dpath_range; eauto).
    assert (Hup : (n_vtop (gn ml c) + h <= o)%Z).
    { pose proof (Sinv_exact_flag_clean_chain inp ml HS c Hclen Xc) as Hcc.
      destruct (clean_chain_frun ml c HS Hcc Hclen) as (dsc & Hrc & Hdepc).
      assert (Hl : length dsc = length ds1) by lia.
      destruct (H_attained pb nv_static nv_some nv_none (N - (rd + length ds1)) (rd + length ds1) sc
                  (n_vtop (gn ml c)) h eq_refl ltac:(lia) Hh) as (dsx & sx & Hrx & Hlx).
      apply (vstar_upper o (dsc ++ dsx) sx _ Hv).
      - rewrite frun_app, Hrc, Hl, Hsc. exact Hrx.
      - rewrite app_length. lia. }
    assert (Hvceq : n_vtop (gn ml c) = vc) by lia.
    assert (Hoeq : (vc + h = o)%Z) by lia.
    destruct (Hguard _ _ _ Er1) as [Hg1 Hg2].
    assert (Hgo : (- B <= o <= B)%Z).
    { apply (Hguard (ds1 ++ ds2) s'). rewrite frun_app, Er1. exact Hrun. }
    assert (Hiso_o : in_isize o) by (unfold in_isize, IMIN, IMAX in *; lia).
    (* transfer to the finalized diagram *)
    destruct (finalize_cutset_spec inp Hclean m3 S3 X3) as [B34 _]. fold m4 in B34.
    destruct B34 as (P34 & _).
    assert (Pl4 : peq inp ml m4) by (eapply peq_trans; eauto).
    destruct (finalize_layers_fields ml) as (_ & _ & _ & _ & F5).
    assert (Hly4 : m_layers m4 = m_layers ml ++ [seq (m_layer_end ml) (length (m_nodes ml) - m_layer_end ml)]).
    { unfold m4. rewrite finalize_cutset_layers, G3, F5. destruct (m_next ml); [destruct Hu|reflexivity]. }
    assert (P2' : dpath m4 (length ds1) c sc ds2 u s').
    { eapply dpath_peq; [exact Pl4| |exact P2]. intros j x. rewrite Hly4. apply nth_layers_app. }
    assert (Hgo4 : lb_go m4 = true).
    { unfold lb_go. rewrite Ht. unfold m4. rewrite (lel_finalize_cutset m3 k) by (rewrite G4; exact Hlel).
      fold m4. rewrite Hly4, app_length. cbn [opt_default length is_relaxed_ct].
      pose proof (X_lel_lt _ _ _ HX Ht k Hlel). rewrite andb_true_r. apply Nat.ltb_lt. lia. }
    destruct (local_bounds_path m4 (length ds1) c sc ds2 u s' (rd + length ds1) vc o Hgo4 P2' Hrun) as [M1 M2].
    { rewrite Hly4, app_length. simpl. lia. }
    { rewrite Hly4, last_last. apply in_seq. lia. }
    { intros da db s1 v1 Ed Hr1.
      destruct (Hguard (ds1 ++ da) s1 v1) as [Q1 Q2]; [rewrite frun_app, Er1; exact Hr1|].
      unfold in_isize, IMIN, IMAX in *. lia. }
    fold m5 in M1, M2.
    (* nodes of the final diagram *)
    destruct (finalize_core tb tb2 ml c HS HX) as (c1 & c2 & _ & _ & _ & _ & c7). fold m in c1, c2, c7.
    assert (Hmk : f_marked (n_flags (gn m c)) = true).
    { rewrite Em. rewrite (node_compute_thresholds (fun n => f_marked (n_flags n))) by reflexivity. exact M1. }
    assert (Hvb : n_vbot (gn m c) = n_vbot (gn m5 c)).
    { rewrite Em. apply (node_compute_thresholds (@n_vbot St)). reflexivity. }
    assert (Hrb : n_rub (gn m c) = n_rub (gn ml c)).
    { rewrite Em. rewrite (node_compute_thresholds (@n_rub St)) by reflexivity.
      unfold m5. rewrite (node_compute_local_bounds (@n_rub St)) by reflexivity.
      unfold m4. rewrite (node_finalize_cutset (@n_rub St)) by reflexivity.
      rewrite (gn_nodes_eq inp ml m3 c G1). reflexivity. }
    assert (Hcs : m_cutset m = m_cutset m4).
    { destruct (compute_local_bounds_keq inp Hclean m4) as (_ & _ & _ & _ & K5). fold m5 in K5.
      destruct (compute_thresholds_keq st_eqb inp m5) as (_ & _ & _ & _ & K6). rewrite Em. congruence. }
    exists c. split; [rewrite Hcs; exact Hcut|]. split; [exact Hmk|].
    rewrite <- c1, <- c2, <- c7, Hsc, Hdc, Hh, Hvceq. split; [simpl; f_equal; exact Hoeq|]. split.
    - rewrite Hvb. apply sat_add_ge; [exact Hiso_o|]. lia.
    - rewrite Hrb. apply sat_add_ge; [exact Hiso_o|].
      assert (Hhr : (h <= n_rub (gn ml c))%Z).
      { unfold Ninv in HN. rewrite Forall_forall in HN.
        destruct (HN (gn ml c)) as (_ & _ & [Q|Q]); [apply nth_In; exact Hclen| |].
        - rewrite Q. lia.
        - rewrite Q. apply (rub_adm (rd + length ds1) _ sc h); [rewrite Hsc; apply cov_refl|exact Hh]. }
      lia.
  Qed.

  Lemma finalize_rub tb tb2 (ml : mdd) x :
    n_rub (gn (finalize st_eqb inp tb tb2 ml) x) = n_rub (gn ml x).
  Proof.
    unfold finalize.
    rewrite (node_compute_thresholds (@n_rub St)) by reflexivity.
    rewrite (node_compute_local_bounds (@n_rub St)) by reflexivity.
    rewrite (node_finalize_cutset (@n_rub St)) by reflexivity.
    apply f_equal. apply gn_nodes_eq. apply (finalize_layers_fields ml).
  Qed.

  Lemma compile_post2 tb tb2 c ds polls m :
    compile st_eqb inp tb tb2 c ds polls = (m, Compiled) ->
    exists ml, m = finalize st_eqb inp tb tb2 ml /\ Sinv inp ml /\ Xs inp ml /\ Post ml /\ Ninv ml.
  Proof.
    unfold compile. cbv zeta. intros H.
    pose proof (layer_loop_Sinv st_eqb st_eqb_spec inp Hclean (S (S (nb_vars (ci_problem inp)))) c ds polls) as [HS HX].
    pose proof (layer_loop_Ninv (S (S (nb_vars (ci_problem inp)))) (initialize inp c ds polls) (Ninv_initialize c ds polls)) as HN.
    destruct (layer_loop st_eqb inp (S (S (nb_vars (ci_problem inp)))) (initialize inp c ds polls)) as [ml e] eqn:El.
    cbn [fst] in HS, HX, HN. destruct e; inversion H. exists ml.
    split; [reflexivity|]. split; [exact HS|]. split; [exact HX|]. split; [|exact HN].
    eapply layer_loop_sim; [apply Linv_initialize|exact El].
  Qed.

  (* S4 (K4, C08 iv), strengthened: the covering cut-set node also carries a valid upper bound *)
  Theorem S4_cutset_covers tb tb2 c ds polls m o :
    compile st_eqb inp tb tb2 c ds polls = (m, Compiled) ->
    ci_type inp = Relaxed -> dd_is_exact m = false -> vstar = Some o -> (o > lb)%Z ->
    (forall e, dd_best_exact_value inp m = Some e -> (e < o)%Z) ->
    exists sp, In sp (drain_cutset inp m) /\
      oadd (sp_value sp) (H pb (sp_depth sp) (sp_state sp)) = Some o /\ (o <= sp_ub sp)%Z.
  Proof.
    intros Hc Ht Hnex Hv Hlb Hbe.
    destruct (S1_relaxed_upper_bound _ _ _ _ _ _ _ Hc (or_introl Ht) Hv Hlb) as (bv & Hbv & Hbvo).
    destruct (compile_post2 _ _ _ _ _ _ Hc) as (ml & -> & HS & HX & HP & HN).
    destruct (S4_core tb tb2 ml o Ht HS HX HN HP Hv ltac:(lia) Hnex Hbe) as (cn & Hin & Hmk & Hbest & Hlocb & Hrub).
    set (m := finalize st_eqb inp tb tb2 ml) in *.
    set (n := gn m cn) in *.
    exists {| sp_state := n_state n; sp_value := n_vtop n; sp_path := best_path inp m cn;
              sp_ub := Z.min (Z.min (sat_add (n_vtop n) (n_rub n)) (sat_add (n_vtop n) (n_vbot n))) bv;
              sp_depth := n_depth n |}.
    split; [|split].
    - unfold drain_cutset. rewrite Hbv. apply in_flat_map. exists cn. split; [exact Hin|].
      cbv zeta. fold n. rewrite Hmk. left; reflexivity.
    - exact Hbest.
    - cbn [sp_ub]. lia.
  Qed.

  (* S3 (K3_ub, C08 iii), first two components: for every cut-set node the rough-bound component and
     the best-value component of its upper bound are valid (the local-bound component is added in
     S3_cutset_ub below, which needs the tracking from every expanded node). *)
  Theorem S3_cutset_ub_components tb tb2 c ds polls m sp o :
    compile st_eqb inp tb tb2 c ds polls = (m, Compiled) ->
    ci_type inp = Relaxed ->
    In sp (drain_cutset inp m) ->
    oadd (sp_value sp) (H pb (sp_depth sp) (sp_state sp)) = Some o -> (o > lb)%Z ->
    exists id bv, In id (m_cutset m) /\ dd_best_value inp m = Some bv /\
      sp_ub sp = Z.min (Z.min (sat_add (n_vtop (gn m id)) (n_rub (gn m id)))
                              (sat_add (n_vtop (gn m id)) (n_vbot (gn m id)))) bv /\
      (o <= sat_add (n_vtop (gn m id)) (n_rub (gn m id)))%Z /\ (o <= bv)%Z /\
      f_marked (n_flags (gn m id)) = true /\ sp_state sp = n_state (gn m id) /\
      sp_value sp = n_vtop (gn m id) /\ sp_depth sp = n_depth (gn m id).
  Proof.
    intros Hc Ht Hsp Ho Hlb.
    destruct (compile_post2 _ _ _ _ _ _ Hc) as (ml & Em & HS & HX & HP & HN).
    destruct (finalize_spec st_eqb inp Hclean tb tb2 ml HS HX) as ((_ & _ & L & A4) & _ & HSm & _ & _ & F6 & _).
    rewrite <- Em in L, A4, HSm, F6.
    unfold drain_cutset in Hsp. destruct (dd_best_value inp m) as [bv|] eqn:Ebv; [|destruct Hsp].
    apply in_flat_map in Hsp. destruct Hsp as (id & Hid & Hsp). cbv zeta in Hsp.
    destruct (f_marked (n_flags (gn m id))) eqn:Emk; [|destruct Hsp].
    destruct Hsp as [<-|[]]. cbn [sp_ub sp_state sp_value sp_depth] in *.
    destruct (F6 id Hid) as [Hidlt Hex].
    pose proof (Sinv_exact_flag_clean_chain inp m HSm id Hidlt Hex) as Hcc.
    destruct (clean_chain_frun m id HSm Hcc Hidlt) as (dsc & Hrc & Hdepc).
    destruct (H pb (n_depth (gn m id)) (n_state (gn m id))) as [h|] eqn:Eh; [|discriminate].
    simpl in Ho. inversion Ho; subst o. clear Ho.
    assert (Hdle : rd + length dsc <= N).
    { destruct (Nat.le_gt_cases (rd + length dsc) N) as [Hl|Hg]; [exact Hl|]. exfalso.
      destruct (rev dsc) as [|dl r] eqn:Er.
      - assert (dsc = []) by (rewrite <- (rev_involutive dsc), Er; reflexivity). subst dsc. simpl in Hg. lia.
      - assert (Ed : dsc = rev r ++ [dl]) by (rewrite <- (rev_involutive dsc), Er; reflexivity).
        rewrite Ed in Hrc. rewrite frun_app in Hrc.
        destruct (frn rd rs rv (rev r)) as [[s1 v1]|]; [|discriminate].
        cbn [frun] in Hrc. rewrite Ed, app_length in Hg. simpl in Hg.
        assert (Hv0 : var_ok pb (rd + length (rev r)) dl = false).
        { unfold var_ok. rewrite nv_none by lia. reflexivity. }
        rewrite Hv0 in Hrc. discriminate. }
    rewrite Hdepc in Eh.
    pose proof (prefix_isize _ _ _ _ Hrc Hdle Eh) as Hiso.
    destruct (H_attained pb nv_static nv_some nv_none (N - (rd + length dsc)) (rd + length dsc) _
                (n_vtop (gn m id)) h eq_refl Hdle Eh) as (dsx & sx & Hrx & Hlx).
    assert (Hfull : frn rd rs rv (dsc ++ dsx) = Some (sx, (n_vtop (gn m id) + h)%Z)).
    { rewrite frun_app, Hrc. exact Hrx. }
    destruct (frun_le_H pb nv_static nv_none (dsc ++ dsx) rd rs rv sx _ ltac:(rewrite app_length; lia) Hfull)
      as (h0 & Hh0 & Hle0).
    assert (Hvs : vstar = Some (rv + h0)%Z) by (unfold vstar; rewrite Hh0; reflexivity).
    destruct (S1_relaxed_upper_bound _ _ _ _ _ _ _ Hc (or_introl Ht) Hvs ltac:(lia)) as (bv' & Hbv' & Hbvo).
    rewrite Ebv in Hbv'. inversion Hbv'; subst bv'.
    exists id, bv. split; [exact Hid|]. split; [reflexivity|]. split; [reflexivity|].
    split; [|split; [lia|repeat split; auto]].
    apply sat_add_ge; [exact Hiso|].
    assert (Hr : (h <= n_rub (gn m id))%Z).
    { rewrite Em, finalize_rub. rewrite Em in Hidlt. rewrite <- Em in Hidlt. rewrite L in Hidlt.
      destruct (A4 id) as (a1 & _).
      unfold Ninv in HN. rewrite Forall_forall in HN.
      destruct (HN (gn ml id)) as (_ & _ & [Q|Q]); [apply nth_In; exact Hidlt| |].
      - rewrite Q. destruct (Hguard _ _ _ Hrc) as [Q1 Q2]. destruct (Hguard _ _ _ Hfull) as [Q3 Q4]. lia.
      - rewrite Q, a1. apply (rub_adm (rd + length dsc) _ (n_state (gn m id)) h); [apply cov_refl|exact Eh]. }
    lia.
  Qed.
  (* ================================================================== 8. S3 in full: the local bound of EVERY cut-set node *)
  Lemma marked_upd (a : mdd) p u x :
    f_marked (n_flags (gn (upd_node a p (lb_upd u)) x)) = true ->
    (x = p /\ p < length (m_nodes a)) \/ f_marked (n_flags (gn a x)) = true.
  Proof.
    intros H. destruct (Nat.eq_dec p x) as [->|Hne].
    - destruct (Nat.lt_ge_cases x (length (m_nodes a))) as [Hlt|Hge]; [left; auto|].
      rewrite gn_upd_out in H by exact Hge. right; exact H.
    - rewrite gn_upd_other in H by exact Hne. right; exact H.
  Qed.

  Lemma marked_src (m : mdd) :
    Sinv inp m -> (forall x, f_marked (n_flags (gn m x)) = false) ->
    forall x, f_marked (n_flags (gn (compute_local_bounds inp m) x)) = true ->
    In x (last (m_layers m) []) \/ Src m x.
  Proof.
    intros HS H0 x Hx. rewrite compute_local_bounds_unfold in Hx.
    destruct (lb_go m); [|rewrite H0 in Hx; discriminate].
    set (Q := fun a : mdd => Stat m a /\
              forall y, f_marked (n_flags (gn a y)) = true -> In y (last (m_layers m) []) \/ Src m y).
    assert (Q0 : Q (lb_init m)).
    { unfold lb_init.
      apply (fold_left_inv Q).
      - split; [apply Stat_refl|]. intros y Hy. rewrite H0 in Hy. discriminate.
      - intros a id Hid (Sa & Ma). split.
        + eapply Stat_trans; [exact Sa|]. apply Stat_upd. reflexivity.
        + intros y Hy. destruct (Nat.eq_dec id y) as [->|Hne].
          * left. exact Hid.
          * rewrite gn_upd_other in Hy by exact Hne. apply Ma. exact Hy. }
    assert (Qstep : forall a id, Q a -> Q (lb_step a id)).
    { intros a id (Sa & Ma). unfold lb_step. cbv zeta.
      destruct (f_marked (n_flags (gn a id))); [|split; assumption].
      pose proof Sa as (Se & _ & Sl & Si).
      assert (Hin : forall eid, In eid (n_inb (gn a id)) -> eid < length (m_edges m)).
      { intros eid He. rewrite Si in He.
        destruct (Nat.lt_ge_cases id (length (m_nodes m))) as [Hlt|Hge].
        - apply (S_nodes _ _ HS id Hlt). exact He.
        - rewrite (gn_out_of_range inp m id Hge) in He. destruct He. }
      apply (fold_left_inv Q).
      - split; assumption.
      - intros b eid He (Sb & Mb). split.
        + eapply Stat_trans; [exact Sb|]. apply Stat_upd. reflexivity.
        + intros y Hy. apply marked_upd in Hy. destruct Hy as [[-> _]|Hy]; [|apply Mb; exact Hy].
          right. exists eid. split; [apply Hin; exact He|]. rewrite (Stat_edge m b eid Sb). reflexivity. }
    assert (Qall : Q (fold_left lb_step (bottom_up m) (lb_init m))).
    { apply fold_left_inv2; [exact Q0|]. intros a y Ha. apply Qstep. exact Ha. }
    apply Qall. exact Hx.
  Qed.

  Lemma flag_finalize_cutset (h : flags -> bool) (m : mdd) x :
    (forall f b, h (fl_set_above f b) = h f) -> (forall f b, h (fl_set_cutset f b) = h f) ->
    h (n_flags (gn (finalize_cutset inp m) x)) = h (n_flags (gn m x)).
  Proof.
    intros Ha Hc.
    set (g := fun n : node => h (n_flags n)).
    assert (U1 : forall (a : mdd) k, g (gn (upd_node a k (fun n => set_flags n (fl_set_above (n_flags n) true))) x) = g (gn a x)).
    { intros a k. apply (get_node_upd_node_proj inp g). intros n. unfold g. nsimpl. apply Ha. }
    assert (U2 : forall (a : mdd) k, g (gn (upd_node a k (fun n => set_flags n (fl_set_cutset (n_flags n) true))) x) = g (gn a x)).
    { intros a k. apply (get_node_upd_node_proj inp g). intros n. unfold g. nsimpl. apply Hc. }
    assert (U3 : forall (a : mdd) k, g (gn (upd_node a k (fun n => set_flags n (fl_set_above (fl_set_cutset (n_flags n) true) true))) x) = g (gn a x)).
    { intros a k. apply (get_node_upd_node_proj inp g). intros n. unfold g. nsimpl. rewrite Ha. apply Hc. }
    assert (L1 : forall (a : mdd) j, g (gn (lel_cutset a j) x) = g (gn a x)).
    { intros a j. unfold lel_cutset.
      rewrite (fold_left_proj (fun b : mdd => g (gn b x))) by (intros b id; apply U1).
      destruct (nth_error _ _); [|reflexivity].
      change (g (gn (fold_left (fun m0 id => upd_node m0 id (fun n => set_flags n (fl_set_above (fl_set_cutset (n_flags n) true) true))) l a) x) = g (gn a x)).
      apply (fold_left_proj (fun b : mdd => g (gn b x))). intros b id. apply U3. }
    assert (L2 : forall (a : mdd) push, g (gn (frontier_cutset inp a push) x) = g (gn a x)).
    { intros a push. unfold frontier_cutset. apply (fold_left_proj (fun b : mdd => g (gn b x))). intros b id.
      destruct (fl_is_exact _); [apply U1|].
      apply (fold_left_proj (fun c : mdd => g (gn c x))). intros c eid. cbv zeta.
      destruct (_ && _); [|reflexivity]. destruct push; rewrite U2; reflexivity. }
    change (g (gn (finalize_cutset inp m) x) = g (gn m x)).
    unfold finalize_cutset. cbv zeta.
    destruct (ci_flavour inp); destruct (m_lel m); destruct (_ || _); rewrite ?L1, ?L2; reflexivity.
  Qed.

  Lemma frontier_cutset_src (m : mdd) :
    Sinv inp m ->
    (forall x, x < length (m_nodes m) -> f_cutset (n_flags (gn m x)) = true -> In x (m_cutset m)) ->
    forall c, In c (m_cutset (frontier_cutset inp m true)) -> In c (m_cutset m) \/ Src m c.
  Proof.
    intros HS H0. rewrite frontier_cutset_unfold.
    set (Q := fun a : mdd => FInv m a /\ forall c, In c (m_cutset a) -> In c (m_cutset m) \/ Src m c).
    assert (HF0 : FInv m m) by (repeat split; auto).
    assert (G : Q (fold_left fc_step (bottom_up m) m)).
    { apply fold_left_inv2; [split; [exact HF0|intros c Hc; left; exact Hc]|].
      intros a id (Fa & Ca). unfold fc_step. cbv zeta. destruct (fl_is_exact _).
      - split; [apply FInv_upd_above; exact Fa|exact Ca].
      - pose proof Fa as (_ & _ & F3 & _). destruct (F3 id) as [Hi _].
        assert (Hin : forall eid, In eid (n_inb (gn a id)) -> eid < length (m_edges m)).
        { intros eid He. rewrite Hi in He.
          destruct (Nat.lt_ge_cases id (length (m_nodes m))) as [Hlt|Hge].
          - apply (S_nodes _ _ HS id Hlt). exact He.
          - rewrite (gn_out_of_range inp m id Hge) in He. destruct He. }
        apply (fold_left_inv Q).
        + split; assumption.
        + intros b eid He (Fb & Cb). split; [apply (FInv_fc_inner m b eid Fb)|].
          pose proof Fb as (G1 & _).
          intros c Hc. unfold fc_inner in Hc. cbv zeta in Hc.
          destruct (_ && _); [|apply Cb; exact Hc].
          msimpl_in Hc. apply in_app_or in Hc. destruct Hc as [Hc|[<-|[]]]; [apply Cb; exact Hc|].
          right. exists eid. split; [apply Hin; exact He|]. rewrite (ge_edges_eq m b eid G1). reflexivity. }
    apply G.
  Qed.

  Lemma locb_from_path tb tb2 (ml : mdd) k i c sc vc ds2 u s' o :
    ci_type inp = Relaxed -> Sinv inp ml -> Xs inp ml -> m_lel ml = Some k ->
    length (m_layers ml) = i + length ds2 -> In u (m_next ml) ->
    m_layer_end ml <= u < length (m_nodes ml) ->
    dpath ml i c sc ds2 u s' -> frn (rd + i) sc vc ds2 = Some (s', o) ->
    (forall da db s1 v1, ds2 = da ++ db -> frn (rd + i) sc vc da = Some (s1, v1) -> in_isize (o - v1)) ->
    f_marked (n_flags (gn (finalize st_eqb inp tb tb2 ml) c)) = true /\
    (o - vc <= n_vbot (gn (finalize st_eqb inp tb tb2 ml) c))%Z.
  Proof.
    intros Ht HS HX Hlel Hlen Hu Hur P2 Hrun Hiso.
    destruct (pipe3 tb tb2 ml HS HX) as (G1 & G2 & G3 & G4 & G5 & S3 & X3 & Pl3). cbv zeta in G1, G2, G3, G4, G5, S3, X3, Pl3.
    set (m := finalize st_eqb inp tb tb2 ml).
    set (m3 := finalize_exact inp (find_best_node inp tb tb2 (finalize_layers inp ml))) in *.
    set (m4 := finalize_cutset inp m3) in *.
    set (m5 := compute_local_bounds inp m4).
    assert (Em : m = compute_thresholds st_eqb inp m5) by reflexivity.
    destruct (finalize_cutset_spec inp Hclean m3 S3 X3) as [B34 _]. fold m4 in B34.
    destruct B34 as (P34 & _).
    assert (Pl4 : peq inp ml m4) by (eapply peq_trans; eauto).
    destruct (finalize_layers_fields ml) as (_ & _ & _ & _ & F5).
    assert (Hly4 : m_layers m4 = m_layers ml ++ [seq (m_layer_end ml) (length (m_nodes ml) - m_layer_end ml)]).
    { unfold m4. rewrite finalize_cutset_layers, G3, F5. destruct (m_next ml); [destruct Hu|reflexivity]. }
    assert (P2' : dpath m4 i c sc ds2 u s').
    { eapply dpath_peq; [exact Pl4| |exact P2]. intros j x. rewrite Hly4. apply nth_layers_app. }
    assert (Hgo4 : lb_go m4 = true).
    { unfold lb_go. rewrite Ht. unfold m4. rewrite (lel_finalize_cutset m3 k) by (rewrite G4; exact Hlel).
      fold m4. rewrite Hly4, app_length. cbn [opt_default length is_relaxed_ct].
      pose proof (X_lel_lt _ _ _ HX Ht k Hlel). rewrite andb_true_r. apply Nat.ltb_lt. lia. }
    destruct (local_bounds_path m4 i c sc ds2 u s' (rd + i) vc o Hgo4 P2' Hrun) as [M1 M2].
    { rewrite Hly4, app_length. simpl. lia. }
    { rewrite Hly4, last_last. apply in_seq. lia. }
    { exact Hiso. }
    fold m5 in M1, M2. split.
    - rewrite Em. rewrite (node_compute_thresholds (fun n => f_marked (n_flags n))) by reflexivity. exact M1.
    - rewrite Em. rewrite (node_compute_thresholds (@n_vbot St)) by reflexivity. exact M2.
  Qed.

  (* S3 (K3_ub, C08 iii) in full *)
  Theorem S3_cutset_ub tb tb2 c ds polls m sp o :
    compile st_eqb inp tb tb2 c ds polls = (m, Compiled) ->
    ci_type inp = Relaxed -> dd_is_exact m = false ->
    In sp (drain_cutset inp m) ->
    oadd (sp_value sp) (H pb (sp_depth sp) (sp_state sp)) = Some o -> (o > lb)%Z ->
    (o <= sp_ub sp)%Z.
  Proof.
    intros Hc Ht Hnex Hsp Ho Hlb.
    destruct (S3_cutset_ub_components tb tb2 c ds polls m sp o Hc Ht Hsp Ho Hlb)
      as (id & bv & Hid & Hbv & Hub & Hrubp & Hbvp & Hmk & Est & Evl & Edp).
    rewrite Hub. rewrite Est, Evl, Edp in Ho.
    destruct (compile_post2 _ _ _ _ _ _ Hc) as (ml & Em & HS & HX & HP & HN).
    destruct HP as (HPa & HPb & HUP & HSL & HXn).
    destruct (finalize_spec st_eqb inp Hclean tb tb2 ml HS HX) as ((_ & _ & L & A4) & _ & HSm & _ & _ & F6 & _).
    rewrite <- Em in L, A4, HSm, F6.
    destruct (finalize_hdr tb tb2 ml) as (H1 & H2 & H3 & H4). cbv zeta in H1, H2, H3, H4. rewrite <- Em in H1, H2, H3, H4.
    unfold dd_is_exact in Hnex. apply orb_false_iff in Hnex. destruct Hnex as [Hnx Hebp].
    rewrite Hnx in H1. destruct (m_lel ml) as [k|] eqn:Hlel; [|discriminate].
    assert (Hen : enabled ml) by (intros E; rewrite Ht in E; discriminate).
    (* the next layer of the loop was not empty *)
    assert (Hnn : m_next ml <> []).
    { unfold dd_best_value in Hbv. rewrite H3 in Hbv.
      destruct (pick tb (argmax_candidates inp (finalize_layers inp ml) (m_next ml))) as [b|] eqn:Eb; [|discriminate].
      apply pick_In in Eb. apply (argmax_candidates_In inp Hclean) in Eb.
      intros E. rewrite E in Eb. destruct Eb. }
    pose proof (HXn Hnn) as HXi.
    destruct (F6 id Hid) as [Hidlt Hex].
    pose proof (Sinv_exact_flag_clean_chain inp m HSm id Hidlt Hex) as Hcc.
    destruct (clean_chain_frun m id HSm Hcc Hidlt) as (dsc & Hrc & Hdepc).
    destruct (A4 id) as (a1 & a2 & _ & _ & _ & _ & a7).
    (* the pipeline *)
    destruct (pipe3 tb tb2 ml HS HX) as (G1 & G2 & G3 & G4 & G5 & S3 & X3 & Pl3). cbv zeta in G1, G2, G3, G4, G5, S3, X3, Pl3.
    set (m3 := finalize_exact inp (find_best_node inp tb tb2 (finalize_layers inp ml))) in *.
    set (m4 := finalize_cutset inp m3) in *.
    set (m5 := compute_local_bounds inp m4).
    assert (Emm : m = compute_thresholds st_eqb inp m5) by (rewrite Em; reflexivity).
    assert (Hgn3 : forall x, gn m3 x = gn ml x) by (intros x; apply gn_nodes_eq; exact G1).
    destruct (finalize_layers_fields ml) as (_ & _ & _ & _ & F5).
    assert (Hly3 : m_layers m3 = m_layers ml ++ [seq (m_layer_end ml) (length (m_nodes ml) - m_layer_end ml)]).
    { rewrite G3, F5. destruct (m_next ml); [congruence|reflexivity]. }
    (* the cut-set node is the source of an arc *)
    assert (HSrc : Src ml id).
    { assert (Hcs : m_cutset m = m_cutset m4).
      { destruct (compute_local_bounds_keq inp Hclean m4) as (_ & _ & _ & _ & K5). fold m5 in K5.
        destruct (compute_thresholds_keq st_eqb inp m5) as (_ & _ & _ & _ & K6). rewrite Emm. congruence. }
      rewrite Hcs in Hid.
      assert (Hsrc3 : forall x, Src m3 x -> Src ml x).
      { intros x (eid & E1 & E2). exists eid. rewrite G2 in E1. rewrite (ge_edges_eq ml m3 eid G2) in E2. auto. }
      destruct Hclean as [Hf|Hf].
      - (* last exact layer: the node lies in layer k, hence not in the last layer *)
        unfold m4, finalize_cutset in Hid. cbv zeta in Hid. rewrite Hf, G4, Hlel, Ht in Hid.
        cbn [is_relaxed_ct orb opt_default] in Hid. rewrite G4, Hlel in Hid. cbn [opt_default] in Hid.
        destruct (lel_cutset_spec inp m3 k) as [_ Hcs3]. rewrite Hcs3, G5 in Hid.
        rewrite (X_cutset _ _ _ HX) in Hid. simpl in Hid.
        pose proof (X_lel_lt _ _ _ HX Ht k Hlel) as Hk.
        rewrite <- G3, Hly3, nth_error_app1 in Hid by exact Hk.
        destruct (nth_error (m_layers ml) k) as [ids|] eqn:Enk; [|destruct Hid].
        assert (Hidl : id < m_layer_end ml).
        { apply (X_layers _ _ _ HXi ids id); [eapply nth_error_In; eauto|exact Hid]. }
        assert (Hm5 : f_marked (n_flags (gn m5 id)) = true).
        { rewrite Emm in Hmk. rewrite (node_compute_thresholds (fun n => f_marked (n_flags n))) in Hmk by reflexivity. exact Hmk. }
        assert (S4' : Sinv inp m4).
        { destruct (finalize_cutset_spec inp Hclean m3 S3 X3) as [(P34 & N34 & _) _]. fold m4 in P34, N34.
          eapply (Sinv_peq inp Hclean); [exact P34| |exact S3].
          intros y Hy. rewrite N34 in Hy. destruct P34 as (_ & _ & L34 & _). rewrite L34. apply (S_next _ _ S3). exact Hy. }
        destruct (marked_src m4 S4') with (x := id) as [Hl|Hs].
        + intros x. unfold m4. rewrite (flag_finalize_cutset f_marked) by (intros; reflexivity).
          rewrite Hgn3.
          destruct (Nat.lt_ge_cases x (length (m_nodes ml))) as [Hlt|Hge].
          * unfold Ninv in HN. rewrite Forall_forall in HN. apply (HN (gn ml x)). apply nth_In. exact Hlt.
          * rewrite (gn_out_of_range inp ml x Hge). reflexivity.
        + exact Hm5.
        + exfalso. unfold m4 in Hl. rewrite finalize_cutset_layers, Hly3, last_last in Hl. apply in_seq in Hl. lia.
        + apply Hsrc3. destruct Hs as (eid & E1 & E2).
          destruct (finalize_cutset_spec inp Hclean m3 S3 X3) as [((Pe & _) & _) _]. fold m4 in Pe.
          exists eid. rewrite Pe in E1. rewrite (ge_edges_eq m3 m4 eid Pe) in E2. auto.
      - unfold m4, finalize_cutset in Hid. cbv zeta in Hid. rewrite Hf, G4, Hlel, Ht in Hid.
        cbn [is_relaxed_ct orb] in Hid.
        destruct (frontier_cutset_src m3 S3) with (c := id) as [Hc0|Hs]; [|exact Hid| |apply Hsrc3; exact Hs].
        + intros x Hx Hcx. exfalso. rewrite Hgn3 in Hcx. rewrite G1 in Hx.
          unfold Ninv in HN. rewrite Forall_forall in HN.
          destruct (HN (gn ml x)) as [Q _]; [apply nth_In; exact Hx|]. congruence.
        + rewrite G5, (X_cutset _ _ _ HX) in Hc0. destruct Hc0. }
    destruct (HSL id HSrc) as (i & Hil & Hdi).
    assert (Hli : length dsc = i) by lia.
    assert (HSt : Start i (n_state (gn m id)) (n_vtop (gn m id))) by (exists dsc; auto).
    destruct (H pb (n_depth (gn m id)) (n_state (gn m id))) as [h|] eqn:Eh; [|discriminate].
    simpl in Ho. inversion Ho; subst o. clear Ho.
    assert (Hdle : rd + i <= N).
    { rewrite <- Hli. apply (frun_len_le dsc rd rs rv _ Hrc Hrd). }
    rewrite Hdepc, Hli in Eh.
    destruct (H_attained pb nv_static nv_some nv_none (N - (rd + i)) (rd + i) _ (n_vtop (gn m id)) h eq_refl Hdle Eh)
      as (ds2 & sN & Hr2 & Hl2).
    assert (Hpc : promC i (n_state (gn m id)) (n_vtop (gn m id)) ds2 sN (n_vtop (gn m id) + h)%Z).
    { split; [exact Hr2|]. split; [lia|lia]. }
    assert (Hcv : cov (n_state (gn ml id)) (n_state (gn m id))) by (rewrite a1; apply cov_refl).
    assert (Hvv : (n_vtop (gn m id) <= n_vtop (gn ml id))%Z) by (rewrite a2; lia).
    destruct (HUP i id (n_state (gn m id)) (n_vtop (gn m id)) ds2 sN _ Hil HSrc Hcv Hvv HSt Hpc Hen)
      as (HE & _ & Hlen & _ & u & s' & Hu & Hur & Hpth).
    assert (HsN : sN = s').
    { rewrite (frun_state pb _ _ _ _ _ _ Hr2). symmetry. apply (dpath_state _ _ _ _ _ _ _ Hpth). }
    subst sN.
    destruct (Hguard (dsc ++ ds2) s' _ ltac:(rewrite frun_app, Hrc, Hli; exact Hr2)) as [Go1 Go2].
    destruct (locb_from_path tb tb2 ml k i id (n_state (gn m id)) (n_vtop (gn m id)) ds2 u s'
                (n_vtop (gn m id) + h)%Z Ht HS HX Hlel) as [_ Mv]; auto.
    { lia. }
    { intros da db s1 v1 Ed Hr1.
      destruct (Hguard (dsc ++ da) s1 v1) as [Q1 Q2]; [rewrite frun_app, Hrc, Hli; exact Hr1|].
      unfold in_isize, IMIN, IMAX in *. lia. }
    rewrite <- Em in Mv.
    assert (Hloc : (n_vtop (gn m id) + h <= sat_add (n_vtop (gn m id)) (n_vbot (gn m id)))%Z).
    { apply sat_add_ge; [unfold in_isize, IMIN, IMAX in *; lia|lia]. }
    lia.
  Qed.
End Sim.

(* ================================================================== 7. the contracts of SolverProofs.v *)
Require Import DDO.Solver DDO.SolverProofs.
Local Open Scope nat_scope.

Section KHolds.
  Context {St : Type}.
  Variable st_eqb : St -> St -> bool.
  Hypothesis st_eqb_spec : forall a b, st_eqb a b = true <-> a = b.
  Variable cfg : @sconfig St.
  Let pb := sc_problem cfg.
  Let rlx := sc_relax cfg.
  Let N := nb_vars pb.
  Hypothesis cfg_clean : sc_flavour cfg = CleanLEL \/ sc_flavour cfg = CleanFC.
  Hypothesis cfg_nocache : sc_use_cache cfg = false.
  Hypothesis cfg_nodom : sc_domrule cfg = None.
  Hypothesis cfg_nocut : sc_cutoff cfg = 0.
  Hypothesis cfg_width : 1 <= sc_width cfg.
  Hypothesis nv_static : forall k l1 l2, next_variable pb k l1 = next_variable pb k l2.
  Hypothesis nv_some : forall k l, k < N -> exists x, next_variable pb k l = Some x.
  Hypothesis nv_none : forall k l, N <= k -> next_variable pb k l = None.
  Variable cov : St -> St -> Prop.
  Hypothesis cov_refl : forall s, cov s s.
  Hypothesis cov_sim : forall s s' x v, cov s s' -> In v (domain pb x s') ->
    let d := {| d_var := x; d_val := v |} in
    In v (domain pb x s) /\ cov (transition pb s d) (transition pb s' d) /\
    (transition_cost pb s' (transition pb s' d) d <= transition_cost pb s (transition pb s d) d)%Z.
  Hypothesis merge_cov : forall L s s', In s L -> cov s s' -> cov (merge rlx L) s'.
  Hypothesis relax_ge : forall src dst mg d c, (c <= relax rlx src dst mg d c)%Z.
  Hypothesis rub_adm : forall k s s' h, cov s s' -> H pb k s' = Some h -> (h <= fast_upper_bound rlx s)%Z.
  (* sub-problems the solver hands to the compiler *)
  Variable good : @subproblem St -> Prop.
  Variable B : Z.
  Hypothesis HB : (2 * B <= IMAX)%Z.
  Hypothesis good_guard : forall n, good n -> forall ds s' v',
    frun pb (sp_depth n) (sp_state n) (sp_value n) ds = Some (s', v') -> (- B <= v' <= B)%Z.

  Definition best (n : @subproblem St) : option Z := oadd (sp_value n) (H pb (sp_depth n) (sp_state n)).

  Theorem K2_holds : forall ct n lb c ds polls m out,
    dd_ct ct -> good n -> sp_depth n <= N ->
    compile st_eqb (mk_input cfg ct n lb) 0 0 c ds polls = (m, out) -> out = Compiled ->
    dd_is_exact m = true ->
    forall o, best n = Some o -> (o > lb)%Z -> dd_best_exact_value (mk_input cfg ct n lb) m = Some o.
  Proof.
    intros ct n lb c ds polls m out _ Hg Hd Hc -> Hex o Hb Hlb.
    apply (S2_exact_truthful st_eqb st_eqb_spec (mk_input cfg ct n lb) cfg_clean cfg_nocache cfg_nodom cfg_nocut
             cfg_width Hd nv_static nv_some nv_none cov cov_refl cov_sim merge_cov relax_ge rub_adm B HB
             (good_guard n Hg) 0 0 c ds polls m o Hc Hex Hb Hlb).
  Qed.

  (* K4 together with the instance of K3_ub that the solver proof uses (the upper bound of the covering node) *)
  Theorem K4_ub_holds : forall n lb c ds polls m out,
    good n -> sp_depth n <= N ->
    compile st_eqb (mk_input cfg Relaxed n lb) 0 0 c ds polls = (m, out) -> out = Compiled ->
    dd_is_exact m = false ->
    forall o, best n = Some o -> (o > lb)%Z ->
    (forall e, dd_best_exact_value (mk_input cfg Relaxed n lb) m = Some e -> (e < o)%Z) ->
    exists x, In x (drain_cutset (mk_input cfg Relaxed n lb) m) /\ best x = Some o /\ (o <= sp_ub x)%Z.
  Proof.
    intros n lb c ds polls m out Hg Hd Hc -> Hex o Hb Hlb Hbe.
    apply (S4_cutset_covers st_eqb st_eqb_spec (mk_input cfg Relaxed n lb) cfg_clean cfg_nocache cfg_nodom cfg_nocut
             cfg_width Hd nv_static nv_some nv_none cov cov_refl cov_sim merge_cov relax_ge rub_adm B HB
             (good_guard n Hg) 0 0 c ds polls m o Hc eq_refl Hex Hb Hlb Hbe).
  Qed.

  Theorem K4_holds : forall n lb c ds polls m out,
    good n -> sp_depth n <= N ->
    compile st_eqb (mk_input cfg Relaxed n lb) 0 0 c ds polls = (m, out) -> out = Compiled ->
    dd_is_exact m = false ->
    forall o, best n = Some o -> (o > lb)%Z ->
    (forall e, dd_best_exact_value (mk_input cfg Relaxed n lb) m = Some e -> (e < o)%Z) ->
    exists x, In x (drain_cutset (mk_input cfg Relaxed n lb) m) /\ best x = Some o.
  Proof.
    intros n lb c ds polls m out Hg Hd Hc Ho Hex o Hb Hlb Hbe.
    destruct (K4_ub_holds n lb c ds polls m out Hg Hd Hc Ho Hex o Hb Hlb Hbe) as (x & H1 & H2 & _).
    exists x; auto.
  Qed.

  Theorem K3_ub_holds : forall n lb c ds polls m out,
    good n -> sp_depth n <= N ->
    compile st_eqb (mk_input cfg Relaxed n lb) 0 0 c ds polls = (m, out) -> out = Compiled ->
    dd_is_exact m = false ->
    forall x, In x (drain_cutset (mk_input cfg Relaxed n lb) m) ->
    forall o, best x = Some o -> (o > lb)%Z -> (o <= sp_ub x)%Z.
  Proof.
    intros n lb c ds polls m out Hg Hd Hc -> Hex x Hx o Hb Hlb.
    apply (S3_cutset_ub st_eqb st_eqb_spec (mk_input cfg Relaxed n lb) cfg_clean cfg_nocache cfg_nodom cfg_nocut
             cfg_width Hd nv_static nv_some nv_none cov cov_refl cov_sim merge_cov relax_ge rub_adm B HB
             (good_guard n Hg) 0 0 c ds polls m x o Hc eq_refl Hex Hx Hb Hlb).
  Qed.

  Theorem K3_ub_components : forall n lb c ds polls m out,
    good n -> sp_depth n <= N ->
    compile st_eqb (mk_input cfg Relaxed n lb) 0 0 c ds polls = (m, out) -> out = Compiled ->
    forall x, In x (drain_cutset (mk_input cfg Relaxed n lb) m) ->
    forall o, best x = Some o -> (o > lb)%Z ->
    exists id bv, In id (m_cutset m) /\ dd_best_value (mk_input cfg Relaxed n lb) m = Some bv /\
      sp_ub x = Z.min (Z.min (sat_add (n_vtop (get_node (mk_input cfg Relaxed n lb) m id))
                                      (n_rub (get_node (mk_input cfg Relaxed n lb) m id)))
                             (sat_add (n_vtop (get_node (mk_input cfg Relaxed n lb) m id))
                                      (n_vbot (get_node (mk_input cfg Relaxed n lb) m id)))) bv /\
      (o <= sat_add (n_vtop (get_node (mk_input cfg Relaxed n lb) m id))
                    (n_rub (get_node (mk_input cfg Relaxed n lb) m id)))%Z /\ (o <= bv)%Z.
  Proof.
    intros n lb c ds polls m out Hg Hd Hc -> x Hx o Hb Hlb.
    destruct (S3_cutset_ub_components st_eqb st_eqb_spec (mk_input cfg Relaxed n lb) cfg_clean cfg_nocache cfg_nodom cfg_nocut
             cfg_width Hd nv_static nv_some nv_none cov cov_refl cov_sim merge_cov relax_ge rub_adm B HB
             (good_guard n Hg) 0 0 c ds polls m x o Hc eq_refl Hx Hb Hlb) as (id & bv & H1 & H2 & H3 & H4 & H5 & _).
    exists id, bv. auto.
  Qed.
End KHolds.

Print Assumptions S1_relaxed_upper_bound.
Print Assumptions S2_exact_truthful.
Print Assumptions S2_exact_mode.
Print Assumptions S4_cutset_covers.
Print Assumptions S3_cutset_ub_components.
Print Assumptions S3_cutset_ub.
Print Assumptions K2_holds.
Print Assumptions K4_ub_holds.
Print Assumptions K4_holds.
Print Assumptions K3_ub_components.
Print Assumptions K3_ub_holds.
Print Assumptions vstar_opt_enum.
