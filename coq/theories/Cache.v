(* Cache.v — model of SimpleCache (ddo/src/implementation/cache/simple.rs), of
   Threshold's derived order and of Cache::must_explore (ddo/src/abstraction/cache.rs);
   its sequential specification and the refinement / commutation theorems (C18, C09 level 1). *)
Require Import DDO.Base.
Open Scope Z_scope.

Record threshold := { th_value : Z; th_explored : bool }.

(* #[derive(PartialOrd, Ord)] on struct Threshold { value, explored }: lexicographic, false < true *)
Definition bool_cmp (a b : bool) : comparison :=
  match a, b with false, true => Lt | true, false => Gt | _, _ => Eq end.
Definition th_cmp (a b : threshold) : comparison :=
  cmp_then (Zcmp (th_value a) (th_value b)) (bool_cmp (th_explored a) (th_explored b)).
(* Ord::max(self, other): returns other when self <= other *)
Definition th_max (a b : threshold) : threshold := if is_gt (th_cmp a b) then a else b.
Definition th_le (a b : threshold) : Prop := th_cmp a b <> Gt.

Section Cache.
  Context {St : Type}.
  Variable eqb : St -> St -> bool.
  Hypothesis eqb_spec : forall a b, eqb a b = true <-> a = b.

  (* one DashMap per depth, as an association list with unique keys *)
  Definition layer := list (St * threshold).
  Definition cache := list layer.

  Definition init_cache (nvars : nat) : cache := repeat ([] : layer) (S nvars).

  Fixpoint lget (l : layer) (s : St) : option threshold :=
    match l with
    | [] => None
    | (k, t) :: l' => if eqb k s then Some t else lget l' s
    end.

  (* entry(state).and_modify(e := max new e).or_insert(new) *)
  Fixpoint lupdate (l : layer) (s : St) (t : threshold) : layer :=
    match l with
    | [] => [(s, t)]
    | (k, t0) :: l' => if eqb k s then (k, th_max t t0) :: l' else (k, t0) :: lupdate l' s t
    end.

  (* None = the Rust code panics (index out of bounds on thresholds_by_layer[depth]) *)
  Definition get_threshold (c : cache) (s : St) (d : nat) : option (option threshold) :=
    match nth_error c d with None => None | Some l => Some (lget l s) end.

  Definition update_threshold (c : cache) (s : St) (d : nat) (v : Z) (e : bool) : option cache :=
    match nth_error c d with
    | None => None
    | Some _ => Some (upd_nth d (fun l => lupdate l s {| th_value := v; th_explored := e |}) c)
    end.

  Definition clear_layer (c : cache) (d : nat) : option cache :=
    match nth_error c d with None => None | Some _ => Some (upd_nth d (fun _ => []) c) end.

  Definition clear (c : cache) : cache := map (fun _ => []) c.

  (* Cache::must_explore *)
  Definition must_explore_th (ot : option threshold) (value : Z) : bool :=
    match ot with
    | Some t => (value >? th_value t) || ((value =? th_value t) && negb (th_explored t))
    | None => true
    end.
  Definition must_explore (c : cache) (s : St) (d : nat) (value : Z) : option bool :=
    option_map (fun ot => must_explore_th ot value) (get_threshold c s d).

  (* ------------------------------------------------------------ operations and runs *)
  Inductive cop :=
  | OpUpdate (s : St) (d : nat) (v : Z) (e : bool)
  | OpClearLayer (d : nat)
  | OpClear.

  Definition cstep (c : cache) (o : cop) : option cache :=
    match o with
    | OpUpdate s d v e => update_threshold c s d v e
    | OpClearLayer d => clear_layer c d
    | OpClear => Some (clear c)
    end.

  Fixpoint crun (c : cache) (ops : list cop) : option cache :=
    match ops with
    | [] => Some c
    | o :: ops' => match cstep c o with None => None | Some c' => crun c' ops' end
    end.

  (* ------------------------------------------------------------ sequential specification:
     the maximum (in th_cmp order) of all thresholds recorded for (s, d) since d was last cleared.
     Written as a recursion over the history, most recent operation last. *)
  Definition omax_th (a : option threshold) (t : threshold) : option threshold :=
    match a with None => Some t | Some t0 => Some (th_max t t0) end.

  Fixpoint spec_get_from (acc : option threshold) (ops : list cop) (s : St) (d : nat) : option threshold :=
    match ops with
    | [] => acc
    | OpUpdate s' d' v e :: ops' =>
        if Nat.eqb d' d && eqb s' s
        then spec_get_from (omax_th acc {| th_value := v; th_explored := e |}) ops' s d
        else spec_get_from acc ops' s d
    | OpClearLayer d' :: ops' => if Nat.eqb d' d then spec_get_from None ops' s d else spec_get_from acc ops' s d
    | OpClear :: ops' => spec_get_from None ops' s d
    end.
  Definition spec_get (ops : list cop) (s : St) (d : nat) : option threshold := spec_get_from None ops s d.

  (* all depths mentioned by the operations exist (the solver never uses a depth > nb_variables) *)
  Definition op_in_range (n : nat) (o : cop) : Prop :=
    match o with OpUpdate _ d _ _ => (d < n)%nat | OpClearLayer d => (d < n)%nat | OpClear => True end.

  (* ------------------------------------------------------------ proofs *)
  Lemma eqb_refl a : eqb a a = true. Proof. apply eqb_spec; reflexivity. Qed.
  Lemma eqb_neq a b : a <> b -> eqb a b = false.
  Proof. intros H. destruct (eqb a b) eqn:E; auto. apply eqb_spec in E. contradiction. Qed.

  Lemma lget_lupdate_same l s t : lget (lupdate l s t) s = omax_th (lget l s) t.
  Proof.
    induction l as [|[k t0] l IH]; simpl.
    - rewrite eqb_refl. reflexivity.
    - destruct (eqb k s) eqn:E; simpl; rewrite E; auto.
  Qed.

  Lemma lget_lupdate_other l s s' t : s' <> s -> lget (lupdate l s t) s' = lget l s'.
  Proof.
    intros Hne. induction l as [|[k t0] l IH]; simpl.
    - rewrite eqb_neq; auto.
    - destruct (eqb k s) eqn:E; simpl.
      + apply eqb_spec in E; subst k. rewrite eqb_neq by auto. reflexivity.
      + destruct (eqb k s'); auto.
  Qed.

  Lemma nth_error_Some_lt {A} (l : list A) n x : nth_error l n = Some x -> (n < length l)%nat.
  Proof. intros H. apply nth_error_Some. congruence. Qed.

  Lemma nth_error_lt_Some {A} (l : list A) n : (n < length l)%nat -> exists x, nth_error l n = Some x.
  Proof. intros H. destruct (nth_error l n) eqn:E; eauto. apply nth_error_None in E. lia. Qed.

  Definition cget (c : cache) (s : St) (d : nat) : option threshold :=
    match nth_error c d with None => None | Some l => lget l s end.

  Lemma cstep_length c o c' : cstep c o = Some c' -> length c' = length c.
  Proof.
    destruct o as [s d v e|d|]; simpl; unfold update_threshold, clear_layer, clear.
    - destruct (nth_error c d); intros H; inversion H. apply upd_nth_length.
    - destruct (nth_error c d); intros H; inversion H. apply upd_nth_length.
    - intros H; inversion H. apply map_length.
  Qed.

  Lemma cstep_in_range c o : op_in_range (length c) o -> exists c', cstep c o = Some c'.
  Proof.
    destruct o as [s d v e|d|]; simpl; unfold update_threshold, clear_layer; intros H.
    - destruct (nth_error_lt_Some c d H) as [l ->]. eauto.
    - destruct (nth_error_lt_Some c d H) as [l ->]. eauto.
    - eauto.
  Qed.

  (* effect of one step on every key *)
  Lemma cget_step c o c' s d : cstep c o = Some c' -> (d < length c)%nat ->
    cget c' s d =
    match o with
    | OpUpdate s' d' v e => if Nat.eqb d' d && eqb s' s
                            then omax_th (cget c s d) {| th_value := v; th_explored := e |} else cget c s d
    | OpClearLayer d' => if Nat.eqb d' d then None else cget c s d
    | OpClear => None
    end.
  Proof.
    intros Hstep Hd. destruct o as [s' d' v e|d'|]; simpl in Hstep.
    - unfold update_threshold in Hstep. destruct (nth_error c d') as [l|] eqn:El; [|discriminate].
      inversion Hstep; subst c'; clear Hstep. unfold cget.
      destruct (Nat.eqb_spec d' d) as [->|Hne]; simpl.
      + rewrite (nth_error_upd_nth_same _ _ _ _ El), El.
        destruct (eqb s' s) eqn:Es.
        * apply eqb_spec in Es; subst. apply lget_lupdate_same.
        * apply lget_lupdate_other. intros ->. rewrite eqb_refl in Es. discriminate.
      + rewrite nth_error_upd_nth_other by auto. reflexivity.
    - unfold clear_layer in Hstep. destruct (nth_error c d') as [l|] eqn:El; [|discriminate].
      inversion Hstep; subst c'; clear Hstep. unfold cget.
      destruct (Nat.eqb_spec d' d) as [->|Hne].
      + rewrite (nth_error_upd_nth_same _ _ _ _ El). reflexivity.
      + rewrite nth_error_upd_nth_other by auto. reflexivity.
    - inversion Hstep; subst c'. unfold cget, clear.
      rewrite nth_error_map. destruct (nth_error c d); reflexivity.
  Qed.

  Lemma crun_spec_from c ops c' s d : crun c ops = Some c' -> (d < length c)%nat ->
    cget c' s d = spec_get_from (cget c s d) ops s d.
  Proof.
    revert c. induction ops as [|o ops IH]; intros c Hrun Hd; simpl in *.
    - inversion Hrun; reflexivity.
    - destruct (cstep c o) as [c1|] eqn:Es; [|discriminate].
      pose proof (cstep_length _ _ _ Es) as Hl.
      rewrite (IH c1 Hrun) by lia.
      rewrite (cget_step _ _ _ s d Es Hd).
      destruct o as [s' d' v e|d'|]; simpl.
      + destruct (Nat.eqb d' d && eqb s' s); reflexivity.
      + destruct (Nat.eqb d' d); reflexivity.
      + reflexivity.
  Qed.

  Lemma cget_init n s d : cget (init_cache n) s d = None.
  Proof.
    unfold cget, init_cache. destruct (nth_error (repeat ([] : layer) (S n)) d) eqn:E; auto.
    apply nth_error_In in E. apply repeat_spec in E. subst. reflexivity.
  Qed.

  (* C18, sequential part: after any operation sequence, every (state, depth) reads back the spec value *)
  Theorem cache_refines_spec nvars ops c s d :
    crun (init_cache nvars) ops = Some c -> (d <= nvars)%nat ->
    get_threshold c s d = Some (spec_get ops s d).
  Proof.
    intros Hrun Hd.
    assert (Hlen : length (init_cache nvars) = S nvars) by apply repeat_length.
    pose proof (crun_spec_from _ _ _ s d Hrun ltac:(lia)) as H.
    rewrite cget_init in H. unfold spec_get. rewrite <- H.
    assert (Hl : length c = S nvars).
    { clear H. revert Hrun Hlen. generalize (init_cache nvars). induction ops as [|o ops IH]; intros c0 Hrun Hlen; simpl in Hrun.
      - inversion Hrun; subst; auto.
      - destruct (cstep c0 o) eqn:Es; [|discriminate]. apply (IH c1 Hrun). rewrite (cstep_length _ _ _ Es). auto. }
    unfold get_threshold, cget. destruct (nth_error_lt_Some c d ltac:(lia)) as [l ->]. reflexivity.
  Qed.

  (* no crash as long as depths are in range *)
  Theorem cache_total nvars ops : Forall (op_in_range (S nvars)) ops ->
    exists c, crun (init_cache nvars) ops = Some c.
  Proof.
    assert (Hlen : length (init_cache nvars) = S nvars) by apply repeat_length.
    revert Hlen. generalize (init_cache nvars). induction ops as [|o ops IH]; intros c Hlen HF; simpl.
    - eauto.
    - inversion HF as [|? ? Ho HF']; subst. rewrite <- Hlen in Ho.
      destruct (cstep_in_range c o Ho) as [c1 Hc1]. rewrite Hc1.
      apply IH; auto. rewrite (cstep_length _ _ _ Hc1). auto.
  Qed.

  (* clearing one layer affects no other *)
  Theorem clear_layer_other_layers c d c' s d' :
    clear_layer c d = Some c' -> d' <> d -> get_threshold c' s d' = get_threshold c s d'.
  Proof.
    unfold clear_layer, get_threshold. destruct (nth_error c d); intros H Hne; inversion H; subst.
    rewrite nth_error_upd_nth_other by auto. reflexivity.
  Qed.

  (* ---- order facts on thresholds ---- *)
  Lemma th_cmp_refl a : th_cmp a a = Eq.
  Proof. unfold th_cmp, Zcmp. rewrite Z.compare_refl. simpl. destruct (th_explored a); reflexivity. Qed.

  Lemma th_cmp_Gt_iff a b : th_cmp a b = Gt <->
    (th_value a > th_value b \/ (th_value a = th_value b /\ th_explored a = true /\ th_explored b = false)).
  Proof.
    destruct a as [va ea], b as [vb eb]. unfold th_cmp, Zcmp, cmp_then, bool_cmp; simpl.
    destruct (Z.compare_spec va vb) as [Hc|Hc|Hc]; destruct ea, eb; simpl;
      (split; [intros H; try discriminate H; try (left; lia); try (right; repeat split; auto; lia)
              | intros [H|(H1 & H2 & H3)]; try reflexivity; try discriminate; try lia]).
  Qed.

  Lemma th_max_comm_le a b : th_le a (th_max a b) /\ th_le b (th_max a b).
  Proof.
    unfold th_max, th_le. destruct (th_cmp a b) eqn:E; simpl.
    - split; [congruence|rewrite th_cmp_refl; discriminate].
    - split; [congruence|rewrite th_cmp_refl; discriminate].
    - split; [rewrite th_cmp_refl; discriminate|].
      intros H. apply th_cmp_Gt_iff in E. apply th_cmp_Gt_iff in H.
      destruct E as [E|(E1&E2&E3)], H as [H|(H1&H2&H3)]; try lia; congruence.
  Qed.

  (* a stored threshold never decreases *)
  Theorem update_monotone c s d v e c' t :
    update_threshold c s d v e = Some c' -> cget c s d = Some t ->
    exists t', cget c' s d = Some t' /\ th_le t t'.
  Proof.
    intros Hu Hg.
    assert (Hd : (d < length c)%nat).
    { unfold cget in Hg. destruct (nth_error c d) eqn:E; [|discriminate]. eapply nth_error_Some_lt; eauto. }
    pose proof (cget_step c (OpUpdate s d v e) c' s d Hu Hd) as H. simpl in H.
    rewrite Nat.eqb_refl, eqb_refl in H. simpl in H. rewrite Hg in H. simpl in H.
    eexists; split; [exact H|]. apply th_max_comm_le.
  Qed.

  (* ---- concurrency: every trait method is one atomic map operation (assumption A-dashmap), so a
     concurrent history is an interleaving of atomic steps; updates commute, hence the final cache
     content does not depend on the interleaving.  Stated on the observable content [cget]. ---- *)
  (* thresholds embed order-isomorphically into Z: key t = 2 * value + [explored] *)
  Definition th_key (t : threshold) : Z := 2 * th_value t + (if th_explored t then 1 else 0).
  Lemma th_key_inj a b : th_key a = th_key b -> a = b.
  Proof.
    destruct a as [va ea], b as [vb eb]; unfold th_key; cbn [th_value th_explored].
    destruct ea, eb; intros H; first [f_equal; lia | exfalso; lia].
  Qed.
  Lemma th_cmp_key a b : th_cmp a b = Z.compare (th_key a) (th_key b).
  Proof.
    destruct a as [va ea], b as [vb eb]; unfold th_cmp, th_key, Zcmp, cmp_then, bool_cmp; cbn [th_value th_explored].
    destruct (Z.compare_spec va vb) as [Hc|Hc|Hc]; destruct ea, eb; symmetry;
      first [apply Z.compare_eq_iff; lia | apply Z.compare_lt_iff; lia | apply Z.compare_gt_iff; lia].
  Qed.
  Lemma th_max_key a b : th_key (th_max a b) = Z.max (th_key a) (th_key b).
  Proof.
    unfold th_max. rewrite th_cmp_key.
    destruct (Z.compare_spec (th_key a) (th_key b)); cbn [is_gt]; lia.
  Qed.

  Lemma th_max_assoc_comm t1 t2 (a : option threshold) :
    omax_th (omax_th a t1) t2 = omax_th (omax_th a t2) t1.
  Proof.
    destruct a as [t0|]; simpl; f_equal; apply th_key_inj; rewrite !th_max_key; lia.
  Qed.

  Theorem updates_commute c s1 d1 v1 e1 s2 d2 v2 e2 ca cb s d :
    crun c [OpUpdate s1 d1 v1 e1; OpUpdate s2 d2 v2 e2] = Some ca ->
    crun c [OpUpdate s2 d2 v2 e2; OpUpdate s1 d1 v1 e1] = Some cb ->
    (d < length c)%nat ->
    cget ca s d = cget cb s d.
  Proof.
    intros Ha Hb Hd.
    rewrite (crun_spec_from _ _ _ s d Ha Hd), (crun_spec_from _ _ _ s d Hb Hd). simpl.
    destruct (Nat.eqb d1 d && eqb s1 s); destruct (Nat.eqb d2 d && eqb s2 s); simpl; auto.
    apply th_max_assoc_comm.
  Qed.

  Theorem update_idempotent c s0 d0 v e c1 c2 s d :
    crun c [OpUpdate s0 d0 v e] = Some c1 -> crun c1 [OpUpdate s0 d0 v e] = Some c2 ->
    (d < length c)%nat -> cget c2 s d = cget c1 s d.
  Proof.
    intros H1 H2 Hd.
    assert (Hl : length c1 = length c).
    { simpl in H1. destruct (update_threshold c s0 d0 v e) eqn:E; [|discriminate]. inversion H1; subst.
      apply (cstep_length c (OpUpdate s0 d0 v e)). exact E. }
    rewrite (crun_spec_from _ _ _ s d H2 ltac:(lia)), (crun_spec_from _ _ _ s d H1 Hd). simpl.
    destruct (Nat.eqb d0 d && eqb s0 s); auto.
    destruct (cget c s d) as [t0|]; simpl; f_equal.
    - set (t := {| th_value := v; th_explored := e |}). unfold th_max.
      destruct (th_cmp t t0) eqn:E1; simpl.
      + rewrite E1; reflexivity.
      + rewrite E1; reflexivity.
      + rewrite th_cmp_refl. reflexivity.
    - unfold th_max. rewrite th_cmp_refl. reflexivity.
  Qed.
End Cache.
