(* DomSpec.v — executable (boolean) form of the Pareto-front specification used as the property oracle
   of C10/C18 by the correspondence check, with its reflection lemma. *)
Require Import DDO.Base DDO.Dom DDO.DomProofs.
Open Scope Z_scope.

Section DomSpec.
  Context {St Key : Type}.
  Variable get_key : St -> option Key.
  Variable nd : nat.
  Variable coord : St -> nat -> Z.
  Variable use_value : bool.

  Definition le_allb (a : St) (va : Z) (b : St) (vb : Z) : bool :=
    forallb (fun i => coord a i <=? coord b i) (seq 0 nd) && (negb use_value || (va <=? vb)).

  Lemma le_allb_spec a va b vb : le_allb a va b vb = true <-> le_all nd coord use_value a va b vb.
  Proof.
    unfold le_allb, le_all. rewrite andb_true_iff, forallb_forall, orb_true_iff, negb_true_iff. split.
    - intros [H1 H2]. split.
      + intros i Hi. apply Z.leb_le. apply H1. apply in_seq. lia.
      + intros Hu. destruct H2 as [H2|H2]; [congruence|]. apply Z.leb_le; auto.
    - intros [H1 H2]. split.
      + intros i Hi. apply Z.leb_le. apply H1. apply in_seq in Hi. lia.
      + destruct use_value; [right; apply Z.leb_le; auto|left; reflexivity].
  Qed.

  (* (s', v') strictly dominates (s, v) *)
  Definition strictly_dominatedb (s : St) (v : Z) (e : St * Z) : bool :=
    le_allb s v (fst e) (snd e) && negb (le_allb (fst e) (snd e) s v).

  (* the specification of the verdict: some previously presented query strictly dominates the new one *)
  Definition spec_dominated (history : list (St * Z)) (s : St) (v : Z) : bool :=
    existsb (strictly_dominatedb s v) history.

  Theorem spec_dominated_correct history s v :
    spec_dominated history s v = dc_dominated (snd (bucket_query nd coord use_value s v (bucket_after nd coord use_value history))).
  Proof.
    pose proof (pareto_front_history get_key nd coord use_value history s v) as H.
    destruct (dc_dominated _) eqn:E.
    - destruct (proj1 H eq_refl) as (s' & v' & Hin & Hle & Hnle).
      unfold spec_dominated. apply existsb_exists. exists (s', v'). split; auto.
      unfold strictly_dominatedb; simpl. apply andb_true_iff. split; [apply le_allb_spec; auto|].
      apply negb_true_iff. destruct (le_allb s' v' s v) eqn:E2; auto. apply (proj1 (le_allb_spec _ _ _ _)) in E2. contradiction.
    - destruct (spec_dominated history s v) eqn:E2; auto.
      unfold spec_dominated in E2. apply existsb_exists in E2. destruct E2 as ([s' v'] & Hin & Hd).
      unfold strictly_dominatedb in Hd; simpl in Hd. apply andb_true_iff in Hd. destruct Hd as [H1 H2].
      apply (proj1 (le_allb_spec _ _ _ _)) in H1. apply negb_true_iff in H2.
      assert (Hf : false = true); [|discriminate Hf]. apply H. exists s', v'. split; [exact Hin|split; [exact H1|]].
      intros Hc. apply (proj2 (le_allb_spec _ _ _ _)) in Hc. congruence.
  Qed.
End DomSpec.
