(* SolverCutoff.v — the sequential solver model (Solver.v) WITH a cutoff.

   Part 1 (CompilePrefix): nothing but the poll test of Mdd.layer_loop reads ci_cutoff.
       compile_agree   a compilation that is not cut is replayed, result for result, by every cutoff above the
                       largest poll number B it tested (its own cutoff is above B); compile_zero: cutoff 0 never cuts.
   Part 2 (GOAL 1, property C05, sequential part):  seq_anytime_sound
       configuration config_c = no cache, SimpleFringe, no dominance rule, ANY cutoff; contracts = the K1..K4 of
       SolverProofs.v made conditional on out = Compiled (K3_depth non-strict, K5 dropped), plus "no model crash"
       for every outcome.  K3_le and best_le_opt turned out NOT to be needed.
       Invariant J = Core /\ Compl /\ UbB, UbB s = every fringe node has sp_ub <= s_ub s (pq_pop_max_c + the
       min(node_ub, .) relabelling of enqueue_cutset).
   Part 3 (GOAL 2, property C19):  cutoff_monotone(_gen), cutoff_eventually_full
       main_loop_lb_monotone / main_loop_ub_monotone_partial are the run-internal facts; the plain statement
       "s_ub never increases along main_loop" is false of the model: SubCounterexample.s_ub_not_monotone.
   Stdlib only; no axioms (Print Assumptions at the end). *)
Require Import DDO.Base DDO.Fringe DDO.DP DDO.Cache DDO.Dom DDO.Mdd DDO.Solver DDO.SolverProofs.
From Coq Require Import Permutation Arith.
Open Scope Z_scope.

Section CompilePrefix.
  Context {St : Type}.
  Variable st_eqb : St -> St -> bool.

  Definition set_cutoff (inp : @cinput St) (k : nat) : @cinput St :=
    {| ci_flavour := ci_flavour inp; ci_type := ci_type inp; ci_problem := ci_problem inp; ci_relax := ci_relax inp;
       ci_ranking := ci_ranking inp; ci_domcmp := ci_domcmp inp; ci_width := ci_width inp; ci_root := ci_root inp;
       ci_best_lb := ci_best_lb inp; ci_use_cache := ci_use_cache inp; ci_domrule := ci_domrule inp; ci_cutoff := k |}.

  Definition fires (k p : nat) : bool := Nat.ltb 0 k && Nat.leb k p.
  Definition above (B k : nat) : Prop := k = 0%nat \/ (B < k)%nat.

  Lemma above_mono B B' k : (B <= B')%nat -> above B' k -> above B k.
  Proof. unfold above. intros H [E|L]; [left; exact E|right; lia]. Qed.

  Lemma fires_false_above k p : fires k p = false -> above p k.
  Proof.
    unfold fires, above. destruct k as [|k]; [left; reflexivity|]. cbn [Nat.ltb Nat.leb andb].
    intros H. right. change (Nat.leb (S k) p = false) in H. apply Nat.leb_gt in H. exact H.
  Qed.

  Lemma above_fires_false k p : above p k -> fires k p = false.
  Proof.
    unfold fires, above. intros [->|L]; [reflexivity|].
    destruct (Nat.ltb 0 k); [|reflexivity]. cbn [andb]. apply Nat.leb_gt. exact L.
  Qed.

  Definition loop_body (inp : @cinput St) (var : nat) (m : @mdd St) : @mdd St * option (list nat) :=
    if is_pooled (ci_flavour inp) then
      match m_next m with
      | [] => (m, None)
      | _ => move_to_next_layer_pooled st_eqb inp m var
      end
    else move_to_next_layer_clean st_eqb inp m.

  Lemma layer_loop_iter inp fuel m :
    layer_loop st_eqb inp (S fuel) m =
    let states := map (fun id => n_state (get_node inp m id)) (m_next m) in
    let ov := next_variable (ci_problem inp) (m_curr_depth m) states in
    let m0 := add_log m (EvNextVar (m_curr_depth m) states ov) in
    match ov with
    | None => (m0, LoopDone)
    | Some var =>
        let m1 := with_polls m0 (S (m_polls m0)) in
        if fires (ci_cutoff inp) (m_polls m1) then (m1, LoopCut)
        else
          let '(m2, ol) := loop_body inp var m1 in
          match ol with
          | None => (m2, LoopDone)
          | Some l =>
              let m3 := fold_left (expand_node st_eqb inp var) l m2 in
              layer_loop st_eqb inp fuel (with_depth m3 (S (m_curr_depth m3)))
          end
    end.
  Proof. reflexivity. Qed.


  (* ---- nothing but the poll test of layer_loop reads ci_cutoff.  Proved function by function: unfolding the
          whole of [finalize] at once makes the normal form explode (each stage uses its argument many times). *)
  Ltac mdd_norm := cbv beta iota delta [
    set_cutoff ci_flavour ci_type ci_problem ci_relax ci_ranking ci_domcmp ci_width ci_root ci_best_lb ci_use_cache ci_domrule ci_cutoff
    loop_body get_node get_edge upd_node append_edge find_next branch_on cache_get cache_update dom_query
    filter_with_cache dom_order dom_retain filter_with_dominance rank_order note_squash restrict_layer redirect_edges
    relax_layer squash_if_needed move_to_next_layer_clean move_to_next_layer_pooled expand_node initialize
    finalize_layers argmax_candidates find_best_node has_exact_best_path finalize_exact frontier_cutset
    finalize_cutset compute_local_bounds maybe_update_cache compute_thresholds default_node].

  Lemma loop_body_cutoff inp k1 k2 var m :
    loop_body (set_cutoff inp k1) var m = loop_body (set_cutoff inp k2) var m.
  Proof. mdd_norm. reflexivity. Qed.

  Lemma expand_cutoff inp k1 k2 var m id :
    expand_node st_eqb (set_cutoff inp k1) var m id = expand_node st_eqb (set_cutoff inp k2) var m id.
  Proof. mdd_norm. reflexivity. Qed.

  Lemma initialize_cutoff inp k1 k2 c ds p : initialize (set_cutoff inp k1) c ds p = initialize (set_cutoff inp k2) c ds p.
  Proof. reflexivity. Qed.

  Lemma finalize_layers_cutoff inp k1 k2 m : finalize_layers (set_cutoff inp k1) m = finalize_layers (set_cutoff inp k2) m.
  Proof. mdd_norm. reflexivity. Qed.
  Lemma find_best_node_cutoff inp k1 k2 a b m : find_best_node (set_cutoff inp k1) a b m = find_best_node (set_cutoff inp k2) a b m.
  Proof. mdd_norm. reflexivity. Qed.
  Lemma finalize_exact_cutoff inp k1 k2 m : finalize_exact (set_cutoff inp k1) m = finalize_exact (set_cutoff inp k2) m.
  Proof. mdd_norm. reflexivity. Qed.
  Lemma finalize_cutset_cutoff inp k1 k2 m : finalize_cutset (set_cutoff inp k1) m = finalize_cutset (set_cutoff inp k2) m.
  Proof. mdd_norm. reflexivity. Qed.
  Lemma compute_local_bounds_cutoff inp k1 k2 m : compute_local_bounds (set_cutoff inp k1) m = compute_local_bounds (set_cutoff inp k2) m.
  Proof. mdd_norm. reflexivity. Qed.
  Lemma compute_thresholds_cutoff inp k1 k2 m :
    compute_thresholds st_eqb (set_cutoff inp k1) m = compute_thresholds st_eqb (set_cutoff inp k2) m.
  Proof. mdd_norm. reflexivity. Qed.

  Lemma finalize_cutoff inp k1 k2 tb tb2 m :
    finalize st_eqb (set_cutoff inp k1) tb tb2 m = finalize st_eqb (set_cutoff inp k2) tb tb2 m.
  Proof.
    unfold finalize.
    rewrite (finalize_layers_cutoff inp k1 k2), (find_best_node_cutoff inp k1 k2), (finalize_exact_cutoff inp k1 k2),
            (finalize_cutset_cutoff inp k1 k2), (compute_local_bounds_cutoff inp k1 k2), (compute_thresholds_cutoff inp k1 k2).
    reflexivity.
  Qed.

  Lemma fold_expand_cutoff inp k1 k2 var l : forall m,
    fold_left (expand_node st_eqb (set_cutoff inp k1) var) l m = fold_left (expand_node st_eqb (set_cutoff inp k2) var) l m.
  Proof.
    induction l as [|id l IH]; intros m; cbn [fold_left]; [reflexivity|].
    rewrite (expand_cutoff inp k1 k2). apply IH.
  Qed.

  (* ---- the prefix lemma on layer_loop: a run that is not cut is reproduced by every cutoff above the
          largest poll number B it tested (and its own cutoff is above B) *)
  Lemma layer_loop_agree inp k1 : forall fuel m m' e,
    layer_loop st_eqb (set_cutoff inp k1) fuel m = (m', e) -> e <> LoopCut ->
    exists B, above B k1 /\
      forall k2, above B k2 -> layer_loop st_eqb (set_cutoff inp k2) fuel m = (m', e).
  Proof.
    induction fuel as [|fuel IH]; intros m m' e H Hne.
    - exists O. split; [destruct k1; [left; reflexivity|right; lia]|]. intros k2 _. exact H.
    - rewrite layer_loop_iter in H. cbv zeta in H.
      change (ci_problem (set_cutoff inp k1)) with (ci_problem inp) in H.
      change (ci_cutoff (set_cutoff inp k1)) with k1 in H.
      assert (Hgn : forall k, (fun id => n_state (get_node (set_cutoff inp k) m id)) = (fun id => n_state (get_node inp m id)))
        by reflexivity.
      rewrite Hgn in H.
      set (states := map (fun id => n_state (get_node inp m id)) (m_next m)) in *.
      destruct (next_variable (ci_problem inp) (m_curr_depth m) states) as [var|] eqn:Eov.
      2:{ exists O. split; [destruct k1; [left; reflexivity|right; lia]|]. intros k2 _.
          rewrite layer_loop_iter. cbv zeta.
          change (ci_problem (set_cutoff inp k2)) with (ci_problem inp). rewrite Hgn. fold states. rewrite Eov. exact H. }
      set (m0 := add_log m (EvNextVar (m_curr_depth m) states (Some var))) in *.
      set (m1 := with_polls m0 (S (m_polls m0))) in *.
      destruct (fires k1 (m_polls m1)) eqn:Ef.
      { inversion H; subst. contradiction Hne; reflexivity. }
      destruct (loop_body (set_cutoff inp k1) var m1) as [m2 ol] eqn:Eb.
      assert (Hstep : forall k2, above (m_polls m1) k2 ->
                layer_loop st_eqb (set_cutoff inp k2) (S fuel) m =
                match ol with
                | None => (m2, LoopDone)
                | Some l => let m3 := fold_left (expand_node st_eqb (set_cutoff inp k2) var) l m2 in
                            layer_loop st_eqb (set_cutoff inp k2) fuel (with_depth m3 (S (m_curr_depth m3)))
                end).
      { intros k2 Hab. rewrite layer_loop_iter. cbv zeta.
        change (ci_problem (set_cutoff inp k2)) with (ci_problem inp).
        change (ci_cutoff (set_cutoff inp k2)) with k2. rewrite Hgn. fold states. rewrite Eov. fold m0. fold m1.
        rewrite (above_fires_false _ _ Hab). rewrite (loop_body_cutoff inp k2 k1), Eb. reflexivity. }
      destruct ol as [l|].
      + cbv zeta in H. apply IH in H; [|exact Hne]. destruct H as (B & HB1 & HB2).
        exists (Nat.max (m_polls m1) B). split.
        * apply fires_false_above in Ef. destruct Ef as [->|L1]; [left; reflexivity|].
          destruct HB1 as [->|L2]; [left; reflexivity|]. right. lia.
        * intros k2 Hab. rewrite Hstep by (eapply above_mono; [|exact Hab]; lia). cbv zeta.
          rewrite (fold_expand_cutoff inp k2 k1). apply HB2. eapply above_mono; [|exact Hab]. lia.
      + exists (m_polls m1). split; [apply fires_false_above; exact Ef|]. intros k2 Hab.
        rewrite Hstep by exact Hab. exact H.
  Qed.

  Lemma compile_agree inp k1 tb tb2 c ds polls m o :
    compile st_eqb (set_cutoff inp k1) tb tb2 c ds polls = (m, o) -> o <> CutoffOccurred ->
    exists B, above B k1 /\
      forall k2, above B k2 -> compile st_eqb (set_cutoff inp k2) tb tb2 c ds polls = (m, o).
  Proof.
    unfold compile. change (ci_problem (set_cutoff inp k1)) with (ci_problem inp).
    destruct (layer_loop st_eqb (set_cutoff inp k1) (S (S (nb_vars (ci_problem inp)))) (initialize (set_cutoff inp k1) c ds polls))
      as [ml e] eqn:El.
    intros H Hne.
    assert (He : e <> LoopCut). { intros ->. inversion H; subst. apply Hne; reflexivity. }
    destruct (layer_loop_agree _ _ _ _ _ _ El He) as (B & HB1 & HB2).
    exists B. split; [exact HB1|]. intros k2 Hab.
    change (ci_problem (set_cutoff inp k2)) with (ci_problem inp).
    rewrite (initialize_cutoff inp k2 k1), (HB2 k2 Hab).
    destruct e; [|exact H|exact H]. rewrite (finalize_cutoff inp k2 k1). exact H.
  Qed.

  (* cutoff 0 never fires *)
  Lemma layer_loop_zero inp : forall fuel m m' e,
    layer_loop st_eqb (set_cutoff inp 0) fuel m = (m', e) -> e <> LoopCut.
  Proof.
    induction fuel as [|fuel IH]; intros m m' e H.
    - inversion H; subst. discriminate.
    - rewrite layer_loop_iter in H. cbv zeta in H.
      change (ci_cutoff (set_cutoff inp 0)) with 0%nat in H.
      destruct (next_variable _ _ _) as [var|]; [|inversion H; subst; discriminate].
      unfold fires in H. change (Nat.ltb 0 0) with false in H. cbn [andb] in H.
      destruct (loop_body (set_cutoff inp 0) var _) as [m2 ol].
      destruct ol as [l|]; [eapply IH; exact H|inversion H; subst; discriminate].
  Qed.

  Lemma compile_zero inp tb tb2 c ds polls m o :
    compile st_eqb (set_cutoff inp 0) tb tb2 c ds polls = (m, o) -> o <> CutoffOccurred.
  Proof.
    unfold compile.
    destruct (layer_loop st_eqb (set_cutoff inp 0) _ _) as [ml e] eqn:El.
    apply layer_loop_zero in El. destruct e; intros H; inversion H; subst; try discriminate. contradiction El; reflexivity.
  Qed.


End CompilePrefix.

(* ================================================================== GOAL 1 (C05, sequential part) *)
Section Anytime.
  Context {St : Type}.
  Variable st_eqb : St -> St -> bool.

  Definition with_cutoff (cfg : @sconfig St) (k : nat) : @sconfig St :=
    {| sc_flavour := sc_flavour cfg; sc_problem := sc_problem cfg; sc_relax := sc_relax cfg; sc_ranking := sc_ranking cfg;
       sc_domcmp := sc_domcmp cfg; sc_domrule := sc_domrule cfg; sc_width := sc_width cfg; sc_use_cache := sc_use_cache cfg;
       sc_nodup := sc_nodup cfg; sc_cutoff := k |}.

  (* configuration of Goal 1: no cache, SimpleFringe, no dominance rule, ANY cutoff *)
  Definition config_c (cfg : @sconfig St) : Prop :=
    sc_use_cache cfg = false /\ sc_domrule cfg = None /\ sc_nodup cfg = false.

  Lemma config_c_ok0 cfg : config_c cfg -> config_ok (with_cutoff cfg 0).
  Proof. intros (H1 & H2 & H3). unfold config_ok. cbn [with_cutoff sc_use_cache sc_domrule sc_cutoff sc_nodup]. auto. Qed.

  Variable good : @subproblem St -> Prop.
  Variable best : @subproblem St -> option Z.
  Variable feasible : list decision -> Z -> Prop.

  (* ---------------- diagram contracts, as predicates of the configuration.
     Everything is conditional on out = Compiled, except the absence of a model crash. *)
  Definition KC_crash (cfg : @sconfig St) : Prop := forall ct n lb c ds polls m out,
    dd_ct ct -> good n -> (sp_depth n <= nb_vars (sc_problem cfg))%nat ->
    compile st_eqb (mk_input cfg ct n lb) 0 0 c ds polls = (m, out) -> m_crash m = false.
  Definition KC1 (cfg : @sconfig St) : Prop := forall ct n lb c ds polls m,
    dd_ct ct -> good n -> (sp_depth n <= nb_vars (sc_problem cfg))%nat ->
    compile st_eqb (mk_input cfg ct n lb) 0 0 c ds polls = (m, Compiled) ->
    forall v, dd_best_exact_value (mk_input cfg ct n lb) m = Some v ->
    exists sol, dd_best_exact_solution (mk_input cfg ct n lb) m = Some sol /\ feasible sol v.
  Definition KC2 (cfg : @sconfig St) : Prop := forall ct n lb c ds polls m,
    dd_ct ct -> good n -> (sp_depth n <= nb_vars (sc_problem cfg))%nat ->
    compile st_eqb (mk_input cfg ct n lb) 0 0 c ds polls = (m, Compiled) ->
    dd_is_exact m = true ->
    forall o, best n = Some o -> o > lb -> dd_best_exact_value (mk_input cfg ct n lb) m = Some o.
  Definition KC3_good (cfg : @sconfig St) : Prop := forall n lb c ds polls m,
    good n -> (sp_depth n <= nb_vars (sc_problem cfg))%nat ->
    compile st_eqb (mk_input cfg Relaxed n lb) 0 0 c ds polls = (m, Compiled) ->
    dd_is_exact m = false ->
    forall x, In x (drain_cutset (mk_input cfg Relaxed n lb) m) -> good x.
  (* non-strict: termination is not at stake here *)
  Definition KC3_depth (cfg : @sconfig St) : Prop := forall n lb c ds polls m,
    good n -> (sp_depth n <= nb_vars (sc_problem cfg))%nat ->
    compile st_eqb (mk_input cfg Relaxed n lb) 0 0 c ds polls = (m, Compiled) ->
    dd_is_exact m = false ->
    forall x, In x (drain_cutset (mk_input cfg Relaxed n lb) m) -> (sp_depth x <= nb_vars (sc_problem cfg))%nat.
  Definition KC3_ub (cfg : @sconfig St) : Prop := forall n lb c ds polls m,
    good n -> (sp_depth n <= nb_vars (sc_problem cfg))%nat ->
    compile st_eqb (mk_input cfg Relaxed n lb) 0 0 c ds polls = (m, Compiled) ->
    dd_is_exact m = false ->
    forall x, In x (drain_cutset (mk_input cfg Relaxed n lb) m) ->
    forall o, best x = Some o -> o > lb -> o <= sp_ub x.
  Definition KC4 (cfg : @sconfig St) : Prop := forall n lb c ds polls m,
    good n -> (sp_depth n <= nb_vars (sc_problem cfg))%nat ->
    compile st_eqb (mk_input cfg Relaxed n lb) 0 0 c ds polls = (m, Compiled) ->
    dd_is_exact m = false ->
    forall o, best n = Some o -> o > lb ->
    (forall e, dd_best_exact_value (mk_input cfg Relaxed n lb) m = Some e -> e < o) ->
    exists x, In x (drain_cutset (mk_input cfg Relaxed n lb) m) /\ best x = Some o.

  Definition contracts (cfg : @sconfig St) : Prop :=
    KC_crash cfg /\ KC1 cfg /\ KC2 cfg /\ KC3_good cfg /\ KC3_depth cfg /\ KC3_ub cfg /\ KC4 cfg.

  (* ---------------- abstract-semantics hypotheses (same as SolverProofs; K3_le / best_le_opt are NOT needed) *)
  Definition semantics (cfg : @sconfig St) : Prop :=
    good (root_node cfg) /\
    (forall sol v, feasible sol v -> exists o, OPT cfg best = Some o /\ v <= o) /\
    (forall o, OPT cfg best = Some o -> IMIN < o <= IMAX) /\
    (forall c u, good c -> good (set_ub c u)) /\
    (forall c u, best (set_ub c u) = best c).

  Section Fixed.
  Variable cfg : @sconfig St.
  Hypothesis cfg_c : config_c cfg.
  Hypothesis HK : contracts cfg.
  Hypothesis HS : semantics cfg.
  Let N := nb_vars (sc_problem cfg).
  Let cfg0 := with_cutoff cfg 0.
  Let ok0 : config_ok cfg0 := config_c_ok0 cfg cfg_c.

  Notation CoreC := (Core cfg good feasible).
  Notation ComplC := (Compl cfg best).
  Notation OPTC := (OPT cfg best).

  Lemma no_cache_c : sc_use_cache cfg = false. Proof. apply cfg_c. Qed.
  Lemma simple_fringe_c : sc_nodup cfg = false. Proof. apply cfg_c. Qed.

  (* transfer of the cutoff-independent lemmas of SolverProofs (stated there for cutoff 0) *)
  Lemma fr_len_simple_c s : fr_len cfg s = length (s_simple s).
  Proof. exact (fr_len_simple cfg0 ok0 s). Qed.

  Lemma fr_pop_simple_c s :
    fr_pop st_eqb cfg s =
    match pq_pop cfg (s_simple s) with
    | None => (s, None)
    | Some (x, rest) => (upd_s s rest (s_nodup s) (s_explored s) (s_open s) (s_fal s) (s_lb s) (s_ub s) (s_sol s)
                         (s_abort s) (s_cache s) (s_dom s) (s_polls s) (s_crash s) (s_tie s) (s_compiles s), Some x)
    end.
  Proof. exact (fr_pop_simple st_eqb cfg0 ok0 s). Qed.

  Lemma clean_cache_loop_view_c fuel s :
    (forall d, (d <= N)%nat -> exists k, nth_error (s_open s) d = Some k) ->
    view (clean_cache_loop cfg fuel s) = view s.
  Proof. exact (clean_cache_loop_view cfg0 ok0 fuel s). Qed.

  Lemma enq_fold_spec_c lb ub cs s :
    (forall c, In c cs -> (sp_depth c <= N)%nat) -> OpenOK cfg (s_open s) (s_simple s) ->
    s_lb (fold_left (enq_step st_eqb cfg lb ub) cs s) = s_lb s /\ s_sol (fold_left (enq_step st_eqb cfg lb ub) cs s) = s_sol s /\
    s_abort (fold_left (enq_step st_eqb cfg lb ub) cs s) = s_abort s /\ s_crash (fold_left (enq_step st_eqb cfg lb ub) cs s) = s_crash s /\
    OpenOK cfg (s_open (fold_left (enq_step st_eqb cfg lb ub) cs s)) (s_simple (fold_left (enq_step st_eqb cfg lb ub) cs s)) /\
    (forall x, In x (s_simple (fold_left (enq_step st_eqb cfg lb ub) cs s)) <->
       In x (s_simple s) \/ exists c, In c cs /\ Z.min ub (sp_ub c) > lb /\ x = set_ub c (Z.min ub (sp_ub c))).
  Proof.
    intros H1 H2. destruct (enq_fold_spec st_eqb cfg0 ok0 O lb ub cs s H1 H2) as (F1 & F2 & F3 & F4 & F5 & F6 & _).
    repeat split; try assumption; apply F6.
  Qed.

  (* ------------------------------------------------------------------ the queue pops a sp_ub-maximal node
     (local copy of ParProofs.pq_pop_max) *)
  Lemma pq_pop_max_c l x rest : pq_pop cfg l = Some (x, rest) -> forall y, In y l -> sp_ub y <= sp_ub x.
  Proof.
    revert x rest; induction l as [|z l IH]; intros x rest H; [discriminate|].
    cbn [pq_pop] in H. destruct (pq_pop cfg l) as [[y r]|] eqn:E.
    - specialize (IH _ _ eq_refl).
      destruct (is_gt (maxub_cmp (sc_ranking cfg) z y)) eqn:G; injection H as <- <-; intros u [Hu|Hu]; subst.
      + lia.
      + specialize (IH _ Hu). unfold maxub_cmp, cmp_then, Zcmp in G.
        destruct (sp_ub z ?= sp_ub y) eqn:C; try discriminate.
        * apply Z.compare_eq in C. lia.
        * apply Z.compare_gt_iff in C. lia.
      + unfold maxub_cmp, cmp_then, Zcmp in G.
        destruct (sp_ub u ?= sp_ub y) eqn:C.
        * apply Z.compare_eq in C. lia.
        * assert (sp_ub u < sp_ub y) by exact C. lia.
        * discriminate.
      + apply IH. exact Hu.
    - injection H as <- <-. apply pq_pop_none in E. subst l. intros u [Hu|[]]. subst. lia.
  Qed.

  (* ------------------------------------------------------------------ get_workload, with the two facts about s_ub *)
  Lemma get_workload_spec_c s : CoreC s ->
    (s_simple s = [] /\ exists s1, get_workload st_eqb cfg s = (s1, WComplete) /\
       s_simple s1 = [] /\ s_crash s1 = false /\ s_abort s1 = false /\ s_lb s1 = s_lb s /\
       s_sol s1 = s_sol s /\ s_ub s1 = s_lb s)
    \/ (exists x rest s1, get_workload st_eqb cfg s = (s1, WItem x) /\ Permutation (s_simple s) (x :: rest) /\
         s_simple s1 = rest /\ CoreC s1 /\ s_lb s1 = s_lb s /\ s_ub s1 = sp_ub x /\
         (forall y, In y (s_simple s) -> sp_ub y <= sp_ub x)).
  Proof.
    intros (Hcr & Hab & Hinc & Hfr & Hop).
    unfold get_workload.
    set (sc := clean_cache_loop cfg (S (nb_vars (sc_problem cfg))) s).
    assert (Hv : view sc = view s).
    { apply clean_cache_loop_view_c. intros d Hd. eexists. apply Hop. exact Hd. }
    apply view_inv in Hv. destruct Hv as (V1 & V2 & V3 & V4 & V5 & V6).
    rewrite fr_len_simple_c, V1.
    destruct (s_simple s) as [|y0 l0] eqn:El.
    - left. split; [reflexivity|]. eexists. split; [reflexivity|].
      cbn [s_simple s_crash s_abort s_lb s_sol s_ub upd_s]. rewrite V3, V4, V5, V6. auto 10.
    - right. cbn [length Nat.eqb]. rewrite V5, Hab. rewrite fr_pop_simple_c, V1.
      destruct (pq_pop cfg (y0 :: l0)) as [[x rest]|] eqn:Ep; [|apply pq_pop_none in Ep; discriminate].
      pose proof (pq_pop_perm _ _ _ _ Ep) as Hperm.
      assert (Hx : In x (y0 :: l0)). { eapply Permutation_in; [apply Permutation_sym; exact Hperm|]. left; reflexivity. }
      destruct (Hfr x Hx) as [Hgx Hdx].
      cbn [s_open upd_s]. rewrite V2, (Hop _ Hdx).
      rewrite (cnt_perm _ _ _ Hperm), cnt_cons_same.
      exists x, rest. eexists. split; [reflexivity|]. split; [exact Hperm|].
      cbn [s_simple s_lb s_ub upd_s]. split; [reflexivity|].
      split; [|split; [exact V3|split; [reflexivity|exact (pq_pop_max_c _ _ _ Ep)]]].
      unfold Core. cbn [s_simple s_crash s_abort s_lb s_sol s_open upd_s].
      rewrite ?V2, ?V3, ?V4, ?V5, ?V6. split; [exact Hcr|]. split; [exact Hab|]. split; [exact Hinc|]. split.
      + intros n Hn. apply Hfr. eapply Permutation_in; [apply Permutation_sym; exact Hperm|]. right; exact Hn.
      + intros d Hd. destruct (Nat.eq_dec (sp_depth x) d) as [Heq|Hne].
        * subst d. erewrite nth_error_upd_nth_same; [reflexivity|]. rewrite (Hop _ Hd).
          rewrite (cnt_perm _ _ _ Hperm), cnt_cons_same. reflexivity.
        * rewrite nth_error_upd_nth_other by exact Hne. rewrite (Hop _ Hd).
          rewrite (cnt_perm _ _ _ Hperm), cnt_cons_other by exact Hne. reflexivity.
  Qed.

  (* ------------------------------------------------------------------ the contracts, one by one *)
  Lemma Kcrash : KC_crash cfg. Proof. apply HK. Qed.
  Lemma K1c : KC1 cfg. Proof. apply HK. Qed.
  Lemma K2c : KC2 cfg. Proof. apply HK. Qed.
  Lemma K3c_good : KC3_good cfg. Proof. apply HK. Qed.
  Lemma K3c_depth : KC3_depth cfg. Proof. apply HK. Qed.
  Lemma K3c_ub : KC3_ub cfg. Proof. apply HK. Qed.
  Lemma K4c : KC4 cfg. Proof. apply HK. Qed.
  Lemma good_root_c : good (root_node cfg). Proof. apply HS. Qed.
  Lemma feasible_le_opt_c : forall sol v, feasible sol v -> exists o, OPTC = Some o /\ v <= o. Proof. apply HS. Qed.
  Lemma opt_in_isize_c : forall o, OPTC = Some o -> IMIN < o <= IMAX. Proof. apply HS. Qed.
  Lemma good_set_ub_c : forall c u, good c -> good (set_ub c u). Proof. apply HS. Qed.
  Lemma best_set_ub_c : forall c u, best (set_ub c u) = best c. Proof. apply HS. Qed.

  (* ------------------------------------------------------------------ s_ub is only written by get_workload *)
  Lemma run_compile_ub s ct n s' inp m o :
    run_compile st_eqb cfg s ct n = (s', inp, m, o) -> s_ub s' = s_ub s.
  Proof.
    unfold run_compile.
    destruct (compile st_eqb (mk_input cfg ct n (s_lb s)) 0 0 (s_cache s) (s_dom s) (s_polls s)) as [m0 o0].
    intros H; inversion H; subst. reflexivity.
  Qed.

  Lemma mub_ub (s : @sstate St) inp m : s_ub (maybe_update_best s inp m) = s_ub s.
  Proof. unfold maybe_update_best. destruct (_ >? _); reflexivity. Qed.

  Lemma enq_step_ub lb ub s c : s_ub (enq_step st_eqb cfg lb ub s c) = s_ub s.
  Proof.
    unfold enq_step. destruct (_ >? _); [|reflexivity].
    unfold fr_push. rewrite simple_fringe_c. cbn [s_open upd_s].
    destruct (nth_error (s_open s) (sp_depth c)); reflexivity.
  Qed.

  Lemma enq_fold_ub lb ub cs : forall s, s_ub (fold_left (enq_step st_eqb cfg lb ub) cs s) = s_ub s.
  Proof. induction cs as [|c cs IH]; intros s; cbn [fold_left]; [reflexivity|]. rewrite IH. apply enq_step_ub. Qed.

  (* ------------------------------------------------------------------ one compilation + incumbent update *)
  Lemma phase_c s ct n s' inp m o :
    CoreC s -> dd_ct ct -> good n -> (sp_depth n <= N)%nat ->
    run_compile st_eqb cfg s ct n = (s', inp, m, o) ->
    inp = mk_input cfg ct n (s_lb s) /\
    compile st_eqb (mk_input cfg ct n (s_lb s)) 0 0 (s_cache s) (s_dom s) (s_polls s) = (m, o) /\
    CoreC s' /\ s_simple s' = s_simple s /\ s_lb s' = s_lb s /\ s_ub s' = s_ub s /\
    (o = Compiled ->
       CoreC (maybe_update_best s' inp m) /\ s_simple (maybe_update_best s' inp m) = s_simple s /\
       s_lb s <= s_lb (maybe_update_best s' inp m) /\ s_ub (maybe_update_best s' inp m) = s_ub s /\
       (forall e, dd_best_exact_value inp m = Some e -> e <= s_lb (maybe_update_best s' inp m))).
  Proof.
    intros (Hcr & Hab & Hinc & Hfr & Hop) Hct Hg Hd Hrc.
    pose proof (run_compile_ub _ _ _ _ _ _ _ Hrc) as Hub.
    apply run_compile_spec in Hrc. destruct Hrc as (Hinp & Hc & R1 & R2 & R3 & R4 & R5 & R6).
    pose proof (Kcrash _ _ _ _ _ _ _ _ Hct Hg Hd Hc) as Hmc.
    assert (HC' : CoreC s').
    { unfold Core. rewrite R1, R2, R3, R4, R5, R6, Hcr, Hmc. cbn [orb]. auto. }
    split; [exact Hinp|]. split; [exact Hc|]. split; [exact HC'|]. split; [exact R1|]. split; [exact R3|].
    split; [exact Hub|]. intros ->.
    assert (Hlb' : IMIN <= s_lb s') by (rewrite R3; apply Hinc).
    pose proof (mub_spec cfg s' inp m Hlb') as Hm. cbv zeta in Hm.
    destruct Hm as (U1 & U2 & U3 & U4 & U5).
    assert (Hcore_rest : s_crash (maybe_update_best s' inp m) = false /\ s_abort (maybe_update_best s' inp m) = false /\
              FringeOK cfg good (s_simple (maybe_update_best s' inp m)) /\
              OpenOK cfg (s_open (maybe_update_best s' inp m)) (s_simple (maybe_update_best s' inp m))).
    { rewrite U4, U3, U2, U1, R6, R5, R2, R1, Hcr, Hmc, Hab. auto. }
    destruct Hcore_rest as (C1 & C2 & C4 & C5).
    rewrite mub_ub, Hub.
    destruct U5 as [(L1 & L2 & L3) | (v & Hv & Hgt & L1 & L2)].
    - split; [|split; [rewrite U1, R1; reflexivity|split; [rewrite L1, R3; lia|split; [reflexivity|rewrite L1; exact L3]]]].
      unfold Core. rewrite L1, L2, R3, R4. auto.
    - subst inp. destruct (K1c _ _ _ _ _ _ _ Hct Hg Hd Hc v Hv) as (sol & Hsol & Hfeas).
      split; [|split; [rewrite U1, R1; reflexivity|split; [rewrite L1; rewrite R3 in Hgt; lia|split; [reflexivity|]]]].
      + unfold Core. split; [exact C1|]. split; [exact C2|]. split; [|split; [exact C4|exact C5]].
        rewrite L1, L2. split; [rewrite R3 in Hgt; destruct Hinc; lia|].
        right. exists sol. split; [exact Hsol|exact Hfeas].
      + intros e He. rewrite Hv in He. assert (e = v) by congruence. rewrite L1. lia.
  Qed.

  (* ------------------------------------------------------------------ process_one_node, with a possible cutoff *)
  Lemma process_spec_c s n s2 err :
    CoreC s -> ComplC s [n] -> good n -> (sp_depth n <= N)%nat ->
    process_one_node st_eqb cfg s n = (s2, err) ->
    CoreC s2 /\ s_ub s2 = s_ub s /\ s_lb s <= s_lb s2 /\
    (err = false -> ComplC s2 [] /\ forall x, In x (s_simple s2) -> In x (s_simple s) \/ sp_ub x <= sp_ub n) /\
    (err = true -> s_lb s < sp_ub n).
  Proof.
    intros HCore HCompl Hg Hd. unfold process_one_node.
    destruct (sp_ub n <=? s_lb s) eqn:Eub.
    { intros H; inversion H; subst s2 err. split; [exact HCore|]. split; [reflexivity|]. split; [lia|].
      split; [|discriminate]. intros _. split; [|auto].
      apply (compl_close cfg best s n s HCompl); [auto|lia|]. intros o _ _ Hu. left. apply Z.leb_le in Eub. lia. }
    apply Z.leb_gt in Eub.
    rewrite no_cache_c.
    destruct (run_compile st_eqb cfg s Restricted n) as [[[sa0 inpa] ma] oa] eqn:Ea.
    destruct (phase_c _ _ _ _ _ _ _ HCore (or_introl eq_refl) Hg Hd Ea) as (Hinpa & Hca & HCa0 & Hsa0 & Hla0 & Hua0 & Hcompa).
    destruct oa;
      [|intros H; inversion H; subst s2 err; split; [exact HCa0|]; split; [exact Hua0|]; split; [lia|];
        split; [discriminate|intros _; exact Eub]..].
    destruct (Hcompa eq_refl) as (HCa & Hsa & Hlba & Huba & Heva). clear Hcompa.
    cbv beta iota zeta.
    set (sa := maybe_update_best sa0 inpa ma) in HCa, Hsa, Hlba, Huba, Heva |- *.
    destruct (dd_is_exact ma) eqn:Eexa.
    { intros H; inversion H; subst s2 err. split; [exact HCa|]. split; [exact Huba|]. split; [exact Hlba|].
      split; [|discriminate]. intros _. split; [|rewrite Hsa; auto].
      apply (compl_close cfg best s n sa HCompl); [rewrite Hsa; auto|exact Hlba|]. intros o _ Hb _. left.
      destruct (Z_le_gt_dec o (s_lb s)) as [Hle|Hgt]; [lia|].
      apply Heva. rewrite Hinpa. exact (K2c _ _ _ _ _ _ _ (or_introl eq_refl) Hg Hd Hca Eexa o Hb Hgt). }
    destruct (run_compile st_eqb cfg sa Relaxed n) as [[[sb0 inpb] mb] ob] eqn:Eb.
    destruct (phase_c _ _ _ _ _ _ _ HCa (or_intror eq_refl) Hg Hd Eb) as (Hinpb & Hcb & HCb0 & Hsb0 & Hlb0 & Hub0 & Hcompb).
    destruct ob;
      [|intros H; inversion H; subst s2 err; split; [exact HCb0|]; split; [rewrite Hub0; exact Huba|]; split; [lia|];
        split; [discriminate|intros _; exact Eub]..].
    destruct (Hcompb eq_refl) as (HCb & Hsb & Hlbb & Hubb & Hevb). clear Hcompb.
    cbv beta iota zeta.
    set (sb := maybe_update_best sb0 inpb mb) in HCb, Hsb, Hlbb, Hubb, Hevb |- *.
    destruct (dd_is_exact mb) eqn:Eexb.
    { intros H; inversion H; subst s2 err. split; [exact HCb|]. split; [rewrite Hubb; exact Huba|]. split; [lia|].
      split; [|discriminate]. intros _. split; [|rewrite Hsb, Hsa; auto].
      apply (compl_close cfg best s n sb HCompl); [rewrite Hsb, Hsa; auto|lia|]. intros o _ Hb _. left.
      destruct (Z_le_gt_dec o (s_lb sa)) as [Hle|Hgt]; [lia|].
      apply Hevb. rewrite Hinpb. exact (K2c _ _ _ _ _ _ _ (or_intror eq_refl) Hg Hd Hcb Eexb o Hb Hgt). }
    intros H; inversion H; subst s2 err. clear H.
    rewrite enqueue_cutset_fold. subst inpb.
    set (cs := drain_cutset (mk_input cfg Relaxed n (s_lb sa)) mb).
    assert (Hdep : forall c, In c cs -> (sp_depth c <= N)%nat).
    { intros c Hc. exact (K3c_depth _ _ _ _ _ _ Hg Hd Hcb Eexb c Hc). }
    destruct HCb as (B1 & B2 & B3 & B4 & B5).
    destruct (enq_fold_spec_c (s_lb sb) (sp_ub n) cs sb Hdep B5) as (F1 & F2 & F3 & F4 & F5 & F6).
    split; [|split; [|split; [|split; [|discriminate]]]].
    - unfold Core. rewrite F1, F2, F3, F4. split; [exact B1|]. split; [exact B2|]. split; [exact B3|].
      split; [|exact F5]. intros x Hx. apply F6 in Hx. destruct Hx as [Hx|(c & Hc & _ & ->)].
      + apply B4; exact Hx.
      + split; [apply good_set_ub_c; exact (K3c_good _ _ _ _ _ _ Hg Hd Hcb Eexb c Hc)|].
        cbn [set_ub sp_depth]. apply Hdep. exact Hc.
    - rewrite enq_fold_ub, Hubb. exact Huba.
    - rewrite F1. lia.
    - intros _. split.
      + apply (compl_close cfg best s n _ HCompl).
        * intros x Hx. apply F6. left. rewrite Hsb, Hsa. exact Hx.
        * rewrite F1. lia.
        * intros o Ho Hb Hu. rewrite F1.
          destruct (Z_le_gt_dec o (s_lb sb)) as [Hle|Hgt]; [left; exact Hle|]. right.
          assert (Hgta : o > s_lb sa) by lia.
          destruct (K4c _ _ _ _ _ _ Hg Hd Hcb Eexb o Hb Hgta) as (c & Hc & Hbc).
          { intros e He. apply Hevb in He. lia. }
          assert (Hubc : o <= sp_ub c) by exact (K3c_ub _ _ _ _ _ _ Hg Hd Hcb Eexb c Hc o Hbc Hgta).
          exists (set_ub c (Z.min (sp_ub n) (sp_ub c))). split; [|split].
          -- apply F6. right. exists c. split; [exact Hc|]. split; [lia|reflexivity].
          -- rewrite best_set_ub_c. exact Hbc.
          -- cbn [set_ub sp_ub]. lia.
      + intros x Hx. apply F6 in Hx. destruct Hx as [Hx|(c & Hc & _ & ->)].
        * left. rewrite Hsb, Hsa in Hx. exact Hx.
        * right. cbn [set_ub sp_ub]. lia.
  Qed.

  (* ------------------------------------------------------------------ the anytime invariant *)
  (* every open node is bounded by the reported upper bound *)
  Definition UbB (s : @sstate St) : Prop := forall n, In n (s_simple s) -> sp_ub n <= s_ub s.
  Definition J (s : @sstate St) : Prop := CoreC s /\ ComplC s [] /\ UbB s.
  (* the state right after get_workload popped x *)
  Definition Popped (s1 : @sstate St) (x : @subproblem St) : Prop :=
    CoreC s1 /\ ComplC s1 [x] /\ UbB s1 /\ s_ub s1 = sp_ub x /\ good x /\ (sp_depth x <= N)%nat.
  (* the effective upper bound: s_ub itself is NOT monotone along a run (see s_ub_monotone_partial below) *)
  Definition eub (s : @sstate St) : Z := Z.max (s_lb s) (s_ub s).

  Definition FinalA (s : @sstate St) : Prop :=
    s_crash s = false /\ Incumbent feasible (s_lb s) (s_sol s) /\
    (forall o, OPTC = Some o -> o <= s_ub s) /\ s_lb s <= s_ub s /\
    (s_abort s = false -> forall o, OPTC = Some o -> o <= s_lb s).

  Lemma incumbent_le_opt lb sol o : Incumbent feasible lb sol -> OPTC = Some o -> lb <= o.
  Proof.
    intros [Hmin [[_ ->]|(l & _ & Hf)]] Ho.
    - pose proof (opt_in_isize_c o Ho). lia.
    - destruct (feasible_le_opt_c _ _ Hf) as (o' & Ho' & Hle). rewrite Ho in Ho'. inversion Ho'; subst. exact Hle.
  Qed.

  Lemma incumbent_none lb sol : Incumbent feasible lb sol -> OPTC = None -> lb = IMIN /\ sol = None.
  Proof.
    intros [Hmin [[-> ->]|(l & _ & Hf)]] Ho; [auto|].
    destruct (feasible_le_opt_c _ _ Hf) as (o' & Ho' & _). rewrite Ho in Ho'. discriminate.
  Qed.

  Lemma popped_sound s1 x : Popped s1 x -> forall o, OPTC = Some o -> o <= eub s1.
  Proof.
    intros (_ & HC & HU & Hx & _) o Ho. unfold eub.
    destruct (HC o Ho) as [Hle|(w & [[<-|[]]|Hw] & _ & Hu)]; [lia|lia|]. apply HU in Hw. lia.
  Qed.

  Lemma popped_sound_strict s1 x : Popped s1 x -> s_lb s1 < sp_ub x -> forall o, OPTC = Some o -> o <= s_ub s1.
  Proof.
    intros (_ & HC & HU & Hx & _) Hlt o Ho.
    destruct (HC o Ho) as [Hle|(w & [[<-|[]]|Hw] & _ & Hu)]; [lia|lia|]. apply HU in Hw. lia.
  Qed.

  (* a sound incumbent is below any sound upper bound *)
  Lemma incumbent_le_bound lb sol U :
    Incumbent feasible lb sol -> (forall o, OPTC = Some o -> o <= U) -> IMIN <= U -> lb <= U.
  Proof.
    intros Hinc HU Hmin. destruct OPTC as [o|] eqn:Ho.
    - pose proof (incumbent_le_opt _ _ o Hinc Ho). specialize (HU o eq_refl). lia.
    - destruct (incumbent_none _ _ Hinc Ho) as [-> _]. exact Hmin.
  Qed.

  Lemma get_workload_J s : J s ->
    (exists s1, get_workload st_eqb cfg s = (s1, WComplete) /\ FinalA s1 /\ s_abort s1 = false /\
                s_lb s1 = s_lb s /\ s_ub s1 = s_lb s)
    \/ (exists x s1, get_workload st_eqb cfg s = (s1, WItem x) /\ Popped s1 x /\ s_lb s1 = s_lb s /\ s_ub s1 <= s_ub s).
  Proof.
    intros (HCore & HCompl & HU).
    destruct (get_workload_spec_c s HCore) as [(Hemp & s1 & Hgw & W1 & W2 & W3 & W4 & W5 & W6)
                                              |(x & rest & s1 & Hgw & Hperm & W1 & HC1 & W2 & W3 & W4)].
    - left. exists s1. split; [exact Hgw|]. split; [|auto].
      assert (Hle : forall o, OPTC = Some o -> o <= s_lb s).
      { intros o Ho. destruct (HCompl o Ho) as [H|(w & [[]|Hw] & _)]; [exact H|]. rewrite Hemp in Hw. destruct Hw. }
      unfold FinalA. rewrite W6, W5, W4. split; [exact W2|]. split; [apply HCore|]. split; [exact Hle|].
      split; [lia|]. intros _. exact Hle.
    - right. exists x, s1. split; [exact Hgw|].
      assert (Hx : In x (s_simple s)).
      { eapply Permutation_in; [apply Permutation_sym; exact Hperm|]. left; reflexivity. }
      destruct HCore as (_ & _ & _ & Hfr & _). destruct (Hfr x Hx) as [Hgx Hdx].
      split; [|split; [exact W2|rewrite W3; apply HU; exact Hx]].
      split; [exact HC1|]. split; [|split; [|auto]].
      + intros o Ho. rewrite W2. destruct (HCompl o Ho) as [H|(w & [[]|Hw] & Hb & Hu)]; [left; exact H|].
        right. exists w. split; [|auto]. eapply Permutation_in in Hw; [|exact Hperm].
        destruct Hw as [Hw|Hw]; [left; left; exact Hw|right; rewrite W1; exact Hw].
      + intros y Hy. rewrite W3. apply W4. eapply Permutation_in; [apply Permutation_sym; exact Hperm|].
        right. rewrite <- W1. exact Hy.
  Qed.

  Lemma step_spec s1 x s2 err : Popped s1 x -> process_one_node st_eqb cfg s1 x = (s2, err) ->
    CoreC s2 /\ s_ub s2 = s_ub s1 /\ s_lb s1 <= s_lb s2 /\ eub s2 <= eub s1 /\
    (err = false -> J s2) /\
    (err = true -> (forall o, OPTC = Some o -> o <= s_ub s2) /\ s_lb s2 <= s_ub s2).
  Proof.
    intros HP Hp. pose proof HP as (HC1 & HCompl1 & HU1 & Hub1 & Hgx & Hdx).
    destruct (process_spec_c s1 x s2 err HC1 HCompl1 Hgx Hdx Hp) as (HC2 & P1 & P2 & P3 & P4).
    assert (Hinc2 : Incumbent feasible (s_lb s2) (s_sol s2)) by apply HC2.
    assert (Hmin1 : IMIN <= s_lb s1) by apply HC1.
    split; [exact HC2|]. split; [exact P1|]. split; [exact P2|]. split; [|split].
    - assert (s_lb s2 <= eub s1).
      { apply (incumbent_le_bound _ _ _ Hinc2); [exact (popped_sound s1 x HP)|unfold eub; lia]. }
      unfold eub in *. rewrite P1. lia.
    - intros ->. destruct (P3 eq_refl) as [HCompl2 Hfr2]. split; [exact HC2|]. split; [exact HCompl2|].
      intros y Hy. rewrite P1. destruct (Hfr2 y Hy) as [Hy1|Hle]; [apply HU1; exact Hy1|lia].
    - intros ->. specialize (P4 eq_refl). rewrite P1.
      pose proof (popped_sound_strict s1 x HP P4) as Hs. split; [exact Hs|].
      apply (incumbent_le_bound _ _ _ Hinc2 Hs). lia.
  Qed.

  Lemma abort_fields (s : @sstate St) :
    s_lb (abort_search s) = s_lb s /\ s_ub (abort_search s) = s_ub s /\ s_sol (abort_search s) = s_sol s /\
    s_crash (abort_search s) = s_crash s /\ s_abort (abort_search s) = true.
  Proof. unfold abort_search, fr_clear. cbn [s_lb s_ub s_sol s_crash s_abort upd_s]. auto. Qed.

  (* along ANY run: s_lb never decreases, max(s_lb, s_ub) never increases; a run that finished (normally or by
     abort_search) ends in a state with sound bounds *)
  Lemma main_loop_spec_c : forall fuel s s' e, J s -> main_loop st_eqb cfg fuel s = (s', e) ->
    s_lb s <= s_lb s' /\ eub s' <= eub s /\ (e = Finished -> FinalA s').
  Proof.
    induction fuel as [|fuel IH]; intros s s' e HJ; cbn [main_loop].
    - intros H; inversion H; subst. split; [lia|]. split; [lia|discriminate].
    - assert (Hcr : s_crash s = false) by apply HJ. rewrite Hcr.
      destruct (get_workload_J s HJ) as [(s1 & Hgw & HF & Hab & L1 & L2)|(x & s1 & Hgw & HP & L1 & L2)]; rewrite Hgw.
      + intros H; inversion H; subst. split; [lia|]. split; [unfold eub; lia|]. intros _. exact HF.
      + destruct (process_one_node st_eqb cfg s1 x) as [s2 err] eqn:Ep.
        destruct (step_spec s1 x s2 err HP Ep) as (HC2 & Q1 & Q2 & Q3 & Q4 & Q5).
        assert (He1 : eub s1 <= eub s) by (unfold eub; lia).
        destruct err.
        * intros H; inversion H; subst. destruct (abort_fields s2) as (A1 & A2 & A3 & A4 & A5).
          split; [rewrite A1; lia|]. split; [unfold eub in *; rewrite A1, A2; lia|]. intros _.
          destruct (Q5 eq_refl) as [Hs Hle]. unfold FinalA. rewrite A1, A2, A3, A4, A5.
          split; [apply HC2|]. split; [apply HC2|]. split; [exact Hs|]. split; [exact Hle|discriminate].
        * intros H. destruct (IH _ _ _ (Q4 eq_refl) H) as (R1 & R2 & R3).
          split; [lia|]. split; [lia|exact R3].
  Qed.

  (* ------------------------------------------------------------------ initial state *)
  Lemma start_state_ub primal : s_ub (start_state cfg primal) = IMAX.
  Proof.
    destruct primal as [[v sol]|]; cbn [start_state]; [|reflexivity].
    unfold set_primal. destruct (_ >? _); reflexivity.
  Qed.

  Lemma initialize_J primal : primal_ok feasible primal ->
    J (initialize_solver st_eqb cfg (start_state cfg primal)).
  Proof.
    intros Hp. destruct (start_state_ok cfg feasible primal Hp) as (S1 & S2 & S3 & S4 & S5).
    destruct (initialize_inv st_eqb cfg0 ok0 good best feasible good_root_c opt_in_isize_c
                (start_state cfg primal) S1 S2 S3 S4 S5) as [[HCore HCompl] Hsimple].
    split; [exact HCore|]. split; [exact HCompl|].
    change (s_simple (initialize_solver st_eqb cfg (start_state cfg primal)) = [root_node cfg]) in Hsimple.
    intros n Hn. rewrite Hsimple in Hn. destruct Hn as [<-|[]].
    unfold initialize_solver, fr_push. rewrite simple_fringe_c. cbn [s_ub upd_s root_node sp_ub].
    rewrite start_state_ub. lia.
  Qed.

  (* ------------------------------------------------------------------ GOAL 1 *)
  Theorem seq_anytime_sound fuel primal : primal_ok feasible primal ->
    let r := maximize st_eqb cfg fuel primal in
    r_outoffuel r = false ->
    r_crash r = false /\
    (forall o, OPTC = Some o -> r_lb r <= o <= r_ub r) /\
    (OPTC = None -> r_value r = None /\ r_sol r = None) /\
    (forall v, r_value r = Some v ->
       r_lb r = v /\ exists sol, r_sol r = Some (sort_by dec_var_cmp sol) /\ feasible sol v) /\
    (r_exact r = true -> r_value r = OPTC).
  Proof.
    intros Hp. cbv zeta. unfold maximize. fold (start_state cfg primal).
    destruct (main_loop st_eqb cfg fuel (initialize_solver st_eqb cfg (start_state cfg primal))) as [s' e] eqn:Hml.
    cbn [r_outoffuel r_crash r_lb r_ub r_value r_sol r_exact].
    intros Hnf. assert (He : e = Finished) by (destruct e; [reflexivity|discriminate]).
    destruct (main_loop_spec_c _ _ _ _ (initialize_J primal Hp) Hml) as (_ & _ & HF).
    destruct (HF He) as (F1 & F2 & F3 & F4 & F5).
    split; [exact F1|]. split; [|split; [|split]].
    - intros o Ho. split; [exact (incumbent_le_opt _ _ o F2 Ho)|exact (F3 o Ho)].
    - intros Hnone. destruct (incumbent_none _ _ F2 Hnone) as [_ ->]. cbn [option_map]. auto.
    - intros v Hv. destruct F2 as [_ [[Hs _]|(l & Hs & Hf)]]; rewrite Hs in Hv |- *; cbn [option_map] in Hv |- *; [discriminate|].
      inversion Hv; subst v. split; [reflexivity|]. exists l. auto.
    - intros Hex. assert (Hab : s_abort s' = false) by (destruct (s_abort s'); [discriminate|reflexivity]).
      specialize (F5 Hab). destruct OPTC as [o|] eqn:Ho.
      + pose proof (incumbent_le_opt _ _ o F2 Ho) as H1. pose proof (F5 o eq_refl) as H2.
        pose proof (opt_in_isize_c o Ho) as H3.
        destruct F2 as [_ [[_ Hl]|(l & Hs & _)]]; [lia|]. rewrite Hs. cbn [option_map]. f_equal. lia.
      + destruct (incumbent_none _ _ F2 Ho) as [_ ->]. reflexivity.
  Qed.

  (* bonus: the reported interval is never empty *)
  Theorem seq_anytime_lb_le_ub fuel primal : primal_ok feasible primal ->
    let r := maximize st_eqb cfg fuel primal in
    r_outoffuel r = false -> r_lb r <= r_ub r.
  Proof.
    intros Hp. cbv zeta. unfold maximize. fold (start_state cfg primal).
    destruct (main_loop st_eqb cfg fuel (initialize_solver st_eqb cfg (start_state cfg primal))) as [s' e] eqn:Hml.
    cbn [r_outoffuel r_lb r_ub].
    intros Hnf. assert (He : e = Finished) by (destruct e; [reflexivity|discriminate]).
    destruct (main_loop_spec_c _ _ _ _ (initialize_J primal Hp) Hml) as (_ & _ & HF).
    apply (HF He).
  Qed.

  (* ------------------------------------------------------------------ run-internal monotonicity (for Goal 2) *)
  Lemma main_loop_lb_monotone fuel s s' e : J s -> main_loop st_eqb cfg fuel s = (s', e) -> s_lb s <= s_lb s'.
  Proof. intros HJ H. destruct (main_loop_spec_c _ _ _ _ HJ H) as (H1 & _). exact H1. Qed.

  (* "s_ub never increases along main_loop" is FALSE of the model (module SubCounterexample at the end of the file:
     a popped node whose sp_ub is below the incumbent lowers s_ub below s_lb, and the final `s_ub := s_lb` of
     get_workload raises it again).  What holds: max(s_lb, s_ub) never increases; s_ub stays below it; and in
     every Finished state s_lb <= s_ub, so there the reported upper bound IS max(s_lb, s_ub). *)
  Lemma main_loop_ub_monotone_partial fuel s s' e : J s -> main_loop st_eqb cfg fuel s = (s', e) ->
    Z.max (s_lb s') (s_ub s') <= Z.max (s_lb s) (s_ub s) /\ s_ub s' <= Z.max (s_lb s) (s_ub s) /\
    (e = Finished -> s_lb s' <= s_ub s').
  Proof.
    intros HJ H. destruct (main_loop_spec_c _ _ _ _ HJ H) as (_ & H2 & H3). unfold eub in H2.
    split; [exact H2|]. split; [lia|]. intros He. apply (H3 He).
  Qed.

  End Fixed.

  (* ================================================================== GOAL 2 (C19): monotonicity in the cutoff point *)
  Section Mono.
  Variable cfg : @sconfig St.
  Hypothesis cfg_c : config_c cfg.
  Hypothesis HKall : forall k, contracts (with_cutoff cfg k).
  Hypothesis HS : semantics cfg.
  Notation wc := (with_cutoff cfg).

  (* k2 cuts later than k1 (k2 = 0: never) *)
  Definition later (k1 k2 : nat) : Prop := (0 < k1)%nat /\ (k2 = 0%nat \/ (k1 <= k2)%nat).

  Lemma later_above k1 k2 B : later k1 k2 -> above B k1 -> above B k2.
  Proof. unfold later, above. intros [Hp H] [->|Hlt]; [lia|]. destruct H as [->|Hle]; [left; reflexivity|right; lia]. Qed.

  Lemma above_max_l B1 B2 k : above (Nat.max B1 B2) k -> above B1 k.
  Proof. apply (above_mono B1 (Nat.max B1 B2) k). lia. Qed.
  Lemma above_max_r B1 B2 k : above (Nat.max B1 B2) k -> above B2 k.
  Proof. apply (above_mono B2 (Nat.max B1 B2) k). lia. Qed.
  Lemma above_max B1 B2 k : above B1 k -> above B2 k -> above (Nat.max B1 B2) k.
  Proof. unfold above. intros [E|H1] [E'|H2]; [left; exact E|left; exact E|left; exact E'|right; lia]. Qed.

  (* ---------------- one compilation *)
  Lemma run_compile_agree k1 s ct n s' inp m o :
    run_compile st_eqb (wc k1) s ct n = (s', inp, m, o) -> o <> CutoffOccurred ->
    exists B, above B k1 /\
      forall k2, above B k2 -> run_compile st_eqb (wc k2) s ct n = (s', mk_input (wc k2) ct n (s_lb s), m, o).
  Proof.
    unfold run_compile. cbv zeta.
    change (mk_input (wc k1) ct n (s_lb s)) with (set_cutoff (mk_input cfg ct n (s_lb s)) k1).
    destruct (compile st_eqb (set_cutoff (mk_input cfg ct n (s_lb s)) k1) 0 0 (s_cache s) (s_dom s) (s_polls s)) as [m0 o0] eqn:E.
    intros H Hne. inversion H; subst s' inp m0 o0. clear H.
    destruct (compile_agree st_eqb _ _ _ _ _ _ _ _ _ E Hne) as (B & HB1 & HB2).
    exists B. split; [exact HB1|]. intros k2 Hab.
    change (mk_input (wc k2) ct n (s_lb s)) with (set_cutoff (mk_input cfg ct n (s_lb s)) k2).
    rewrite (HB2 k2 Hab). reflexivity.
  Qed.

  Lemma run_compile_zero s ct n s' inp m o :
    run_compile st_eqb (wc 0) s ct n = (s', inp, m, o) -> o <> CutoffOccurred.
  Proof.
    unfold run_compile. cbv zeta.
    change (mk_input (wc 0) ct n (s_lb s)) with (set_cutoff (mk_input cfg ct n (s_lb s)) 0).
    destruct (compile st_eqb (set_cutoff (mk_input cfg ct n (s_lb s)) 0) 0 0 (s_cache s) (s_dom s) (s_polls s)) as [m0 o0] eqn:E.
    intros H. inversion H; subst. eapply compile_zero. exact E.
  Qed.

  Lemma mub_inp k1 k2 (s : @sstate St) ct n lb m :
    maybe_update_best s (mk_input (wc k1) ct n lb) m = maybe_update_best s (mk_input (wc k2) ct n lb) m.
  Proof. reflexivity. Qed.

  Lemma enqueue_inp k1 k2 (s : @sstate St) ct n lb m ub :
    enqueue_cutset st_eqb (wc k1) s (mk_input (wc k1) ct n lb) m ub =
    enqueue_cutset st_eqb (wc k2) s (mk_input (wc k2) ct n lb) m ub.
  Proof. reflexivity. Qed.

  (* ---------------- unconditional facts on s_lb *)
  Lemma mub_lb_ge (s : @sstate St) inp m : s_lb s <= s_lb (maybe_update_best s inp m).
  Proof.
    unfold maybe_update_best. destruct (_ >? _) eqn:E; [|lia].
    cbn [s_lb upd_s]. rewrite Z.gtb_ltb in E. apply Z.ltb_lt in E. lia.
  Qed.

  Lemma enq_step_lb c lb ub s x : s_lb (enq_step st_eqb c lb ub s x) = s_lb s.
  Proof.
    unfold enq_step. destruct (_ >? _); [|reflexivity].
    assert (Hp : forall y, s_lb (fr_push st_eqb c s y) = s_lb s).
    { intros y. unfold fr_push. destruct (sc_nodup c); [|reflexivity].
      match goal with |- context [match ?X with Some _ => _ | None => _ end] => destruct X end; reflexivity. }
    destruct (nth_error _ _); cbn [s_lb upd_s crashed]; apply Hp.
  Qed.

  Lemma enqueue_lb c s inp m ub : s_lb (enqueue_cutset st_eqb c s inp m ub) = s_lb s.
  Proof.
    rewrite enqueue_cutset_fold. generalize (s_lb s) at 1. intros lb. generalize (drain_cutset inp m). intros cs.
    revert s. induction cs as [|x cs IH]; intros s; cbn [fold_left]; [reflexivity|]. rewrite IH. apply enq_step_lb.
  Qed.

  (* ---------------- process_one_node in two halves *)
  Definition ptail (c : @sconfig St) (sa : @sstate St) (n : @subproblem St) : @sstate St * bool :=
    let '(s, inp, m, o) := run_compile st_eqb c sa Relaxed n in
    match o with
    | Compiled =>
        let s := maybe_update_best s inp m in
        if dd_is_exact m then (s, false) else (enqueue_cutset st_eqb c s inp m (sp_ub n), false)
    | _ => (s, true)
    end.

  Lemma process_unfold k s n :
    process_one_node st_eqb (wc k) s n =
    if sp_ub n <=? s_lb s then (s, false)
    else
      let '(s, inp, m, o) := run_compile st_eqb (wc k) s Restricted n in
      match o with
      | Compiled => let s := maybe_update_best s inp m in if dd_is_exact m then (s, false) else ptail (wc k) s n
      | _ => (s, true)
      end.
  Proof.
    unfold process_one_node. change (sc_use_cache (wc k)) with (sc_use_cache cfg).
    rewrite (no_cache_c cfg cfg_c). reflexivity.
  Qed.

  Lemma ptail_lb c sa n s2 err : ptail c sa n = (s2, err) -> s_lb sa <= s_lb s2.
  Proof.
    unfold ptail. destruct (run_compile st_eqb c sa Relaxed n) as [[[sb0 inpb] mb] ob] eqn:Eb.
    apply run_compile_spec in Eb. destruct Eb as (_ & _ & _ & _ & R3 & _).
    destruct ob; [|intros H; inversion H; subst; lia..].
    cbv zeta. pose proof (mub_lb_ge sb0 inpb mb) as Hm.
    destruct (dd_is_exact mb); intros H; inversion H; subst; [lia|]. rewrite enqueue_lb. lia.
  Qed.

  Lemma process_lb k s n s2 err : process_one_node st_eqb (wc k) s n = (s2, err) -> s_lb s <= s_lb s2.
  Proof.
    rewrite process_unfold. destruct (_ <=? _); [intros H; inversion H; subst; lia|].
    destruct (run_compile st_eqb (wc k) s Restricted n) as [[[sa0 inpa] ma] oa] eqn:Ea.
    apply run_compile_spec in Ea. destruct Ea as (_ & _ & _ & _ & R3 & _).
    destruct oa; [|intros H; inversion H; subst; lia..].
    cbv zeta. pose proof (mub_lb_ge sa0 inpa ma) as Hm.
    destruct (dd_is_exact ma); [intros H; inversion H; subst; lia|].
    intros H. apply ptail_lb in H. lia.
  Qed.

  Lemma above_zero k : above 0 k.
  Proof. destruct k; [left; reflexivity|right; lia]. Qed.

  (* ---------------- prefix / determinism at the level of one node.
     Either no compilation of the k1-run was cut, and then every cutoff above the polls it tested replays it
     exactly; or the k1-run was cut (err = true) and any later cutoff sees at least the same incumbent. *)
  Lemma ptail_cases k1 sa n s2a erra : ptail (wc k1) sa n = (s2a, erra) ->
    (exists B, above B k1 /\ forall k2, above B k2 -> ptail (wc k2) sa n = (s2a, erra))
    \/ (k1 <> 0%nat /\ erra = true /\ s_lb s2a = s_lb sa).
  Proof.
    unfold ptail. destruct (run_compile st_eqb (wc k1) sa Relaxed n) as [[[sb0 inpb] mb] ob] eqn:Eb.
    pose proof (run_compile_spec _ _ _ _ _ _ _ _ _ Eb) as (Hinp & _ & _ & _ & R3 & _).
    assert (Hcut : ob = CutoffOccurred -> k1 <> 0%nat).
    { intros -> ->. exact (run_compile_zero _ _ _ _ _ _ _ Eb eq_refl). }
    destruct ob.
    - destruct (run_compile_agree _ _ _ _ _ _ _ _ Eb) as (B & HB1 & HB2); [discriminate|].
      intros H. left. exists B. split; [exact HB1|]. intros k2 Hab. rewrite (HB2 k2 Hab). subst inpb.
      cbv zeta in H |- *. rewrite (mub_inp k2 k1), (enqueue_inp k2 k1). exact H.
    - intros H. inversion H; subst s2a erra. right. split; [apply Hcut; reflexivity|]. split; [reflexivity|exact R3].
    - destruct (run_compile_agree _ _ _ _ _ _ _ _ Eb) as (B & HB1 & HB2); [discriminate|].
      intros H. left. exists B. split; [exact HB1|]. intros k2 Hab. rewrite (HB2 k2 Hab). exact H.
  Qed.

  Lemma process_cases k1 s n s2a erra : process_one_node st_eqb (wc k1) s n = (s2a, erra) ->
    (exists B, above B k1 /\ forall k2, above B k2 -> process_one_node st_eqb (wc k2) s n = (s2a, erra))
    \/ (k1 <> 0%nat /\ erra = true /\
        forall k2 s2b errb, later k1 k2 -> process_one_node st_eqb (wc k2) s n = (s2b, errb) -> s_lb s2a <= s_lb s2b).
  Proof.
    rewrite process_unfold. destruct (sp_ub n <=? s_lb s) eqn:Eskip.
    { intros H. left. exists O. split; [apply above_zero|]. intros k2 _. rewrite process_unfold, Eskip. exact H. }
    destruct (run_compile st_eqb (wc k1) s Restricted n) as [[[sa0 inpa] ma] oa] eqn:Ea.
    pose proof (run_compile_spec _ _ _ _ _ _ _ _ _ Ea) as (Hinp & _ & _ & _ & R3 & _).
    assert (Hcut : oa = CutoffOccurred -> k1 <> 0%nat).
    { intros -> ->. exact (run_compile_zero _ _ _ _ _ _ _ Ea eq_refl). }
    destruct oa.
    - destruct (run_compile_agree _ _ _ _ _ _ _ _ Ea) as (B1 & HB1 & HB2); [discriminate|].
      subst inpa. cbv zeta. destruct (dd_is_exact ma) eqn:Eex.
      + intros H. left. exists B1. split; [exact HB1|]. intros k2 Hab.
        rewrite process_unfold, Eskip, (HB2 k2 Hab). cbv zeta. rewrite (mub_inp k2 k1), Eex. exact H.
      + intros H. destruct (ptail_cases _ _ _ _ _ H) as [(B2 & HC1 & HC2)|(Hk & He & Hl)].
        * left. exists (Nat.max B1 B2). split; [apply above_max; assumption|]. intros k2 Hab.
          rewrite process_unfold, Eskip, (HB2 k2 (above_max_l _ _ _ Hab)). cbv zeta. rewrite (mub_inp k2 k1), Eex.
          apply HC2. exact (above_max_r _ _ _ Hab).
        * right. split; [exact Hk|]. split; [exact He|]. intros k2 s2b errb Hlat.
          rewrite process_unfold, Eskip, (HB2 k2 (later_above _ _ _ Hlat HB1)). cbv zeta. rewrite (mub_inp k2 k1), Eex.
          intros H2. apply ptail_lb in H2. lia.
    - intros H. inversion H; subst s2a erra. right. split; [apply Hcut; reflexivity|]. split; [reflexivity|].
      intros k2 s2b errb _ H2. apply process_lb in H2. lia.
    - destruct (run_compile_agree _ _ _ _ _ _ _ _ Ea) as (B1 & HB1 & HB2); [discriminate|].
      intros H. left. exists B1. split; [exact HB1|]. intros k2 Hab.
      rewrite process_unfold, Eskip, (HB2 k2 Hab). exact H.
  Qed.

  Lemma get_workload_cutoff k1 k2 s : get_workload st_eqb (wc k1) s = get_workload st_eqb (wc k2) s.
  Proof. reflexivity. Qed.

  (* ---------------- instances of the Goal-1 lemmas at cutoff k (the invariants do not mention the cutoff) *)
  Ltac inst := first [exact cfg_c | exact (HKall _) | exact HS].

  Lemma get_workload_J_k k s : J cfg s ->
    (exists s1, get_workload st_eqb (wc k) s = (s1, WComplete) /\ FinalA cfg s1 /\ s_abort s1 = false /\
                s_lb s1 = s_lb s /\ s_ub s1 = s_lb s)
    \/ (exists x s1, get_workload st_eqb (wc k) s = (s1, WItem x) /\ Popped cfg s1 x /\ s_lb s1 = s_lb s /\ s_ub s1 <= s_ub s).
  Proof. apply (get_workload_J (wc k)); inst. Qed.

  Lemma step_spec_k k s1 x s2 err : Popped cfg s1 x -> process_one_node st_eqb (wc k) s1 x = (s2, err) ->
    Core cfg good feasible s2 /\ s_ub s2 = s_ub s1 /\ s_lb s1 <= s_lb s2 /\ eub s2 <= eub s1 /\
    (err = false -> J cfg s2) /\
    (err = true -> (forall o, OPT cfg best = Some o -> o <= s_ub s2) /\ s_lb s2 <= s_ub s2).
  Proof. apply (step_spec (wc k)); inst. Qed.

  Lemma main_loop_spec_k k fuel s s' e : J cfg s -> main_loop st_eqb (wc k) fuel s = (s', e) ->
    s_lb s <= s_lb s' /\ eub s' <= eub s /\ (e = Finished -> FinalA cfg s').
  Proof. apply (main_loop_spec_c (wc k)); inst. Qed.

  Lemma initialize_J_k primal : primal_ok feasible primal ->
    J cfg (initialize_solver st_eqb cfg (start_state cfg primal)).
  Proof. apply (initialize_J cfg); inst. Qed.

  (* ---------------- the uninterrupted run is replayed by every large enough cutoff *)
  Lemma main_loop_agree0 : forall fuel s s' e, main_loop st_eqb (wc 0) fuel s = (s', e) ->
    exists B, forall k2, above B k2 -> main_loop st_eqb (wc k2) fuel s = (s', e).
  Proof.
    induction fuel as [|fuel IH]; intros s s' e H.
    - exists O. intros k2 _. exact H.
    - cbn [main_loop] in H. destruct (s_crash s) eqn:Ecr.
      { exists O. intros k2 _. cbn [main_loop]. rewrite Ecr. exact H. }
      destruct (get_workload st_eqb (wc 0) s) as [s1 w] eqn:Eg.
      destruct w as [| |x].
      + exists O. intros k2 _. cbn [main_loop]. rewrite Ecr, (get_workload_cutoff k2 0), Eg. exact H.
      + exists O. intros k2 _. cbn [main_loop]. rewrite Ecr, (get_workload_cutoff k2 0), Eg. exact H.
      + destruct (process_one_node st_eqb (wc 0) s1 x) as [s2 err] eqn:Ep.
        destruct (process_cases _ _ _ _ _ Ep) as [(B1 & _ & HB)|(Hk & _)]; [|contradiction Hk; reflexivity].
        destruct err.
        * exists B1. intros k2 Hab. cbn [main_loop]. rewrite Ecr, (get_workload_cutoff k2 0), Eg, (HB k2 Hab). exact H.
        * destruct (IH _ _ _ H) as (B2 & HB2). exists (Nat.max B1 B2). intros k2 Hab. cbn [main_loop].
          rewrite Ecr, (get_workload_cutoff k2 0), Eg, (HB k2 (above_max_l _ _ _ Hab)).
          apply HB2. exact (above_max_r _ _ _ Hab).
  Qed.

  (* ---------------- a later cutoff gives bounds that are at least as tight *)
  Lemma main_loop_sim k1 k2 : later k1 k2 -> forall fuel s sa ea sb eb, J cfg s ->
    main_loop st_eqb (wc k1) fuel s = (sa, ea) -> main_loop st_eqb (wc k2) fuel s = (sb, eb) ->
    s_lb sa <= s_lb sb /\ s_ub sb <= s_ub sa.
  Proof.
    intros Hlat. induction fuel as [|fuel IH]; intros s sa ea sb eb HJ Ha Hb.
    - cbn [main_loop] in Ha, Hb. inversion Ha; inversion Hb; subst. lia.
    - cbn [main_loop] in Ha, Hb. assert (Hcr : s_crash s = false) by apply HJ. rewrite Hcr in Ha, Hb.
      rewrite (get_workload_cutoff k2 k1) in Hb.
      destruct (get_workload_J_k k1 s HJ) as [(s1 & Hgw & _)|(x & s1 & Hgw & HP & L1 & L2)]; rewrite Hgw in Ha, Hb.
      + inversion Ha; inversion Hb; subst. lia.
      + destruct (process_one_node st_eqb (wc k1) s1 x) as [s2a erra] eqn:Epa.
        destruct (process_one_node st_eqb (wc k2) s1 x) as [s2b errb] eqn:Epb.
        destruct (step_spec_k k1 _ _ _ _ HP Epa) as (HCa & A1 & A2 & A3 & A4 & A5).
        destruct (step_spec_k k2 _ _ _ _ HP Epb) as (HCb & B1 & B2 & B3 & B4 & B5).
        destruct (process_cases _ _ _ _ _ Epa) as [(B & HBk & HB)|(Hk & He & Hlb)].
        * (* the k1-run was not cut on this node: same step in both runs *)
          rewrite (HB k2 (later_above _ _ _ Hlat HBk)) in Epb. inversion Epb; subst s2b errb.
          destruct erra.
          -- inversion Ha; inversion Hb; subst. lia.
          -- exact (IH _ _ _ _ _ (A4 eq_refl) Ha Hb).
        * (* the k1-run stops here *)
          subst erra. inversion Ha; subst sa ea. clear Ha.
          destruct (abort_fields s2a) as (Fa1 & Fa2 & _). rewrite Fa1, Fa2, A1.
          specialize (Hlb k2 s2b errb Hlat Epb).
          destruct (A5 eq_refl) as [Hsound Hle].
          destruct errb.
          -- inversion Hb; subst sb eb. destruct (abort_fields s2b) as (Fb1 & Fb2 & _). rewrite Fb1, Fb2, B1. lia.
          -- destruct (main_loop_spec_k k2 _ _ _ _ (B4 eq_refl) Hb) as (R1 & R2 & _).
             assert (Hinc : Incumbent feasible (s_lb s2b) (s_sol s2b)) by apply HCb.
             assert (Hmin : IMIN <= s_lb s2a) by apply HCa.
             assert (Hb2 : s_lb s2b <= s_ub s1).
             { rewrite A1 in Hsound, Hle.
               destruct (OPT cfg best) as [o|] eqn:Ho.
               - pose proof (incumbent_le_opt cfg HS _ _ o Hinc Ho). specialize (Hsound o eq_refl). lia.
               - destruct (incumbent_none cfg HS _ _ Hinc Ho) as [-> _]. lia. }
             unfold eub in R2. rewrite B1 in R2. lia.
  Qed.

  (* ================================================================== main statements of Goal 2 *)
  Definition R (k fuel : nat) (primal : option (Z * list decision)) : sresult := maximize st_eqb (wc k) fuel primal.

  Lemma R_unfold k fuel primal :
    R k fuel primal =
    let '(s, e) := main_loop st_eqb (wc k) fuel (initialize_solver st_eqb cfg (start_state cfg primal)) in
    let sol := option_map (sort_by dec_var_cmp) (s_sol s) in
    {| r_exact := negb (s_abort s);
       r_value := match sol with Some _ => Some (s_lb s) | None => None end;
       r_lb := s_lb s; r_ub := s_ub s; r_sol := sol; r_explored := s_explored s; r_polls := s_polls s;
       r_crash := s_crash s; r_tie := s_tie s;
       r_outoffuel := match e with RanOutOfFuel => true | Finished => false end; r_compiles := s_compiles s |}.
  Proof. reflexivity. Qed.

  (* C19 (i): cutting later never loosens the bounds.  k2 = 0 (no cutoff at all) is allowed; no assumption on fuel *)
  Theorem cutoff_monotone_gen k1 k2 fuel primal : primal_ok feasible primal -> later k1 k2 ->
    r_lb (R k1 fuel primal) <= r_lb (R k2 fuel primal) /\ r_ub (R k2 fuel primal) <= r_ub (R k1 fuel primal).
  Proof.
    intros Hp Hlat. rewrite !R_unfold.
    destruct (main_loop st_eqb (wc k1) fuel _) as [sa ea] eqn:Ea.
    destruct (main_loop st_eqb (wc k2) fuel _) as [sb eb] eqn:Eb.
    cbn [r_lb r_ub]. exact (main_loop_sim k1 k2 Hlat _ _ _ _ _ _ (initialize_J_k primal Hp) Ea Eb).
  Qed.

  Theorem cutoff_monotone k fuel primal : primal_ok feasible primal -> (1 <= k)%nat ->
    r_lb (R k fuel primal) <= r_lb (R (S k) fuel primal) /\ r_ub (R (S k) fuel primal) <= r_ub (R k fuel primal).
  Proof. intros Hp Hk. apply cutoff_monotone_gen; [exact Hp|]. split; [lia|right; lia]. Qed.

  (* C19 (ii): beyond some cutoff value the run IS the uninterrupted run, in every result field *)
  Theorem cutoff_eventually_full fuel primal :
    exists K, forall k, (K < k)%nat -> R k fuel primal = R 0 fuel primal.
  Proof.
    destruct (main_loop st_eqb (wc 0) fuel (initialize_solver st_eqb cfg (start_state cfg primal))) as [s e] eqn:E0.
    destruct (main_loop_agree0 _ _ _ _ E0) as (B & HB).
    exists B. intros k Hk. rewrite !R_unfold. rewrite E0, (HB k (or_intror Hk)). reflexivity.
  Qed.

  End Mono.
End Anytime.

(* ================================================================== why "s_ub never increases" is only _partial
   A concrete 3-variable model (states are integers), width 1, CleanLEL, SimpleFringe, no cache, no cutoff:
     root 0 --x0=0 (0)--> A=1 --x1=0 (9)--> 3 --x2=0 (0)--> 6               best completion of A : 9
     root 0 --x0=1 (0)--> B=2 --x1=0 (6)--> 5 --x2=0 (-1)--> 6              best completion of B : 8
                          B=2 --x1=1 (2)--> 8 --x2=0 (6)--> 6
   fast upper bounds: A 10, B 8 (both admissible), 100 elsewhere; merge = state 7, relax = identity on costs.
   Run: the root yields incumbent 5 and the cut-set {A (ub 10), B (ub 8)}; A is popped (s_ub = 10), its restricted
   diagram is exact and raises s_lb to 9; B is popped (s_ub := 8 < s_lb = 9) and skipped; the fringe is empty and
   get_workload sets s_ub := s_lb = 9.  So s_ub goes IMAX, 10, 8, 9. *)
Module SubCounterexample.
  Definition ce_pb : @problem Z := {|
    nb_vars := 3; init_state := 0; init_value := 0;
    transition := fun s d =>
      if s =? 0 then (if d_val d =? 0 then 1 else 2)
      else if s =? 1 then 3
      else if s =? 2 then (if d_val d =? 0 then 5 else 8)
      else 6;
    transition_cost := fun s _ d =>
      if s =? 1 then 9
      else if s =? 2 then (if d_val d =? 0 then 6 else 2)
      else if s =? 5 then -1
      else if s =? 8 then 6
      else if s =? 7 then 6
      else 0;
    next_variable := fun depth _ => if Nat.ltb depth 3 then Some depth else None;
    domain := fun var s => if (Nat.eqb var 0) || (Nat.eqb var 1 && (s =? 2)) then [0; 1] else [0];
    is_impacted_by := fun _ _ => true |}.

  Definition ce_rlx : @relaxation Z := {|
    merge := fun _ => 7;
    relax := fun _ _ _ _ c => c;
    fast_upper_bound := fun s => if s =? 1 then 10 else if s =? 2 then 8 else 100 |}.

  Definition ce_cfg : @sconfig Z := {|
    sc_flavour := CleanLEL; sc_problem := ce_pb; sc_relax := ce_rlx; sc_ranking := Z.compare;
    sc_domcmp := fun a _ b _ => Z.compare a b; sc_domrule := None; sc_width := 1; sc_use_cache := false;
    sc_nodup := false; sc_cutoff := 0 |}.

  Definition ce_start : @sstate Z := initialize_solver Z.eqb ce_cfg (init_sstate ce_cfg).
  Definition ce_after (fuel : nat) : Z * Z * bool :=
    let '(s, e) := main_loop Z.eqb ce_cfg fuel ce_start in
    (s_lb s, s_ub s, match e with Finished => true | RanOutOfFuel => false end).

  Lemma ce_config : config_c ce_cfg.
  Proof. repeat split. Qed.

  (* (s_lb, s_ub, finished?) after 1, 2, 3, 4 iterations of main_loop *)
  Example s_ub_not_monotone :
    ce_after 1 = (5, IMAX, false) /\ ce_after 2 = (9, 10, false) /\ ce_after 3 = (9, 8, false) /\ ce_after 4 = (9, 9, true).
  Proof. vm_compute. repeat split. Qed.

  (* the run as a whole is fine: exact, value 9, no crash *)
  Example ce_result :
    let r := maximize Z.eqb ce_cfg 10 None in
    (r_exact r, r_value r, r_lb r, r_ub r, r_crash r, r_outoffuel r) = (true, Some 9, 9, 9, false, false).
  Proof. vm_compute. reflexivity. Qed.
End SubCounterexample.

Print Assumptions compile_agree.
Print Assumptions seq_anytime_sound.
Print Assumptions seq_anytime_lb_le_ub.
Print Assumptions main_loop_lb_monotone.
Print Assumptions main_loop_ub_monotone_partial.
Print Assumptions cutoff_monotone_gen.
Print Assumptions cutoff_monotone.
Print Assumptions cutoff_eventually_full.
Print Assumptions SubCounterexample.s_ub_not_monotone.
