(* MddProgress.v — the STRUCTURAL contracts of SolverProofs.v (K0, K1, K3_good, K3_depth, K5) proved about
   Mdd.compile for the clean flavours (CleanLEL, CleanFC), without cache, dominance rule or cutoff, for
   a static variable order.  (K2, K3_ub, K4 — the bound / simulation contracts — are not treated here.)

   Section hypotheses (section Progress, about the compilation input [inp]):
     st_eqb_spec  : forall a b, st_eqb a b = true <-> a = b
     Hclean       : ci_flavour inp = CleanLEL \/ ci_flavour inp = CleanFC
     Hnocache     : ci_use_cache inp = false          Hnodom : ci_domrule inp = None
     Hnocut       : ci_cutoff inp = 0                 Hwidth : 1 <= ci_width inp
     nv_some      : forall k l, k < N -> exists x, next_variable pb k l = Some x
     nv_none      : forall k l, N <= k -> next_variable pb k l = None
     Hroot_depth  : sp_depth root <= N
     dom_bound    : forall x s, length (domain pb x s) <= D            (only for the size bound, K5)
   nv_static (next_variable does not look at the layer) is declared for documentation only: no proof
   uses it, nv_some / nv_none already quantify over every layer content.
   Every theorem below depends on all of st_eqb_spec .. Hroot_depth (through compile_unfold), and on
   nothing else; cutset_size_bound / compile_node_count additionally on dom_bound.

   Main results (for compile st_eqb inp tb tb2 c ds polls = (m, out)):
     P0  compile_completes           out = Compiled /\ m_crash m = false
     P1  compile_node_depth          id < length (m_nodes m) -> sp_depth root <= n_depth <= N
         compile_layer_depth         the nodes of layer i have depth sp_depth root + i (and are in range)
         compile_next_depth          the nodes of the terminal layer m_next have depth N
         compile_best_depth          m_best m = Some b \/ m_best_exact m = Some b -> depth of b is N
         compile_layers_count        length (m_layers m) <= S N
     P2  cutset_depth                ci_type inp = Relaxed -> every sp of drain_cutset has
                                     sp_depth root < sp_depth sp <= N   (dd_is_exact m = false not needed)
     P3  cutset_nodup                NoDup (m_cutset m)
         compile_node_count          (Relaxed) length (m_nodes m) <= Mbound
         cutset_size_bound           (Relaxed) length (drain_cutset inp m) <= Mbound,
                                     Mbound = 3 + D + D*D + N * (1 + ci_width inp * D)
     P4  good / feasible (section Semantics), good_set_ub_holds, good_root_node_gen,
         cutset_good, best_exact_feasible    (both assume good pb root)
   and, in section Assembly, the same in the exact shape of the hypotheses of SolverProofs.v for
   inp = mk_input cfg ct n lb:  good_root_holds, K0_holds, K1_holds, K3_good_holds, K3_depth_holds, K5_holds
   (hypotheses: st_eqb_spec, config_ok cfg, cfg_clean, cfg_width, cfg_nv_some, cfg_nv_none, and
   cfg_dom_bound for K5_holds with M := Kbound).
   No statement had to be weakened (no _partial).  Stdlib only; no axioms.

   Plan: 1. growth relation [keep]   2. depth invariant [Pinv] and its preservation by append_edge,
   branch_on, expand_node, the filters, restrict / relax   3. loop invariant [Linv], one iteration
   4. layer_loop ends with LoopDone   5-8. _finalize   9. theorems   10. sizes   11. semantics   12. K*. *)
Require Import DDO.Base DDO.Fringe DDO.DP DDO.Cache DDO.Dom DDO.Mdd DDO.Viz DDO.MddStruct DDO.MddExact DDO.Solver
               DDO.SolverProofs.
From Coq Require Import Lia List Arith ZArith Bool Permutation.
Import ListNotations.
Open Scope nat_scope.

(* ------------------------------------------------------------------ tactics: record projections *)
Local Ltac msimpl :=
  cbn [m_nodes m_edges m_layers m_layer_end m_next m_curr_depth m_path m_lel m_cutset m_best
       m_best_exact m_is_exact m_has_ebp m_cache m_dom m_log m_polls m_crash
       with_nodes upd_node add_log set_crash with_next with_cache with_dom with_lel_exact
       push_layer with_depth with_polls with_best with_cutset append_edge].
Local Ltac msimpl_in H :=
  cbn [m_nodes m_edges m_layers m_layer_end m_next m_curr_depth m_path m_lel m_cutset m_best
       m_best_exact m_is_exact m_has_ebp m_cache m_dom m_log m_polls m_crash
       with_nodes upd_node add_log set_crash with_next with_cache with_dom with_lel_exact
       push_layer with_depth with_polls with_best with_cutset append_edge] in H.
Local Ltac nsimpl :=
  cbn [n_state n_vtop n_vbot n_best n_inb n_rub n_theta n_flags n_depth
       set_flags set_theta set_vbot set_rub set_depth
       f_exact f_relaxed f_marked f_cutset f_deleted f_cache f_above
       fl_set_exact fl_set_relaxed fl_set_marked fl_set_cutset fl_set_deleted fl_set_cache fl_set_above
       fl_new_exact fl_new_relaxed e_from e_to e_dec e_cost].
Local Ltac nsimpl_in H :=
  cbn [n_state n_vtop n_vbot n_best n_inb n_rub n_theta n_flags n_depth
       set_flags set_theta set_vbot set_rub set_depth
       f_exact f_relaxed f_marked f_cutset f_deleted f_cache f_above
       fl_set_exact fl_set_relaxed fl_set_marked fl_set_cutset fl_set_deleted fl_set_cache fl_set_above
       fl_new_exact fl_new_relaxed e_from e_to e_dec e_cost] in H.

(* ------------------------------------------------------------------ generic list facts *)
Lemma fold_inv {A B} (P : A -> Prop) (f : A -> B -> A) (l : list B) (a : A) :
  P a -> (forall a x, In x l -> P a -> P (f a x)) -> P (fold_left f l a).
Proof.
  revert a; induction l as [|y l IH]; intros a Ha Hstep; simpl; auto.
  apply IH.
  - apply Hstep; simpl; auto.
  - intros a' x Hx Ha'; apply Hstep; simpl; auto.
Qed.

Lemma NoDup_bounded_length (l : list nat) (n : nat) :
  NoDup l -> (forall x, In x l -> x < n) -> length l <= n.
Proof.
  intros Hnd Hb.
  assert (H : incl l (seq 0 n)) by (intros x Hx; apply in_seq; specialize (Hb x Hx); lia).
  pose proof (NoDup_incl_length Hnd H) as Hl. rewrite seq_length in Hl. exact Hl.
Qed.

Lemma flat_map_length_le {A B} (f : A -> list B) (l : list A) :
  (forall x, length (f x) <= 1) -> length (flat_map f l) <= length l.
Proof.
  intros Hf. induction l as [|x l IH]; simpl; auto.
  rewrite app_length. specialize (Hf x). lia.
Qed.

(* ------------------------------------------------------------------ the abstract semantics used by SolverProofs.v
   a sub-problem is [good] when its path is (a permutation of) a decision sequence that replays, through
   the user's model and with the saturating accumulation of the code, from the initial state to the
   sub-problem's state and value; a solution is [feasible] with value v when it is (a permutation of) a
   complete decision sequence replaying to value v *)
Section Semantics.
  Context {St : Type}.
  Variable P : problem St.

  Definition good (n : @subproblem St) : Prop :=
    sp_depth n <= nb_vars P /\
    exists ds, length ds = sp_depth n /\ Permutation ds (sp_path n) /\
               replay_sat P ds (init_state P) (init_value P) = Some (sp_state n, sp_value n).

  Definition feasible (sol : list decision) (v : Z) : Prop :=
    exists ds st, length ds = nb_vars P /\ Permutation ds sol /\
                  replay_sat P ds (init_state P) (init_value P) = Some (st, v).

  (* [good] does not look at the upper bound attached to the sub-problem *)
  Lemma good_set_ub_holds (c : @subproblem St) (u : Z) : good c -> good (set_ub c u).
  Proof. intros H. exact H. Qed.

  Lemma good_root_node_gen (r : @subproblem St) :
    sp_state r = init_state P -> sp_value r = init_value P -> sp_path r = [] -> sp_depth r = 0 -> good r.
  Proof.
    intros H1 H2 H3 H4. split; [lia|]. exists []. rewrite H3, H4, H1, H2. repeat split. constructor.
  Qed.
End Semantics.

Section Progress.
  Context {St : Type}.
  Variable st_eqb : St -> St -> bool.
  Hypothesis st_eqb_spec : forall a b, st_eqb a b = true <-> a = b.
  Variable inp : @cinput St.

  Notation mdd := (@mdd St).
  Notation node := (@node St).
  Notation gn := (get_node inp).
  Notation pb := (ci_problem inp).
  Notation root := (ci_root inp).
  Notation N := (nb_vars (ci_problem inp)).
  Notation d0 := (sp_depth (ci_root inp)).
  Notation W := (ci_width inp).

  Hypothesis Hclean : ci_flavour inp = CleanLEL \/ ci_flavour inp = CleanFC.
  Hypothesis Hnocache : ci_use_cache inp = false.
  Hypothesis Hnodom : ci_domrule inp = None.
  Hypothesis Hnocut : ci_cutoff inp = 0.
  Hypothesis Hwidth : 1 <= ci_width inp.
  (* static variable order *)
  Hypothesis nv_static : forall k l1 l2, next_variable pb k l1 = next_variable pb k l2.
  Hypothesis nv_some : forall k l, k < N -> exists x, next_variable pb k l = Some x.
  Hypothesis nv_none : forall k l, N <= k -> next_variable pb k l = None.
  Hypothesis Hroot_depth : d0 <= N.

  Lemma not_pooled' : is_pooled (ci_flavour inp) = false.
  Proof. destruct Hclean as [H|H]; rewrite H; reflexivity. Qed.

  (* ================================================================== 1. the growth relation [keep]
     crash flag, depths of existing nodes, existing edges, layer bookkeeping are untouched *)
  Record keep (m m' : mdd) : Prop := {
    k_crash : m_crash m' = m_crash m;
    k_len : length (m_nodes m) <= length (m_nodes m');
    k_depth : forall id, id < length (m_nodes m) -> n_depth (gn m' id) = n_depth (gn m id);
    k_elen : length (m_edges m) <= length (m_edges m');
    k_edge : forall eid, eid < length (m_edges m) -> get_edge m' eid = get_edge m eid;
    k_lend : m_layer_end m' = m_layer_end m;
    k_layers : m_layers m' = m_layers m;
    k_cd : m_curr_depth m' = m_curr_depth m }.

  Lemma keep_refl m : keep m m.
  Proof. split; auto. Qed.

  Lemma keep_trans m1 m2 m3 : keep m1 m2 -> keep m2 m3 -> keep m1 m3.
  Proof.
    intros [A1 A2 A3 A4 A5 A6 A7 A8] [B1 B2 B3 B4 B5 B6 B7 B8]. split; try congruence; try lia.
    - intros id Hid. rewrite B3 by lia. apply A3; exact Hid.
    - intros eid He. rewrite B5 by lia. apply A5; exact He.
  Qed.

  Lemma keep_fold {B} (f : mdd -> B -> mdd) (l : list B) (m : mdd) :
    (forall a x, keep a (f a x)) -> keep m (fold_left f l m).
  Proof.
    intros Hf. apply (fold_inv (fun a => keep m a)); [apply keep_refl|].
    intros a x _ Ha. eapply keep_trans; eauto.
  Qed.

  (* any update that leaves nodes, edges and the bookkeeping fields alone *)
  Lemma keep_same (m m' : mdd) :
    m_nodes m' = m_nodes m -> m_edges m' = m_edges m -> m_crash m' = m_crash m ->
    m_layer_end m' = m_layer_end m -> m_layers m' = m_layers m -> m_curr_depth m' = m_curr_depth m ->
    keep m m'.
  Proof.
    intros H1 H2 H3 H4 H5 H6. split; auto; try (rewrite ?H1, ?H2; lia).
    - intros id _. unfold get_node. rewrite H1. reflexivity.
    - intros eid _. unfold get_edge. rewrite H2. reflexivity.
  Qed.

  Lemma keep_add_log (m : mdd) ev : keep m (add_log m ev).
  Proof. apply keep_same; reflexivity. Qed.
  Lemma keep_with_next (m : mdd) nx : keep m (with_next m nx).
  Proof. apply keep_same; reflexivity. Qed.
  Lemma keep_with_lel_exact (m : mdd) l x : keep m (with_lel_exact m l x).
  Proof. apply keep_same; reflexivity. Qed.
  Lemma keep_with_polls (m : mdd) p : keep m (with_polls m p).
  Proof. apply keep_same; reflexivity. Qed.
  Lemma keep_with_best (m : mdd) b be : keep m (with_best m b be).
  Proof. apply keep_same; reflexivity. Qed.
  Lemma keep_with_cutset (m : mdd) cs : keep m (with_cutset m cs).
  Proof. apply keep_same; reflexivity. Qed.

  Lemma keep_upd_node (m : mdd) id f :
    (forall n, n_depth (f n) = n_depth n) -> keep m (upd_node m id f).
  Proof.
    intros Hf. split; msimpl; auto; try (rewrite upd_nth_length; lia).
    intros k Hk. destruct (Nat.eq_dec id k) as [-> |Hne].
    - rewrite gn_upd_same by exact Hk. apply Hf.
    - rewrite gn_upd_other by exact Hne. reflexivity.
  Qed.

  Lemma keep_snoc (m : mdd) n : keep m (with_nodes m (m_nodes m ++ [n])).
  Proof.
    split; msimpl; auto; try (rewrite app_length; simpl; lia).
    intros k Hk. rewrite gn_snoc_old by exact Hk. reflexivity.
  Qed.

  Lemma append_edge_depth (m : mdd) e k : n_depth (gn (append_edge inp m e) k) = n_depth (gn m k).
  Proof.
    destruct (Nat.lt_ge_cases (e_to e) (length (m_nodes m))) as [Ht|Ht].
    - destruct (Nat.eq_dec k (e_to e)) as [-> |Hne].
      + rewrite gn_append_same by exact Ht. reflexivity.
      + rewrite gn_append_other by exact Hne. reflexivity.
    - unfold get_node. msimpl. rewrite upd_nth_out by exact Ht. reflexivity.
  Qed.

  Lemma keep_append_edge (m : mdd) e : keep m (append_edge inp m e).
  Proof.
    destruct (append_edge_proj inp m e) as (E1 & E2 & E3 & E4 & E5 & E6 & E7 & E8 & E9 & E10 & E11 & E12).
    split; auto; try lia.
    - intros id _. apply append_edge_depth.
    - rewrite E1, app_length. simpl. lia.
    - intros eid He. eapply ge_snoc_old; eauto.
  Qed.

  (* ================================================================== 2. the depth invariant
     [dn] is the depth of the open nodes (those at or above m_layer_end) *)
  Record Pinv (dn : nat) (m : mdd) : Prop := {
    P_depth : forall id, id < length (m_nodes m) -> d0 <= n_depth (gn m id) <= dn;
    P_inb : forall id eid, id < length (m_nodes m) -> In eid (n_inb (gn m id)) ->
            eid < length (m_edges m) /\ e_from (get_edge m eid) < length (m_nodes m) /\
            S (n_depth (gn m (e_from (get_edge m eid)))) = n_depth (gn m id);
    P_shallow : forall id, id < length (m_nodes m) -> n_depth (gn m id) <= S d0 ->
            fl_is_exact (n_flags (gn m id)) = true;
    P_open : forall id, m_layer_end m <= id -> id < length (m_nodes m) -> n_depth (gn m id) = dn;
    P_next : forall id, In id (m_next m) -> m_layer_end m <= id /\ id < length (m_nodes m);
    P_le : m_layer_end m <= length (m_nodes m) }.

  Lemma Pinv_peq dn (m m' : mdd) :
    peq inp m m' -> m_next m' = m_next m -> m_layer_end m' = m_layer_end m -> Pinv dn m -> Pinv dn m'.
  Proof.
    intros (A1 & A2 & A3 & A4) Hn Hl [P1 P2 P3 P4 P5 P6].
    assert (Hd : forall k, n_depth (gn m' k) = n_depth (gn m k)).
    { intros k. destruct (A4 k) as (_ & _ & _ & _ & _ & _ & c7). congruence. }
    split.
    - intros id Hid. rewrite Hd. apply P1. lia.
    - intros id eid Hid Hin. rewrite A3 in Hid.
      destruct (A4 id) as (_ & _ & _ & c4 & _). rewrite <- c4 in Hin.
      rewrite A1, A3, !Hd. unfold get_edge. rewrite A1. apply P2; auto.
    - intros id Hid Hs. rewrite A3 in Hid. rewrite Hd in Hs.
      rewrite <- (core_eq_is_exact _ _ (A4 id)). apply P3; auto.
    - intros id H1 H2. rewrite Hd. apply P4; lia.
    - intros id Hid. rewrite Hn in Hid. rewrite Hl, A3. apply P5; exact Hid.
    - lia.
  Qed.

  Lemma Pinv_ceq dn (m m' : mdd) : ceq inp m m' -> Pinv dn m -> Pinv dn m'.
  Proof. intros (Hp & Hn & Hl & _). apply Pinv_peq; auto. Qed.

  Lemma Pinv_weaken dn dn' (m : mdd) :
    dn <= dn' -> m_layer_end m = length (m_nodes m) -> Pinv dn m -> Pinv dn' m.
  Proof.
    intros Hle Hend [P1 P2 P3 P4 P5 P6]. split; auto.
    - intros id Hid. specialize (P1 id Hid). lia.
    - intros id H1 H2. lia.
  Qed.

  Lemma Pinv_append_edge dn (m : mdd) e :
    Pinv dn m -> e_from e < length (m_nodes m) -> e_to e < length (m_nodes m) ->
    S (n_depth (gn m (e_from e))) = n_depth (gn m (e_to e)) ->
    Pinv dn (append_edge inp m e).
  Proof.
    intros [P1 P2 P3 P4 P5 P6] Hf Ht Hd.
    destruct (append_edge_proj inp m e) as (E1 & E2 & _ & E4 & E5 & _).
    split.
    - intros id Hid. rewrite E2 in Hid. rewrite append_edge_depth. auto.
    - intros id eid Hid Hin. rewrite E2 in Hid. rewrite E1, app_length, E2, !append_edge_depth. simpl.
      assert (Hold : In eid (n_inb (gn m id)) ->
                eid < length (m_edges m) + 1 /\
                e_from (get_edge (append_edge inp m e) eid) < length (m_nodes m) /\
                S (n_depth (gn m (e_from (get_edge (append_edge inp m e) eid)))) = n_depth (gn m id)).
      { intros Hin'. destruct (P2 _ _ Hid Hin') as (a & b & c).
        rewrite (ge_snoc_old m _ e eid E1 a). split; [lia|auto]. }
      destruct (Nat.eq_dec id (e_to e)) as [-> |Hne].
      + rewrite gn_append_same in Hin by exact Ht. cbv zeta in Hin. nsimpl_in Hin.
        destruct Hin as [<-|Hin]; [|auto].
        rewrite (ge_snoc_new m _ e E1). split; [lia|auto].
      + rewrite gn_append_other in Hin by exact Hne. auto.
    - intros id Hid Hs. rewrite E2 in Hid. rewrite append_edge_depth in Hs.
      destruct (Nat.eq_dec id (e_to e)) as [-> |Hne].
      + rewrite gn_append_same by exact Ht. cbv zeta. nsimpl. rewrite fl_is_exact_set_exact.
        pose proof (P3 _ Ht Hs) as Hx. rewrite Hx.
        rewrite (P3 _ Hf) by lia. simpl.
        unfold fl_is_exact in Hx. apply andb_true_iff in Hx. tauto.
      + rewrite gn_append_other by exact Hne. auto.
    - intros id H1 H2. rewrite append_edge_depth. rewrite E4 in H1. rewrite E2 in H2. auto.
    - intros id Hid. rewrite E5 in Hid. rewrite E4, E2. auto.
    - rewrite E4, E2. exact P6.
  Qed.

  Lemma Pinv_snoc dn (m : mdd) (n : node) :
    Pinv dn m -> n_depth n = dn -> d0 <= dn -> n_inb n = [] ->
    (dn <= S d0 -> fl_is_exact (n_flags n) = true) ->
    Pinv dn (with_nodes m (m_nodes m ++ [n])).
  Proof.
    intros [P1 P2 P3 P4 P5 P6] Hd Hlo Hinb Hex.
    set (m' := with_nodes m (m_nodes m ++ [n])).
    assert (Hlen : length (m_nodes m') = S (length (m_nodes m))) by apply len_snoc.
    assert (Hold : forall k, k < length (m_nodes m) -> gn m' k = gn m k) by (intros; apply gn_snoc_old; auto).
    assert (Hnew : gn m' (length (m_nodes m)) = n) by apply gn_snoc_new.
    assert (Hcase : forall id, id < length (m_nodes m') -> id < length (m_nodes m) \/ id = length (m_nodes m)) by (intros; lia).
    split.
    - intros id Hid. destruct (Hcase id Hid) as [H| ->].
      + rewrite Hold by exact H. auto.
      + rewrite Hnew. lia.
    - intros id eid Hid Hin. destruct (Hcase id Hid) as [H| ->].
      + rewrite Hold in Hin by exact H. destruct (P2 _ _ H Hin) as (a & b & c).
        change (get_edge m' eid) with (get_edge m eid). change (m_edges m') with (m_edges m).
        rewrite !Hold by auto. rewrite Hlen. split; [exact a|]. split; [lia|exact c].
      + rewrite Hnew, Hinb in Hin. destruct Hin.
    - intros id Hid Hs. destruct (Hcase id Hid) as [H| ->].
      + rewrite Hold in * by exact H. auto.
      + rewrite Hnew in *. apply Hex. lia.
    - intros id H1 H2. destruct (Hcase id H2) as [H| ->].
      + rewrite Hold by exact H. apply P4; auto.
      + rewrite Hnew. exact Hd.
    - intros id Hid. change (In id (m_next m)) in Hid. change (m_layer_end m') with (m_layer_end m).
      specialize (P5 id Hid). lia.
    - change (m_layer_end m') with (m_layer_end m). lia.
  Qed.

  Lemma Pinv_upd_node dn (m : mdd) id f :
    (forall n, n_depth (f n) = n_depth n /\ n_inb (f n) = n_inb n) ->
    (id < length (m_nodes m) -> n_depth (gn m id) <= S d0 -> fl_is_exact (n_flags (f (gn m id))) = true) ->
    Pinv dn m -> Pinv dn (upd_node m id f).
  Proof.
    intros Hf Hex [P1 P2 P3 P4 P5 P6].
    assert (Hd : forall k, n_depth (gn (upd_node m id f) k) = n_depth (gn m k)).
    { intros k. apply get_node_upd_node_proj. intros n; apply Hf. }
    assert (Hi : forall k, n_inb (gn (upd_node m id f) k) = n_inb (gn m k)).
    { intros k. apply get_node_upd_node_proj. intros n; apply Hf. }
    assert (Hlen : length (m_nodes (upd_node m id f)) = length (m_nodes m)) by (msimpl; apply upd_nth_length).
    split; rewrite ?Hlen.
    - intros k Hk. rewrite Hd. auto.
    - intros k eid Hk Hin. rewrite Hi in Hin. rewrite !Hd. apply P2; auto.
    - intros k Hk Hs. rewrite Hd in Hs. destruct (Nat.eq_dec id k) as [-> |Hne].
      + rewrite gn_upd_same by exact Hk. auto.
      + rewrite gn_upd_other by exact Hne. auto.
    - intros k H1 H2. rewrite Hd. apply P4; auto.
    - exact P5.
    - exact P6.
  Qed.

  Lemma Pinv_with_next dn (m : mdd) nx :
    Pinv dn m -> (forall id, In id nx -> m_layer_end m <= id /\ id < length (m_nodes m)) ->
    Pinv dn (with_next m nx).
  Proof. intros [P1 P2 P3 P4 P5 P6] H. split; auto. Qed.

  (* ---------------------------------------------------------------- branch_on, expand_node *)
  Lemma branch_on_step dn (m : mdd) (from_id : nat) (d : decision) :
    Pinv (S dn) m -> from_id < length (m_nodes m) -> n_depth (gn m from_id) = dn ->
    Pinv (S dn) (branch_on st_eqb inp m from_id d) /\ keep m (branch_on st_eqb inp m from_id d).
  Proof.
    intros HP Hfrom Hdep.
    unfold branch_on. cbv zeta.
    set (state := n_state (gn m from_id)).
    set (ns := transition (ci_problem inp) state d).
    set (cost := transition_cost (ci_problem inp) state ns d).
    set (m1 := add_log (add_log m (EvTransition state d ns)) (EvCost state ns d cost)).
    assert (Hc1 : ceq inp m m1) by (eapply ceq_trans; apply ceq_add_log).
    assert (HP1 : Pinv (S dn) m1) by (eapply Pinv_ceq; eauto).
    assert (Hk1 : keep m m1) by (eapply keep_trans; apply keep_add_log).
    assert (Hgn1 : forall k, gn m1 k = gn m k) by reflexivity.
    destruct (find_next st_eqb inp m1 ns) as [t|] eqn:Hfind.
    - unfold find_next in Hfind. apply find_some in Hfind. destruct Hfind as [Hin _].
      destruct (P_next _ _ HP1 t Hin) as [Hr1 Hr2].
      split.
      + apply Pinv_append_edge; nsimpl; auto.
        rewrite (P_open _ _ HP1 t Hr1 Hr2). rewrite Hgn1, Hdep. reflexivity.
      + eapply keep_trans; [exact Hk1|apply keep_append_edge].
    - set (t := length (m_nodes m1)).
      set (n := {| n_state := ns; n_vtop := sat_add (n_vtop (gn m from_id)) cost; n_vbot := IMIN;
                   n_best := None; n_inb := []; n_rub := IMAX; n_theta := None;
                   n_flags := fl_set_exact fl_new_exact (fl_is_exact (n_flags (gn m from_id)));
                   n_depth := S (n_depth (gn m from_id)) |}).
      set (m2 := with_nodes m1 (m_nodes m1 ++ [n])).
      set (e := {| e_from := from_id; e_to := t; e_dec := d; e_cost := cost |}).
      set (m3 := append_edge inp m2 e).
      assert (Hlen2 : length (m_nodes m2) = S t) by apply len_snoc.
      assert (HP2 : Pinv (S dn) m2).
      { apply Pinv_snoc; auto.
        - unfold n. nsimpl. rewrite Hdep. reflexivity.
        - pose proof (P_depth _ _ HP from_id Hfrom). lia.
        - intros Hs. unfold n. nsimpl. rewrite fl_is_exact_set_exact. simpl. rewrite andb_true_r.
          apply (P_shallow _ _ HP); auto. lia. }
      assert (HP3 : Pinv (S dn) m3).
      { apply Pinv_append_edge; unfold e; nsimpl; auto; try (rewrite Hlen2; unfold t; change (length (m_nodes m1)) with (length (m_nodes m)); lia).
        unfold m2, t. rewrite gn_snoc_new. rewrite gn_snoc_old by exact Hfrom. reflexivity. }
      assert (Hlen3 : length (m_nodes m3) = S t).
      { unfold m3. msimpl. rewrite upd_nth_length. exact Hlen2. }
      split.
      + apply Pinv_with_next; auto. intros id Hid.
        change (m_next m3) with (m_next m) in Hid. change (m_layer_end m3) with (m_layer_end m).
        rewrite Hlen3. apply in_app_or in Hid. destruct Hid as [Hid|[<-|[]]].
        * destruct (P_next _ _ HP id Hid). unfold t. change (length (m_nodes m1)) with (length (m_nodes m)). lia.
        * pose proof (P_le _ _ HP). unfold t. change (length (m_nodes m1)) with (length (m_nodes m)). lia.
      + eapply keep_trans; [exact Hk1|]. eapply keep_trans; [apply keep_snoc|].
        eapply keep_trans; [apply keep_append_edge|apply keep_with_next].
  Qed.

  Lemma fold_branch_step dn from_id var vals : forall (m : mdd),
    Pinv (S dn) m -> from_id < length (m_nodes m) -> n_depth (gn m from_id) = dn ->
    Pinv (S dn) (fold_left (fun m val => branch_on st_eqb inp m from_id {| d_var := var; d_val := val |}) vals m) /\
    keep m (fold_left (fun m val => branch_on st_eqb inp m from_id {| d_var := var; d_val := val |}) vals m).
  Proof.
    induction vals as [|v vals IH]; intros m HP Hfrom Hdep; simpl.
    - split; [exact HP|apply keep_refl].
    - destruct (branch_on_step dn m from_id {| d_var := var; d_val := v |} HP Hfrom Hdep) as [B1 B2].
      destruct (IH _ B1) as [I1 I2].
      + pose proof (k_len _ _ B2). lia.
      + rewrite (k_depth _ _ B2) by exact Hfrom. exact Hdep.
      + split; [exact I1|eapply keep_trans; eauto].
  Qed.

  Lemma expand_node_step var dn (m : mdd) id :
    Pinv (S dn) m -> id < length (m_nodes m) -> n_depth (gn m id) = dn ->
    Pinv (S dn) (expand_node st_eqb inp var m id) /\ keep m (expand_node st_eqb inp var m id).
  Proof.
    intros HP Hid Hdep. unfold expand_node. cbv zeta.
    set (state := n_state (gn m id)).
    set (rub := fast_upper_bound (ci_relax inp) state).
    set (m1 := upd_node m id (fun n => set_rub n rub)).
    assert (HP1 : Pinv (S dn) m1).
    { eapply Pinv_ceq; [|exact HP]. apply ceq_upd_node. intros n. apply core_eq_set_rub. }
    assert (Hk1 : keep m m1) by (apply keep_upd_node; reflexivity).
    destruct (Z.gtb _ _); [|split; assumption].
    set (m2 := add_log m1 (EvDomain var state)).
    assert (HP2 : Pinv (S dn) m2) by (eapply Pinv_ceq; [apply ceq_add_log|exact HP1]).
    assert (Hk2 : keep m m2) by (eapply keep_trans; [exact Hk1|apply keep_add_log]).
    destruct (fold_branch_step dn id var (domain (ci_problem inp) var state) m2 HP2) as [F1 F2].
    - pose proof (k_len _ _ Hk2). lia.
    - rewrite (k_depth _ _ Hk2) by exact Hid. exact Hdep.
    - split; [exact F1|eapply keep_trans; eauto].
  Qed.

  Lemma expand_layer_step var dn l : forall (m : mdd),
    Pinv (S dn) m -> (forall id, In id l -> id < length (m_nodes m) /\ n_depth (gn m id) = dn) ->
    Pinv (S dn) (fold_left (expand_node st_eqb inp var) l m) /\
    keep m (fold_left (expand_node st_eqb inp var) l m).
  Proof.
    induction l as [|id l IH]; intros m HP Hl; simpl.
    - split; [exact HP|apply keep_refl].
    - destruct (Hl id (or_introl eq_refl)) as [H1 H2].
      destruct (expand_node_step var dn m id HP H1 H2) as [E1 E2].
      destruct (IH _ E1) as [I1 I2].
      + intros k Hk. destruct (Hl k (or_intror Hk)) as [G1 G2]. split.
        * pose proof (k_len _ _ E2). lia.
        * rewrite (k_depth _ _ E2) by exact G1. exact G2.
      + split; [exact I1|eapply keep_trans; eauto].
  Qed.

  (* ---------------------------------------------------------------- m_lel is only touched by note_squash *)
  Lemma branch_on_lel (m : mdd) id d : m_lel (branch_on st_eqb inp m id d) = m_lel m.
  Proof. unfold branch_on. cbv zeta. destruct (find_next _ _ _ _); reflexivity. Qed.

  Lemma expand_node_lel var (m : mdd) id : m_lel (expand_node st_eqb inp var m id) = m_lel m.
  Proof.
    unfold expand_node. cbv zeta. destruct (Z.gtb _ _); [|reflexivity].
    rewrite fold_left_proj; [reflexivity|]. intros a x. apply branch_on_lel.
  Qed.

  Lemma expand_layer_lel var l (m : mdd) : m_lel (fold_left (expand_node st_eqb inp var) l m) = m_lel m.
  Proof. apply fold_left_proj. intros a x. apply expand_node_lel. Qed.

  Lemma drop_step_lel merged mid (m : mdd) did : m_lel (drop_step inp merged mid m did) = m_lel m.
  Proof.
    unfold drop_step. rewrite redirect_edges_fold.
    rewrite fold_left_proj; [reflexivity|]. intros a x. reflexivity.
  Qed.

  (* ---------------------------------------------------------------- the filters (no cache, no dominance rule) *)
  Lemma keep_ceq (m m' : mdd) : ceq inp m m' -> m_crash m' = m_crash m -> keep m m'.
  Proof.
    intros ((A1 & A2 & A3 & A4) & Hn & Hl & Hly & _ & _ & Hcd) Hc. split; auto; try lia.
    - intros id _. destruct (A4 id) as (_ & _ & _ & _ & _ & _ & c7). congruence.
    - rewrite A1. lia.
    - intros eid _. unfold get_edge. rewrite A1. reflexivity.
  Qed.

  Lemma cache_get_nocache (m : mdd) s d :
    cache_get st_eqb inp m s d = (add_log m (EvCacheGet s d), None).
  Proof. unfold cache_get. rewrite Hnocache. reflexivity. Qed.

  Lemma dom_query_nodom (m : mdd) s d v :
    dom_query inp m s d v =
    (add_log m (EvDomQuery s d v false None), {| dc_dominated := false; dc_threshold := None |}).
  Proof. unfold dom_query. rewrite Hnodom. reflexivity. Qed.

  Lemma filter_with_cache_crash l : forall (m : mdd),
    m_crash (fst (filter_with_cache st_eqb inp m l)) = m_crash m.
  Proof.
    induction l as [|id l IH]; intros m; simpl; [reflexivity|].
    rewrite cache_get_nocache.
    specialize (IH (add_log m (EvCacheGet (n_state (gn m id)) (n_depth (gn m id))))).
    destruct (filter_with_cache st_eqb inp _ l) as [m2 r]. simpl in *. exact IH.
  Qed.

  Lemma dom_retain_crash l : forall (m : mdd), m_crash (fst (dom_retain inp m l)) = m_crash m.
  Proof.
    induction l as [|id l IH]; intros m; simpl; [reflexivity|].
    destruct (fl_is_exact (n_flags (gn m id))).
    - rewrite dom_query_nodom. simpl.
      specialize (IH (add_log m (EvDomQuery (n_state (gn m id)) (n_depth (gn m id)) (n_vtop (gn m id)) false None))).
      destruct (dom_retain inp _ l) as [m2 r]. simpl in *. exact IH.
    - specialize (IH m). destruct (dom_retain inp m l) as [m2 r]. simpl in *. exact IH.
  Qed.

  Lemma prefilter_step dn (m : mdd) l m' l' :
    prefilter st_eqb inp m l = (m', l') ->
    Pinv dn m -> Pinv dn m' /\ keep m m' /\ ceq inp m m' /\ incl l' l.
  Proof.
    unfold prefilter. intros H HP.
    destruct (Nat.ltb 0 (length (m_layers m))).
    - pose proof (filter_with_cache_ceq st_eqb inp Hclean l m) as [C1 C2].
      pose proof (filter_with_cache_crash l m) as C3.
      rewrite H in C1, C2, C3. simpl in *.
      split; [eapply Pinv_ceq; eauto|]. split; [apply keep_ceq; auto|]. split; auto.
    - inversion H; subst. split; [exact HP|]. split; [apply keep_refl|]. split; [apply ceq_refl|apply incl_refl].
  Qed.

  Lemma filter_with_dominance_step dn (m : mdd) l m' l' :
    filter_with_dominance inp m l = (m', l') ->
    Pinv dn m -> Pinv dn m' /\ keep m m' /\ ceq inp m m' /\ incl l' l.
  Proof.
    intros H HP.
    pose proof (filter_with_dominance_ceq inp m l) as [C1 C2].
    assert (C3 : m_crash (fst (filter_with_dominance inp m l)) = m_crash m)
      by (unfold filter_with_dominance; apply dom_retain_crash).
    rewrite H in C1, C2, C3. simpl in *.
    split; [eapply Pinv_ceq; eauto|]. split; [apply keep_ceq; auto|]. split; auto.
  Qed.

  (* ---------------------------------------------------------------- squash *)
  Lemma note_squash_crash (m : mdd) : m_crash (note_squash inp m) = m_crash m.
  Proof. unfold note_squash. rewrite not_pooled'. destruct (m_lel m); reflexivity. Qed.

  Lemma note_squash_step dn (m : mdd) :
    Pinv dn m -> Pinv dn (note_squash inp m) /\ keep m (note_squash inp m) /\
    forall k, gn (note_squash inp m) k = gn m k.
  Proof.
    intros HP.
    destruct (note_squash_fields inp Hclean m) as (F1 & F2 & F3 & F4 & F5 & F6 & F7 & F8 & F9).
    split; [|split].
    - eapply Pinv_peq; [apply peq_same_nodes; eauto|exact F4|exact F5|exact HP].
    - apply keep_same; auto. apply note_squash_crash.
    - intros k. apply gn_nodes_eq. exact F1.
  Qed.

  Definition in_open (m : mdd) (l : list nat) : Prop :=
    forall id, In id l -> m_layer_end m <= id /\ id < length (m_nodes m).

  Lemma in_open_keep (m m' : mdd) l l' : keep m m' -> incl l' l -> in_open m l -> in_open m' l'.
  Proof.
    intros Hk Hi Ho id Hid. apply Hi in Hid. destruct (Ho id Hid) as [H1 H2].
    rewrite (k_lend _ _ Hk). pose proof (k_len _ _ Hk). lia.
  Qed.

  Lemma restrict_layer_step dn (m : mdd) l m' l' :
    restrict_layer inp m l = (m', l') -> Pinv dn m ->
    Pinv dn m' /\ keep m m' /\ length (m_nodes m') = length (m_nodes m) /\ incl l' l /\
    m_lel m' = m_lel (note_squash inp m).
  Proof.
    unfold restrict_layer. cbv zeta. intros H HP. inversion H; subst; clear H.
    destruct (note_squash_step dn m HP) as (N1 & N2 & N3).
    set (m0 := note_squash inp m) in *.
    set (del := skipn W (sort_by (rank_order inp m0) l)).
    pose proof (mark_deleted_ceq inp del m0) as Hc.
    assert (Hcr : m_crash (mark_deleted m0 del) = m_crash m0).
    { unfold mark_deleted. apply fold_left_proj. intros a x. reflexivity. }
    split; [eapply Pinv_ceq; eauto|]. split; [eapply keep_trans; [exact N2|apply keep_ceq; auto]|].
    split; [|split].
    - destruct Hc as ((_ & _ & L & _) & _). rewrite L. unfold m0. rewrite note_squash_nodes. reflexivity.
    - intros x Hx. apply In_firstn in Hx. apply sort_by_In in Hx. exact Hx.
    - destruct Hc as (_ & _ & _ & _ & Hl & _). exact Hl.
  Qed.

  Lemma redirect_fold_step dn merged mid L : forall (a : mdd),
    Pinv dn a -> mid < length (m_nodes a) -> n_depth (gn a mid) = dn ->
    (forall eid, In eid L -> eid < length (m_edges a) /\ e_from (get_edge a eid) < length (m_nodes a) /\
                             S (n_depth (gn a (e_from (get_edge a eid)))) = dn) ->
    Pinv dn (fold_left (redirect_step inp merged mid) L a) /\
    keep a (fold_left (redirect_step inp merged mid) L a).
  Proof.
    induction L as [|eid L IH]; intros a HP Hmid Hd HL; simpl.
    - split; [exact HP|apply keep_refl].
    - destruct (HL eid (or_introl eq_refl)) as (a1 & a2 & a3).
      set (a' := redirect_step inp merged mid a eid).
      assert (HP' : Pinv dn a').
      { unfold a', redirect_step. cbv zeta. apply Pinv_append_edge; nsimpl; auto.
        - eapply Pinv_ceq; [apply ceq_add_log|exact HP].
        - change (S (n_depth (gn a (e_from (get_edge a eid)))) = n_depth (gn a mid)). lia. }
      assert (Hk' : keep a a').
      { unfold a', redirect_step. cbv zeta. eapply keep_trans; [apply keep_add_log|apply keep_append_edge]. }
      destruct (IH a' HP') as [I1 I2].
      + pose proof (k_len _ _ Hk'). lia.
      + rewrite (k_depth _ _ Hk') by exact Hmid. exact Hd.
      + intros x Hx. destruct (HL x (or_intror Hx)) as (b1 & b2 & b3).
        rewrite (k_edge _ _ Hk') by exact b1. rewrite (k_depth _ _ Hk') by exact b2.
        pose proof (k_len _ _ Hk'). pose proof (k_elen _ _ Hk'). split; [lia|]. split; [lia|exact b3].
      + split; [exact I1|eapply keep_trans; eauto].
  Qed.

  Lemma drop_step_step dn merged mid (a : mdd) did :
    Pinv dn a -> mid < length (m_nodes a) -> n_depth (gn a mid) = dn ->
    did < length (m_nodes a) -> n_depth (gn a did) = dn ->
    Pinv dn (drop_step inp merged mid a did) /\ keep a (drop_step inp merged mid a did).
  Proof.
    intros HP Hmid Hd Hdid Hdd. unfold drop_step. rewrite redirect_edges_fold.
    set (a1 := upd_node a did (fun n => set_flags n (fl_set_deleted (n_flags n) true))).
    assert (HP1 : Pinv dn a1).
    { eapply Pinv_ceq; [|exact HP]. apply ceq_upd_node. intros n. apply core_eq_set_flags_nc; reflexivity. }
    assert (Hk1 : keep a a1) by (apply keep_upd_node; reflexivity).
    assert (Hlen1 : length (m_nodes a1) = length (m_nodes a)) by (unfold a1; msimpl; apply upd_nth_length).
    destruct (redirect_fold_step dn merged mid (n_inb (gn a1 did)) a1 HP1) as [R1 R2].
    - lia.
    - rewrite (k_depth _ _ Hk1) by exact Hmid. exact Hd.
    - intros eid Hin. destruct (P_inb _ _ HP1 did eid) as (b1 & b2 & b3); [lia|exact Hin|].
      split; [exact b1|]. split; [exact b2|]. rewrite b3. rewrite (k_depth _ _ Hk1) by exact Hdid. exact Hdd.
    - split; [exact R1|eapply keep_trans; eauto].
  Qed.

  Lemma drop_fold_step dn merged mid L : forall (a : mdd),
    Pinv dn a -> mid < length (m_nodes a) -> n_depth (gn a mid) = dn ->
    (forall id, In id L -> id < length (m_nodes a) /\ n_depth (gn a id) = dn) ->
    Pinv dn (fold_left (drop_step inp merged mid) L a) /\ keep a (fold_left (drop_step inp merged mid) L a).
  Proof.
    induction L as [|did L IH]; intros a HP Hmid Hd HL; simpl.
    - split; [exact HP|apply keep_refl].
    - destruct (HL did (or_introl eq_refl)) as [c1 c2].
      destruct (drop_step_step dn merged mid a did HP Hmid Hd c1 c2) as [D1 D2].
      destruct (IH _ D1) as [I1 I2].
      + pose proof (k_len _ _ D2). lia.
      + rewrite (k_depth _ _ D2) by exact Hmid. exact Hd.
      + intros x Hx. destruct (HL x (or_intror Hx)) as [b1 b2].
        rewrite (k_depth _ _ D2) by exact b1. pose proof (k_len _ _ D2). split; [lia|exact b2].
      + split; [exact I1|eapply keep_trans; eauto].
  Qed.

  Lemma drop_fold_nodes_length merged mid L (a : mdd) :
    length (m_nodes (fold_left (drop_step inp merged mid) L a)) = length (m_nodes a).
  Proof.
    apply (fold_left_proj (fun a : mdd => length (m_nodes a))). intros b x. apply drop_step_nodes_length.
  Qed.

  Lemma drop_fold_lel merged mid L (a : mdd) :
    m_lel (fold_left (drop_step inp merged mid) L a) = m_lel a.
  Proof. apply fold_left_proj. intros b x. apply drop_step_lel. Qed.

  Lemma relax_layer_step dn (m : mdd) l m' l' :
    relax_layer st_eqb inp m l = (m', l') ->
    Pinv dn m -> S d0 < dn -> W < length l -> in_open m l ->
    Pinv dn m' /\ keep m m' /\ length (m_nodes m') <= S (length (m_nodes m)) /\ in_open m' l' /\
    m_lel m' = m_lel (note_squash inp m).
  Proof.
    intros H HP Hdn Hw Hl.
    assert (Hex : exists w1, W = S w1) by (destruct W as [|w1]; [lia|exists w1; reflexivity]).
    destruct Hex as [w1 Ew].
    rewrite (relax_layer_unfold st_eqb inp m l w1 Ew) in H. cbv zeta in H.
    destruct (note_squash_step dn m HP) as (N1 & N2 & N3).
    set (m0 := note_squash inp m) in *.
    set (sorted := sort_by (rank_order inp m0) l) in *.
    set (keepl := firstn w1 sorted) in *.
    set (mrg := skipn w1 sorted) in *.
    set (mstates := map (fun id => n_state (gn m0 id)) mrg) in *.
    set (merged := merge (ci_relax inp) mstates) in *.
    set (m1 := add_log m0 (EvMerge mstates merged)) in *.
    assert (HP1 : Pinv dn m1) by (eapply Pinv_ceq; [apply ceq_add_log|exact N1]).
    assert (Hk1 : keep m m1) by (eapply keep_trans; [exact N2|apply keep_add_log]).
    assert (Hlen1 : length (m_nodes m1) = length (m_nodes m)).
    { change (m_nodes m1) with (m_nodes m0). unfold m0. rewrite note_squash_nodes. reflexivity. }
    assert (Hsorted : incl sorted l) by (intros x Hx; apply sort_by_In in Hx; exact Hx).
    assert (Hkeepl : incl keepl l) by (intros x Hx; apply In_firstn in Hx; auto).
    assert (Hmrg : incl mrg l) by (intros x Hx; apply In_skipn in Hx; auto).
    assert (Hl1 : forall id, In id l -> id < length (m_nodes m1) /\ n_depth (gn m1 id) = dn).
    { intros id Hid. destruct (Hl id Hid) as [h1 h2]. split; [lia|].
      rewrite (k_depth _ _ Hk1) by exact h2. apply (P_open _ _ HP); auto. }
    assert (Hmrg_ne : mrg <> []).
    { apply skipn_nonempty. unfold sorted. rewrite sort_by_length. lia. }
    destruct (find (fun id => st_eqb (n_state (gn m1 id)) merged) keepl) as [rid|] eqn:Hrec.
    - (* recycled node *)
      apply pair_eq_inv in H. destruct H as [<- <-].
      apply find_some in Hrec. destruct Hrec as [Hin _]. apply Hkeepl in Hin.
      destruct (Hl1 rid Hin) as [Hr1 Hr2].
      set (m2 := upd_node m1 rid set_relaxed_flag).
      assert (HP2 : Pinv dn m2).
      { apply Pinv_upd_node; auto. intros _ Hs. lia. }
      assert (Hk2 : keep m1 m2) by (apply keep_upd_node; reflexivity).
      assert (Hlen2 : length (m_nodes m2) = length (m_nodes m1)) by (unfold m2; msimpl; apply upd_nth_length).
      destruct (drop_fold_step dn merged rid mrg m2 HP2) as [D1 D2].
      { lia. }
      { rewrite (k_depth _ _ Hk2) by exact Hr1. exact Hr2. }
      { intros id Hid. apply Hmrg in Hid. destruct (Hl1 id Hid) as [g1 g2].
        rewrite (k_depth _ _ Hk2) by exact g1. split; [lia|exact g2]. }
      set (m3 := fold_left (drop_step inp merged rid) mrg m2) in *.
      assert (Hlen3 : length (m_nodes m3) = length (m_nodes m2)) by apply drop_fold_nodes_length.
      set (m4 := upd_node m3 (nth w1 sorted 0) clear_deleted_flag).
      assert (Hc4 : ceq inp m3 m4).
      { apply ceq_upd_node. intros n. apply core_eq_set_flags_nc; reflexivity. }
      assert (Hk4 : keep m m4).
      { eapply keep_trans; [exact Hk1|]. eapply keep_trans; [exact Hk2|].
        eapply keep_trans; [exact D2|]. apply keep_upd_node; reflexivity. }
      split; [eapply Pinv_ceq; eauto|]. split; [exact Hk4|]. split; [|split].
      + unfold m4. msimpl. rewrite upd_nth_length, Hlen3, Hlen2, Hlen1. lia.
      + eapply in_open_keep; [exact Hk4| |exact Hl]. intros x Hx. apply In_firstn in Hx. auto.
      + unfold m4. msimpl. unfold m3. rewrite drop_fold_lel. reflexivity.
    - (* fresh merged node *)
      apply pair_eq_inv in H. destruct H as [<- <-].
      set (mid := length (m_nodes m1)) in *.
      set (n := merged_node merged (n_depth (gn m1 (hd 0 mrg)))) in *.
      set (ms := with_nodes m1 (m_nodes m1 ++ [n])) in *.
      assert (Hnd : n_depth n = dn).
      { unfold n, merged_node. nsimpl. apply Hl1. apply Hmrg. apply hd_In. exact Hmrg_ne. }
      assert (HPs : Pinv dn ms).
      { apply Pinv_snoc; auto.
        - pose proof (P_depth _ _ HP). lia.
        - intros Hs. lia. }
      assert (Hks : keep m1 ms) by apply keep_snoc.
      assert (Hlens : length (m_nodes ms) = S mid) by apply len_snoc.
      assert (Hgmid : gn ms mid = n) by apply gn_snoc_new.
      set (m2 := upd_node ms mid set_relaxed_flag) in *.
      assert (HP2 : Pinv dn m2).
      { apply Pinv_upd_node; auto. intros _ Hs. rewrite Hgmid, Hnd in Hs. lia. }
      assert (Hk2 : keep ms m2) by (apply keep_upd_node; reflexivity).
      assert (Hlen2 : length (m_nodes m2) = S mid) by (unfold m2; msimpl; rewrite upd_nth_length; exact Hlens).
      destruct (drop_fold_step dn merged mid mrg m2 HP2) as [D1 D2].
      { lia. }
      { rewrite (k_depth _ _ Hk2) by lia. rewrite Hgmid. exact Hnd. }
      { intros id Hid. apply Hmrg in Hid. destruct (Hl1 id Hid) as [g1 g2].
        rewrite (k_depth _ _ Hk2) by (rewrite Hlens; unfold mid; lia).
        rewrite (k_depth _ _ Hks) by exact g1. split; [unfold mid; lia|exact g2]. }
      set (m3 := fold_left (drop_step inp merged mid) mrg m2) in *.
      assert (Hlen3 : length (m_nodes m3) = length (m_nodes m2)) by apply drop_fold_nodes_length.
      assert (Hk3 : keep m m3).
      { eapply keep_trans; [exact Hk1|]. eapply keep_trans; [exact Hks|].
        eapply keep_trans; [exact Hk2|exact D2]. }
      split; [exact D1|]. split; [exact Hk3|]. split; [|split].
      + rewrite Hlen3, Hlen2. unfold mid. lia.
      + intros id Hid. apply in_app_or in Hid. destruct Hid as [Hid|[<-|[]]].
        * eapply in_open_keep; [exact Hk3| |exact Hl|exact Hid]. exact Hkeepl.
        * rewrite (k_lend _ _ Hk3), Hlen3, Hlen2. pose proof (P_le _ _ HP). unfold mid. lia.
      + unfold m3. rewrite drop_fold_lel. reflexivity.
  Qed.

  Lemma squash_step dn (m : mdd) l m' l' :
    squash_if_needed st_eqb inp m l = (m', l') ->
    Pinv dn m -> dn = d0 + length (m_layers m) -> in_open m l ->
    Pinv dn m' /\ keep m m' /\ length (m_nodes m') <= S (length (m_nodes m)) /\ in_open m' l' /\
    (forall k, m_lel m' = Some k -> m_lel m = Some k \/ (ci_type inp = Relaxed -> 1 <= k)).
  Proof.
    unfold squash_if_needed. intros H HP Hdn Hl.
    assert (Hid : (m, l) = (m', l') ->
              Pinv dn m' /\ keep m m' /\ length (m_nodes m') <= S (length (m_nodes m)) /\ in_open m' l' /\
              (forall k, m_lel m' = Some k -> m_lel m = Some k \/ (ci_type inp = Relaxed -> 1 <= k))).
    { intros E. inversion E; subst. split; [exact HP|]. split; [apply keep_refl|]. split; [lia|]. split; [exact Hl|].
      intros k Hk. left; exact Hk. }
    destruct (ci_type inp) eqn:Et.
    - auto.
    - destruct (Nat.ltb W (length l) && Nat.ltb 1 (length (m_layers m))) eqn:Eg; [|auto].
      apply andb_true_iff in Eg. destruct Eg as [E1 E2]. apply Nat.ltb_lt in E1. apply Nat.ltb_lt in E2.
      destruct (relax_layer_step dn m l m' l' H HP) as (R1 & R2 & R3 & R4 & R5); auto; [lia|].
      split; [exact R1|]. split; [exact R2|]. split; [exact R3|]. split; [exact R4|].
      intros k Hk. rewrite R5 in Hk.
      destruct (note_squash_fields inp Hclean m) as (_ & _ & _ & _ & _ & _ & _ & F8 & _). rewrite F8 in Hk.
      destruct (m_lel m) as [k0|]; [left; exact Hk|]. right. intros _. inversion Hk. lia.
    - destruct (Nat.ltb W (length l)); [|auto].
      destruct (restrict_layer_step dn m l m' l' H HP) as (R1 & R2 & R3 & R4 & R5).
      split; [exact R1|]. split; [exact R2|]. split; [lia|]. split; [eapply in_open_keep; eauto|].
      intros k Hk. right. intros Hr. discriminate.
  Qed.

  (* ================================================================== 3. the loop invariant *)
  Definition layers_ok (m : mdd) : Prop :=
    forall i ids id, nth_error (m_layers m) i = Some ids -> In id ids ->
      id < length (m_nodes m) /\ n_depth (gn m id) = d0 + i.
  Definition lel_ok (m : mdd) : Prop := forall k, m_lel m = Some k -> ci_type inp = Relaxed -> 1 <= k.

  Lemma layers_ok_keep (m m' : mdd) : keep m m' -> layers_ok m -> layers_ok m'.
  Proof.
    intros Hk Hl i ids id H1 H2. rewrite (k_layers _ _ Hk) in H1. destruct (Hl i ids id H1 H2) as [a b].
    rewrite (k_depth _ _ Hk) by exact a. pose proof (k_len _ _ Hk). split; [lia|exact b].
  Qed.

  Lemma layers_ok_same (m m' : mdd) :
    m_nodes m' = m_nodes m -> m_layers m' = m_layers m -> layers_ok m -> layers_ok m'.
  Proof.
    intros H1 H2 Hl i ids id A B. rewrite H2 in A. unfold get_node. rewrite H1. apply (Hl i ids id A B).
  Qed.

  Lemma layers_ok_push (m : mdd) ids e :
    layers_ok m -> (forall id, In id ids -> id < length (m_nodes m) /\ n_depth (gn m id) = d0 + length (m_layers m)) ->
    layers_ok (push_layer m ids e).
  Proof.
    intros Hl Hids i ids0 id H1 H2. msimpl_in H1.
    change (gn (push_layer m ids e) id) with (gn m id). change (m_nodes (push_layer m ids e)) with (m_nodes m).
    destruct (Nat.lt_ge_cases i (length (m_layers m))) as [Hi|Hi].
    - rewrite nth_error_app1 in H1 by exact Hi. eapply Hl; eauto.
    - rewrite nth_error_app2 in H1 by exact Hi.
      destruct (i - length (m_layers m)) as [|j] eqn:Ej; [|destruct j; discriminate].
      simpl in H1. inversion H1; subst ids0. replace i with (length (m_layers m)) by lia. apply Hids; exact H2.
  Qed.

  Record Linv (m : mdd) : Prop := {
    L_P : Pinv (m_curr_depth m) m;
    L_crash : m_crash m = false;
    L_cd : m_curr_depth m = d0 + length (m_layers m);
    L_cdN : m_curr_depth m <= N;
    L_layers : layers_ok m;
    L_nodup : Forall (@NoDup nat) (m_layers m);
    L_lel : lel_ok m }.

  Lemma Linv_frame (m m' : mdd) :
    m_nodes m' = m_nodes m -> m_edges m' = m_edges m -> m_path m' = m_path m -> m_next m' = m_next m ->
    m_layer_end m' = m_layer_end m -> m_layers m' = m_layers m -> m_curr_depth m' = m_curr_depth m ->
    m_lel m' = m_lel m -> m_crash m' = m_crash m -> Linv m -> Linv m'.
  Proof.
    intros H1 H2 H3 H4 H5 H6 H7 H8 H9 [L1 L2 L3 L4 L5 L6 L7].
    assert (Hk : keep m m') by (apply keep_same; auto).
    split; try congruence.
    - rewrite H7. eapply Pinv_peq; [apply peq_same_nodes; eauto|exact H4|exact H5|exact L1].
    - eapply layers_ok_keep; eauto.
    - unfold lel_ok. rewrite H8. exact L7.
  Qed.

  Lemma Linv_initialize c ds polls : Linv (initialize inp c ds polls).
  Proof.
    split.
    - simpl. split; simpl.
      + intros id Hid. assert (id = 0) by lia. subst id. simpl. lia.
      + intros id eid Hid. assert (id = 0) by lia. subst id. simpl. tauto.
      + intros id Hid _. assert (id = 0) by lia. subst id. reflexivity.
      + intros id _ Hid. assert (id = 0) by lia. subst id. reflexivity.
      + intros id [<-|[]]. lia.
      + lia.
    - reflexivity.
    - simpl. lia.
    - simpl. exact Hroot_depth.
    - intros i ids id H. destruct i; discriminate.
    - constructor.
    - intros k Hk. discriminate.
  Qed.

  (* the state between _move_to_next_layer and the end of the expansion of layer [l] *)
  Record Minv (m m' : mdd) (l : list nat) : Prop := {
    M_P : Pinv (S (m_curr_depth m)) m';
    M_crash : m_crash m' = false;
    M_cd : m_curr_depth m' = m_curr_depth m;
    M_cdl : m_curr_depth m = d0 + length (m_layers m);
    M_layers : exists ids, m_layers m' = m_layers m ++ [ids];
    M_lok : layers_ok m';
    M_nodup : Forall (@NoDup nat) (m_layers m');
    M_lel : lel_ok m';
    M_next : m_next m' = [];
    M_l : forall id, In id l -> id < length (m_nodes m') /\ n_depth (gn m' id) = m_curr_depth m;
    M_len : length (m_nodes m') <= S (length (m_nodes m)) }.

  Lemma Pinv_push_layer dn (m : mdd) ids :
    Pinv dn m -> m_next m = [] -> Pinv (S dn) (push_layer m ids (length (m_nodes m))).
  Proof.
    intros [P1 P2 P3 P4 P5 P6] Hn. split; msimpl; auto.
    - intros id Hid. specialize (P1 id Hid). change (gn (push_layer m ids (length (m_nodes m))) id) with (gn m id). lia.
    - intros id H1 H2. lia.
    - intros id Hid. rewrite Hn in Hid. destruct Hid.
  Qed.

  Lemma move_some_step (m m' : mdd) l :
    move_to_next_layer_clean st_eqb inp m = (m', Some l) -> Linv m -> Minv m m' l.
  Proof.
    rewrite move_clean_unfold. intros H [L1 L2 L3 L4 L5 L6 L7].
    set (d := m_curr_depth m) in *.
    destruct (m_next m) as [|x nx] eqn:Hn; [discriminate|]. rewrite <- Hn in H.
    set (ma := with_next m []) in *.
    assert (HPa : Pinv d ma) by (apply Pinv_with_next; [exact L1|intros id []]).
    assert (Hka : keep m ma) by apply keep_with_next.
    assert (Hoa : in_open ma (m_next m)) by (intros id Hid; apply (P_next _ _ L1); exact Hid).
    destruct (prefilter st_eqb inp ma (m_next m)) as [m1 l1] eqn:H1.
    destruct (filter_with_dominance inp m1 l1) as [m2 l2] eqn:H2.
    destruct (squash_if_needed st_eqb inp m2 l2) as [m3 l3] eqn:H3.
    inversion H; subst m' l; clear H.
    destruct (prefilter_step d ma _ m1 l1 H1 HPa) as (A1 & A2 & A3 & A4).
    destruct (filter_with_dominance_step d m1 l1 m2 l2 H2 A1) as (B1 & B2 & B3 & B4).
    assert (Hk2 : keep m m2) by (eapply keep_trans; [exact Hka|]; eapply keep_trans; eauto).
    assert (Ho2 : in_open m2 l2).
    { apply (in_open_keep ma m2 (m_next m) l2);
        [eapply keep_trans; [exact A2|exact B2]|eapply incl_tran; [exact B4|exact A4]|exact Hoa]. }
    destruct (squash_step d m2 l2 m3 l3 H3 B1) as (C1 & C2 & C3 & C4 & C5); auto.
    { rewrite (k_layers _ _ Hk2). exact L3. }
    assert (Hk3 : keep m m3) by (eapply keep_trans; eauto).
    assert (Hn3 : m_next m3 = []).
    { rewrite (squash_next st_eqb inp _ _ _ _ H3).
      destruct B3 as (_ & b & _). destruct A3 as (_ & a & _). rewrite b, a. reflexivity. }
    assert (Hlen2 : length (m_nodes m2) = length (m_nodes m)).
    { destruct B3 as ((_ & _ & b & _) & _). destruct A3 as ((_ & _ & a & _) & _). rewrite b, a. reflexivity. }
    assert (Hlel2 : m_lel m2 = m_lel m).
    { destruct B3 as (_ & _ & _ & _ & b & _). destruct A3 as (_ & _ & _ & _ & a & _). rewrite b, a. reflexivity. }
    set (from := m_layer_end m3). set (to := length (m_nodes m3)).
    set (m4 := push_layer m3 (seq from (to - from)) to).
    assert (Hgn4 : forall k, gn m4 k = gn m3 k) by reflexivity.
    split.
    - apply Pinv_push_layer; auto.
    - change (m_crash m4) with (m_crash m3). rewrite (k_crash _ _ Hk3). exact L2.
    - change (m_curr_depth m4) with (m_curr_depth m3). apply (k_cd _ _ Hk3).
    - exact L3.
    - eexists. unfold m4. msimpl. rewrite (k_layers _ _ Hk3). reflexivity.
    - apply layers_ok_push.
      + eapply layers_ok_keep; eauto.
      + intros id Hid. apply in_seq in Hid. split; [unfold to in Hid; lia|].
        rewrite (P_open _ _ C1 id) by (unfold from, to in Hid; lia).
        rewrite (k_layers _ _ Hk3). exact L3.
    - unfold m4. msimpl. apply Forall_app. split; [rewrite (k_layers _ _ Hk3); exact L6|].
      constructor; [apply seq_NoDup|constructor].
    - intros k Hk Hr. change (m_lel m4) with (m_lel m3) in Hk.
      destruct (C5 k Hk) as [Hold|Hnew]; [|auto]. rewrite Hlel2 in Hold. apply L7; auto.
    - exact Hn3.
    - intros id Hid. destruct (C4 id Hid) as [c1 c2]. rewrite Hgn4. split; [exact c2|].
      apply (P_open _ _ C1); auto.
    - change (length (m_nodes m4)) with (length (m_nodes m3)). lia.
  Qed.

  Lemma expand_finish var (m m' : mdd) l :
    Minv m m' l -> m_curr_depth m < N ->
    Linv (with_depth (fold_left (expand_node st_eqb inp var) l m')
                     (S (m_curr_depth (fold_left (expand_node st_eqb inp var) l m')))) /\
    m_curr_depth (fold_left (expand_node st_eqb inp var) l m') = m_curr_depth m.
  Proof.
    intros [M1 M2 M3 M3' [ids M4] M5 M6 M7 M8 M9 M10] HN.
    destruct (expand_layer_step var (m_curr_depth m) l m' M1 M9) as [E1 E2].
    set (m4 := fold_left (expand_node st_eqb inp var) l m') in *.
    rewrite (k_cd _ _ E2). split; [|exact M3].
    split; msimpl.
    - rewrite M3. apply (Pinv_peq _ m4); [apply peq_same_nodes; reflexivity|reflexivity|reflexivity|exact E1].
    - rewrite (k_crash _ _ E2). exact M2.
    - rewrite (k_layers _ _ E2), M4, app_length, M3, M3'. simpl. lia.
    - lia.
    - apply (layers_ok_same m4); [reflexivity|reflexivity|]. eapply layers_ok_keep; [exact E2|exact M5].
    - rewrite (k_layers _ _ E2). exact M6.
    - intros k Hk. change (m_lel (with_depth m4 (S (m_curr_depth m')))) with (m_lel m4) in Hk.
      unfold m4 in Hk. rewrite expand_layer_lel in Hk. apply M7; exact Hk.
  Qed.


  (* ================================================================== 4. the layer loop terminates with LoopDone *)
  Definition Post (m : mdd) : Prop :=
    (Linv m /\ N <= m_curr_depth m) \/
    (exists m0, Linv m0 /\ m_next m0 = [] /\ m = push_layer (with_next m0 []) [] 0).

  Lemma move_none_inv (m m' : mdd) :
    move_to_next_layer_clean st_eqb inp m = (m', None) ->
    m_next m = [] /\ m' = push_layer (with_next m []) [] 0.
  Proof.
    rewrite move_clean_unfold. destruct (m_next m) as [|x nx].
    - intros H. inversion H. auto.
    - destruct (prefilter _ _ _ _) as [m1 l1]. destruct (filter_with_dominance _ _ _) as [m2 l2].
      destruct (squash_if_needed _ _ _ _) as [m3 l3]. discriminate.
  Qed.

  Lemma layer_loop_post : forall fuel (m : mdd),
    Linv m -> N - m_curr_depth m < fuel ->
    exists m', layer_loop st_eqb inp fuel m = (m', LoopDone) /\ Post m'.
  Proof.
    induction fuel as [|fuel IH]; intros m HL Hf; [lia|].
    cbn [layer_loop]. cbv zeta.
    set (states := map (fun id => n_state (gn m id)) (m_next m)).
    destruct (Nat.lt_ge_cases (m_curr_depth m) N) as [Hlt|Hge].
    - destruct (nv_some (m_curr_depth m) states Hlt) as [var Hv]. rewrite Hv.
      set (m1 := add_log m (EvNextVar (m_curr_depth m) states (Some var))).
      set (m2 := with_polls m1 (S (m_polls m1))).
      rewrite Hnocut. change (Nat.ltb 0 0) with false. cbn [andb].
      rewrite not_pooled'.
      assert (HL2 : Linv m2) by (apply (Linv_frame m); auto; reflexivity).
      destruct (move_to_next_layer_clean st_eqb inp m2) as [m3 [l|]] eqn:Hmv.
      + pose proof (move_some_step m2 m3 l Hmv HL2) as HM.
        destruct (expand_finish var m2 m3 l HM Hlt) as [HL4 Hcd4].
        apply IH; [exact HL4|]. msimpl. rewrite Hcd4. change (m_curr_depth m2) with (m_curr_depth m). lia.
      + exists m3. split; [reflexivity|]. right. exists m2.
        destruct (move_none_inv m2 m3 Hmv) as [E1 E2]. auto.
    - rewrite (nv_none _ states Hge).
      eexists. split; [reflexivity|]. left. split; [|exact Hge].
      apply (Linv_frame m); auto; reflexivity.
  Qed.

  (* ================================================================== 5. the state after finalize_layers *)
  Record Finv (m : mdd) : Prop := {
    F_depth : forall id, id < length (m_nodes m) -> d0 <= n_depth (gn m id) <= N;
    F_inb : forall id eid, id < length (m_nodes m) -> In eid (n_inb (gn m id)) ->
            eid < length (m_edges m) /\ e_from (get_edge m eid) < length (m_nodes m) /\
            S (n_depth (gn m (e_from (get_edge m eid)))) = n_depth (gn m id);
    F_shallow : forall id, id < length (m_nodes m) -> n_depth (gn m id) <= S d0 ->
            fl_is_exact (n_flags (gn m id)) = true;
    F_crash : m_crash m = false;
    F_layers : layers_ok m;
    F_nodup : Forall (@NoDup nat) (m_layers m);
    F_lel : lel_ok m;
    F_next : forall id, In id (m_next m) -> n_depth (gn m id) = N;
    F_nlayers : length (m_layers m) <= S N }.

  Lemma Finv_of_Linv (m m' : mdd) :
    Linv m -> m_nodes m' = m_nodes m -> m_edges m' = m_edges m -> m_crash m' = m_crash m ->
    m_lel m' = m_lel m -> layers_ok m' -> Forall (@NoDup nat) (m_layers m') ->
    (forall id, In id (m_next m') -> n_depth (gn m' id) = N) -> length (m_layers m') <= S N -> Finv m'.
  Proof.
    intros [[P1 P2 P3 P4 P5 P6] L2 L3 L4 L5 L6 L7] H1 H2 H3 H4 H5 H6 H7 H8.
    assert (Hg : forall k, gn m' k = gn m k) by (intros k; unfold get_node; rewrite H1; reflexivity).
    split; auto; rewrite ?H1.
    - intros id Hid. rewrite Hg. specialize (P1 id Hid). lia.
    - intros id eid Hid Hin. rewrite Hg in Hin. unfold get_edge. rewrite H2, !Hg. apply P2; auto.
    - intros id Hid Hs. rewrite Hg in *. auto.
    - congruence.
    - unfold lel_ok. rewrite H4. exact L7.
  Qed.

  Lemma finalize_layers_Finv (m : mdd) : Post m -> Finv (finalize_layers inp m).
  Proof.
    unfold finalize_layers. rewrite not_pooled'.
    intros [[HL HN]|(m0 & HL & Hn & ->)].
    - pose proof HL as [L1 L2 L3 L4 L5 L6 L7].
      assert (Hcd : m_curr_depth m = N) by lia.
      destruct (m_next m) as [|x nx] eqn:En.
      + apply (Finv_of_Linv m); auto.
        * rewrite En. intros id [].
        * lia.
      + set (m' := push_layer m (seq (m_layer_end m) (length (m_nodes m) - m_layer_end m)) (length (m_nodes m))).
        apply (Finv_of_Linv m); auto.
        * apply layers_ok_push; [exact L5|]. intros id Hid. apply in_seq in Hid. split; [lia|].
          rewrite (P_open _ _ L1 id) by lia. exact L3.
        * unfold m'. msimpl. apply Forall_app. split; [exact L6|]. constructor; [apply seq_NoDup|constructor].
        * intros id Hid. change (In id (m_next m)) in Hid. change (gn m' id) with (gn m id).
          destruct (P_next _ _ L1 id Hid) as [a b]. rewrite (P_open _ _ L1 id a b). exact Hcd.
        * unfold m'. msimpl. rewrite app_length. simpl. lia.
    - pose proof HL as [L1 L2 L3 L4 L5 L6 L7]. msimpl.
      set (m' := push_layer (with_next m0 []) [] 0).
      apply (Finv_of_Linv m0); auto.
      + apply layers_ok_push; [apply (layers_ok_same m0); auto|]. intros id [].
      + unfold m'. msimpl. apply Forall_app. split; [exact L6|]. constructor; [constructor|constructor].
      + intros id [].
      + unfold m'. msimpl. rewrite app_length. simpl. lia.
  Qed.

  (* ================================================================== 6. fields that the tail of _finalize leaves alone *)
  Definition insens {X} (g : mdd -> X) : Prop :=
    (forall (m : mdd) k f, g (upd_node m k f) = g m) /\ (forall (m : mdd) ev, g (add_log m ev) = g m) /\
    (forall (m : mdd) cs, g (with_cutset m cs) = g m).

  Lemma insens_crash : insens (@m_crash St).     Proof. repeat split. Qed.
  Lemma insens_is_exact : insens (@m_is_exact St). Proof. repeat split. Qed.
  Lemma insens_has_ebp : insens (@m_has_ebp St).  Proof. repeat split. Qed.
  Lemma insens_best : insens (@m_best St).        Proof. repeat split. Qed.
  Lemma insens_best_exact : insens (@m_best_exact St). Proof. repeat split. Qed.
  Lemma insens_lel : insens (@m_lel St).          Proof. repeat split. Qed.
  Lemma insens_layers : insens (@m_layers St).    Proof. repeat split. Qed.

  Section Insens.
    Context {X : Type}.
    Variable g : mdd -> X.
    Hypothesis Hg : insens g.

    Lemma ins_upd (m : mdd) k f : g (upd_node m k f) = g m.  Proof. apply Hg. Qed.
    Lemma ins_log (m : mdd) ev : g (add_log m ev) = g m.     Proof. apply Hg. Qed.
    Lemma ins_cut (m : mdd) cs : g (with_cutset m cs) = g m. Proof. apply Hg. Qed.

    Lemma ins_lel_cutset (m : mdd) k : g (lel_cutset m k) = g m.
    Proof.
      unfold lel_cutset. rewrite fold_left_proj by (intros; apply ins_upd).
      destruct (nth_error _ _); [|reflexivity]. rewrite ins_cut.
      apply fold_left_proj. intros; apply ins_upd.
    Qed.

    Lemma ins_frontier_cutset (m : mdd) push : g (frontier_cutset inp m push) = g m.
    Proof.
      unfold frontier_cutset. apply fold_left_proj. intros a id.
      destruct (fl_is_exact _); [apply ins_upd|].
      apply fold_left_proj. intros b eid.
      destruct (_ && _); [|reflexivity]. rewrite ins_upd. destruct push; [apply ins_cut|reflexivity].
    Qed.

    Lemma ins_compute_local_bounds (m : mdd) : g (compute_local_bounds inp m) = g m.
    Proof.
      unfold compute_local_bounds. destruct (_ && _); [|reflexivity].
      rewrite fold_left_proj.
      - apply fold_left_proj; intros; apply ins_upd.
      - intros a id. destruct (f_marked _); [|reflexivity].
        apply fold_left_proj; intros; apply ins_upd.
    Qed.

    Lemma ins_cache_update (m : mdd) s d v e : g (cache_update st_eqb inp m s d v e) = g m.
    Proof. unfold cache_update. rewrite Hnocache. apply ins_log. Qed.

    Lemma ins_maybe_update_cache (m : mdd) id : g (maybe_update_cache st_eqb inp m id) = g m.
    Proof.
      unfold maybe_update_cache. destruct (n_theta _); [|reflexivity].
      destruct (f_above _); [apply ins_cache_update|reflexivity].
    Qed.

    Lemma ins_compute_thresholds (m : mdd) : g (compute_thresholds st_eqb inp m) = g m.
    Proof.
      unfold compute_thresholds. destruct (_ || _); [|reflexivity].
      assert (Hstep : forall bk (a : mdd) id,
        g (if f_deleted (n_flags (gn a id)) then a else
           let m0 :=
             if negb (f_cache (n_flags (gn a id))) then
               let tot_rub := sat_add (n_vtop (gn a id)) (n_rub (gn a id)) in
               let m1 :=
                 if (tot_rub <=? bk)%Z then upd_node a id (fun n => set_theta n (Some (sat_sub bk (n_rub n))))
                 else if f_cutset (n_flags (gn a id)) then
                   let tot_locb := sat_add (n_vtop (gn a id)) (n_vbot (gn a id)) in
                   if (tot_locb <=? bk)%Z then
                     upd_node a id (fun n => set_theta n (Some (Z.min (opt_default IMAX (n_theta n)) (sat_sub bk (n_vbot n)))))
                   else upd_node a id (fun n => set_theta n (Some (n_vtop n)))
                 else if fl_is_exact (n_flags (gn a id)) && match n_theta (gn a id) with None => true | Some _ => false end then
                   upd_node a id (fun n => set_theta n (Some IMAX))
                 else a in
               maybe_update_cache st_eqb inp m1 id
             else a in
           match n_theta (gn m0 id) with
           | Some my_theta =>
               fold_left (fun m eid =>
                   let e := get_edge m eid in
                   upd_node m (e_from e) (fun p =>
                     set_theta p (Some (Z.min (opt_default IMAX (n_theta p)) (sat_sub my_theta (e_cost e))))))
                 (n_inb (gn m0 id)) m0
           | None => m0
           end) = g a).
      { intros bk a id. destruct (f_deleted _); [reflexivity|]. cbv zeta.
        match goal with |- g (match n_theta (get_node inp ?mm id) with _ => _ end) = _ =>
          set (m2 := mm); assert (Hm2 : g m2 = g a) end.
        { subst m2. destruct (negb _); [|reflexivity].
          rewrite ins_maybe_update_cache.
          repeat match goal with |- context [if ?c then _ else _] => destruct c end;
            try reflexivity; apply ins_upd. }
        destruct (n_theta (gn m2 id)); [|exact Hm2].
        rewrite fold_left_proj by (intros; apply ins_upd). exact Hm2. }
      match goal with |- context [match ?x with Some be => _ | None => _ end] => destruct x as [be|] end.
      - rewrite fold_left_proj.
        + apply fold_left_proj. intros a id.
          match goal with |- context [if ?c then _ else _] => destruct c end; [apply ins_upd|reflexivity].
        + intros a id. apply Hstep.
      - apply fold_left_proj. intros a id. apply Hstep.
    Qed.

    Lemma ins_finalize_cutset (m : mdd) :
      (forall (a : mdd) l, g (with_lel_exact a l (m_is_exact a)) = g a) -> g (finalize_cutset inp m) = g m.
    Proof.
      intros Hw. unfold finalize_cutset. cbv zeta.
      destruct Hclean as [Hf|Hf]; rewrite Hf; cbv iota;
        destruct (m_lel m); destruct (_ || _);
        rewrite ?ins_lel_cutset, ?ins_frontier_cutset, ?Hw; reflexivity.
    Qed.
  End Insens.

  (* ================================================================== 7. the cut-set *)
  Lemma Finv_same (m m' : mdd) :
    m_nodes m' = m_nodes m -> m_edges m' = m_edges m -> m_crash m' = m_crash m -> m_lel m' = m_lel m ->
    m_layers m' = m_layers m -> m_next m' = m_next m -> Finv m -> Finv m'.
  Proof.
    intros H1 H2 H3 H4 H5 H6 [F1 F2 F3 F4 F5 F6 F7 F8 F9].
    assert (Hg : forall k, gn m' k = gn m k) by (intros k; unfold get_node; rewrite H1; reflexivity).
    split; rewrite ?H1, ?H5, ?H6; auto.
    - intros id Hid. rewrite Hg. auto.
    - intros id eid Hid Hin. rewrite Hg in Hin. unfold get_edge. rewrite H2, !Hg. apply F2; auto.
    - intros id Hid Hs. rewrite Hg in *. auto.
    - congruence.
    - apply (layers_ok_same m); auto.
    - unfold lel_ok. rewrite H4. exact F7.
    - intros id Hid. rewrite Hg. auto.
  Qed.

  Lemma frontier_cutset_facts (m : mdd) :
    (forall id eid, id < length (m_nodes m) -> In eid (n_inb (gn m id)) ->
            eid < length (m_edges m) /\ e_from (get_edge m eid) < length (m_nodes m) /\
            S (n_depth (gn m (e_from (get_edge m eid)))) = n_depth (gn m id)) ->
    (forall id, id < length (m_nodes m) -> n_depth (gn m id) <= S d0 ->
            fl_is_exact (n_flags (gn m id)) = true) ->
    m_cutset m = [] ->
    NoDup (m_cutset (frontier_cutset inp m true)) /\
    forall id, In id (m_cutset (frontier_cutset inp m true)) ->
      id < length (m_nodes m) /\ d0 < n_depth (gn m id).
  Proof.
    intros HFinb HFsh Hc. unfold frontier_cutset.
    set (Q := fun a : mdd =>
      peq inp m a /\ NoDup (m_cutset a) /\
      forall id, In id (m_cutset a) ->
        id < length (m_nodes m) /\ d0 < n_depth (gn m id) /\ f_cutset (n_flags (gn a id)) = true).
    assert (HQ : Q (fold_left (fun (m0 : mdd) id =>
        let n := gn m0 id in
        if fl_is_exact (n_flags n) then upd_node m0 id (fun n0 => set_flags n0 (fl_set_above (n_flags n0) true))
        else fold_left (fun (m1 : mdd) eid =>
               let e := get_edge m1 eid in
               let p := gn m1 (e_from e) in
               if fl_is_exact (n_flags p) && negb (f_cutset (n_flags p)) then
                 let m2 := if true then with_cutset m1 (m_cutset m1 ++ [e_from e]) else m1 in
                 upd_node m2 (e_from e) (fun n0 => set_flags n0 (fl_set_cutset (n_flags n0) true))
               else m1) (n_inb n) m0) (bottom_up m) m)).
    { apply fold_inv.
      - split; [apply peq_refl|]. rewrite Hc. split; [constructor|intros id []].
      - intros a id _ (Qa1 & Qa2 & Qa3). cbv zeta.
        destruct (fl_is_exact (n_flags (gn a id))) eqn:Eex.
        + split; [|split].
          * eapply peq_trans; [exact Qa1|]. apply peq_upd_node. intros n. apply core_eq_set_flags_nc; reflexivity.
          * exact Qa2.
          * intros k Hk. destruct (Qa3 k Hk) as (q1 & q2 & q3). split; [exact q1|]. split; [exact q2|].
            rewrite <- q3. apply (get_node_upd_node_proj inp (fun n => f_cutset (n_flags n))). reflexivity.
        + (* the parents of an inexact node *)
          assert (HL : forall eid, In eid (n_inb (gn a id)) ->
                    e_from (get_edge m eid) < length (m_nodes m) /\ d0 < n_depth (gn m (e_from (get_edge m eid)))).
          { intros eid Hin. pose proof Qa1 as (_ & _ & _ & A4).
            destruct (A4 id) as (_ & _ & _ & c4 & _). rewrite <- c4 in Hin.
            destruct (Nat.lt_ge_cases id (length (m_nodes m))) as [Hlt|Hge].
            - destruct (HFinb id eid Hlt Hin) as (b1 & b2 & b3). split; [exact b2|].
              assert (S d0 < n_depth (gn m id)); [|lia].
              destruct (Nat.lt_ge_cases (S d0) (n_depth (gn m id))) as [G|G]; [exact G|].
              pose proof (HFsh id Hlt G) as Hx.
              rewrite (core_eq_is_exact _ _ (A4 id)) in Hx. congruence.
            - rewrite gn_out_of_range in Hin by exact Hge. destruct Hin. }
          apply fold_inv; [split; [exact Qa1|split; [exact Qa2|exact Qa3]]|].
          intros b eid Hin (Qb1 & Qb2 & Qb3).
          pose proof Qb1 as (B1 & B2 & B3 & B4).
          rewrite (ge_edges_eq m b eid B1).
          set (src := e_from (get_edge m eid)).
          destruct (HL eid Hin) as [Hsrc Hdep].
          destruct (fl_is_exact (n_flags (gn b src)) && negb (f_cutset (n_flags (gn b src)))) eqn:Ec;
            [|split; [exact Qb1|split; [exact Qb2|exact Qb3]]].
          apply andb_true_iff in Ec. destruct Ec as [_ Ec]. apply negb_true_iff in Ec.
          set (b1 := with_cutset b (m_cutset b ++ [src])).
          set (b2 := upd_node b1 src (fun n0 => set_flags n0 (fl_set_cutset (n_flags n0) true))).
          split; [|split].
          * eapply peq_trans; [exact Qb1|]. eapply peq_trans; [apply (peq_same_nodes inp b b1); reflexivity|].
            apply peq_upd_node. intros n. apply core_eq_set_flags_nc; reflexivity.
          * change (m_cutset b2) with (m_cutset b ++ [src]). apply NoDup_app_fresh; [exact Qb2|].
            intros Hmem. destruct (Qb3 src Hmem) as (_ & _ & q3). congruence.
          * intros k Hk. change (m_cutset b2) with (m_cutset b ++ [src]) in Hk.
            assert (Hsame : gn b2 src = set_flags (gn b src) (fl_set_cutset (n_flags (gn b src)) true)).
            { unfold b2. rewrite gn_upd_same; [reflexivity|]. change (m_nodes b1) with (m_nodes b). lia. }
            apply in_app_or in Hk. destruct Hk as [Hk|[<-|[]]].
            -- destruct (Qb3 k Hk) as (q1 & q2 & q3). split; [exact q1|]. split; [exact q2|].
               destruct (Nat.eq_dec src k) as [<-|Hne].
               ++ rewrite Hsame. reflexivity.
               ++ unfold b2. rewrite gn_upd_other by exact Hne. exact q3.
            -- split; [exact Hsrc|]. split; [exact Hdep|]. rewrite Hsame. reflexivity. }
    destruct HQ as (_ & Q2 & Q3). split; [exact Q2|]. intros id Hid. destruct (Q3 id Hid) as (a & b & _). auto.
  Qed.

  Lemma finalize_cutset_facts (m : mdd) :
    Finv m -> m_cutset m = [] ->
    NoDup (m_cutset (finalize_cutset inp m)) /\
    (ci_type inp = Relaxed -> forall id, In id (m_cutset (finalize_cutset inp m)) ->
       id < length (m_nodes m) /\ d0 < n_depth (gn m id)).
  Proof.
    intros HF Hc. unfold finalize_cutset. cbv zeta.
    set (m1 := match m_lel m with
               | None => with_lel_exact m (Some (length (m_layers m))) (m_is_exact m)
               | Some _ => m end).
    assert (H1 : m_nodes m1 = m_nodes m /\ m_edges m1 = m_edges m /\ m_crash m1 = m_crash m /\
                 m_layers m1 = m_layers m /\ m_next m1 = m_next m /\ m_cutset m1 = m_cutset m /\
                 m_lel m1 = match m_lel m with None => Some (length (m_layers m)) | Some k => Some k end).
    { unfold m1. destruct (m_lel m) eqn:El; repeat split; auto. }
    destruct H1 as (A1 & A2 & A3 & A4 & A5 & A6 & A7).
    assert (Hg : forall k, gn m1 k = gn m k) by (intros k; unfold get_node; rewrite A1; reflexivity).
    assert (Hnil : NoDup (m_cutset m1) /\
                   (ci_type inp = Relaxed -> forall id, In id (m_cutset m1) -> id < length (m_nodes m) /\ d0 < n_depth (gn m id))).
    { rewrite A6, Hc. split; [constructor|intros _ id []]. }
    destruct Hclean as [Hf|Hf]; rewrite Hf.
    - destruct (is_relaxed_ct (ci_type inp) || m_is_exact m); [|exact Hnil].
      destruct (lel_cutset_spec inp m1 (opt_default 0 (m_lel m1))) as [_ L2].
      rewrite L2, A6, Hc, A4, A7. simpl app.
      destruct (m_lel m) as [k|] eqn:El; cbn [opt_default].
      + destruct (nth_error (m_layers m) k) as [ids|] eqn:En; [|split; [constructor|intros _ id []]].
        split.
        * pose proof (F_nodup _ HF) as Hnd. rewrite Forall_forall in Hnd. apply Hnd. eapply nth_error_In; eauto.
        * intros Hr id Hid. destruct (F_layers _ HF k ids id En Hid) as [a b]. split; [exact a|].
          pose proof (F_lel _ HF k El Hr). lia.
      + destruct (nth_error (m_layers m) (length (m_layers m))) as [ids|] eqn:En; [|split; [constructor|intros _ id []]].
        exfalso. assert (length (m_layers m) < length (m_layers m)); [|lia].
        apply nth_error_Some. rewrite En. discriminate.
    - destruct (is_relaxed_ct (ci_type inp) || m_is_exact m); [|exact Hnil].
      destruct (frontier_cutset_facts m1) as [R1 R2].
      + intros id eid Hid Hin. rewrite A1 in Hid. rewrite Hg in Hin. unfold get_edge. rewrite A2, A1, !Hg.
        apply (F_inb _ HF); auto.
      + intros id Hid Hs. rewrite A1 in Hid. rewrite Hg in *. apply (F_shallow _ HF); auto.
      + rewrite A6. exact Hc.
      + split; [exact R1|]. intros _ id Hid. destruct (R2 id Hid) as [a b]. rewrite A1 in a. rewrite Hg in b. auto.
  Qed.

  (* ================================================================== 8. the finished diagram *)
  Lemma finalize_layers_same (m : mdd) :
    m_nodes (finalize_layers inp m) = m_nodes m /\ m_edges (finalize_layers inp m) = m_edges m /\
    m_path (finalize_layers inp m) = m_path m /\ m_next (finalize_layers inp m) = m_next m /\
    m_cutset (finalize_layers inp m) = m_cutset m.
  Proof.
    unfold finalize_layers. rewrite not_pooled'.
    destruct (m_next m) eqn:E; (split; [|split; [|split; [|split]]]); try reflexivity; auto.
  Qed.

  Lemma finalize_facts tb tb2 (ml : mdd) :
    Post ml -> Sinv inp ml -> Xs inp ml ->
    let m := finalize st_eqb inp tb tb2 ml in
    m_crash m = false /\
    length (m_nodes m) = length (m_nodes ml) /\
    (forall id, id < length (m_nodes m) -> d0 <= n_depth (gn m id) <= N) /\
    layers_ok m /\
    length (m_layers m) <= S N /\
    (forall id, In id (m_next m) -> n_depth (gn m id) = N) /\
    (forall b, m_best m = Some b -> In b (m_next m)) /\
    (forall b, m_best_exact m = Some b -> In b (m_next m)) /\
    NoDup (m_cutset m) /\
    (ci_type inp = Relaxed -> forall id, In id (m_cutset m) -> id < length (m_nodes m) /\ d0 < n_depth (gn m id)).
  Proof.
    intros HPost HS HX.
    destruct (finalize_spec st_eqb inp Hclean tb tb2 ml HS HX) as (Pl6 & Nl6 & _).
    pose proof (finalize_layers_eq st_eqb inp tb tb2 ml) as Hlayers.
    pose proof (finalize_layers_Finv ml HPost) as HF1.
    destruct (finalize_layers_same ml) as (S1 & S2 & S3 & S4 & S5).
    unfold finalize in *.
    set (m1 := finalize_layers inp ml) in *.
    set (m2 := find_best_node inp tb tb2 m1) in *.
    set (m3 := finalize_exact inp m2) in *.
    set (m4 := finalize_cutset inp m3) in *.
    pose proof (compute_local_bounds_keq inp Hclean m4) as K5.
    set (m5 := compute_local_bounds inp m4) in *.
    pose proof (compute_thresholds_keq st_eqb inp m5) as K6.
    set (m6 := compute_thresholds st_eqb inp m5) in *.
    cbv zeta.
    assert (P1l : peq inp ml m1) by (apply peq_same_nodes; auto).
    assert (P16 : peq inp m1 m6) by (eapply peq_trans; [apply peq_sym; exact P1l|exact Pl6]).
    pose proof P16 as (_ & _ & Len16 & C16).
    assert (Hd : forall k, n_depth (gn m6 k) = n_depth (gn m1 k)).
    { intros k. destruct (C16 k) as (_ & _ & _ & _ & _ & _ & c7). congruence. }
    assert (HF3 : Finv m3) by (apply (Finv_same m1); auto; reflexivity).
    assert (Hc3 : m_cutset m3 = []).
    { change (m_cutset m3) with (m_cutset m1). rewrite S5. apply (X_cutset _ _ _ HX). }
    destruct (finalize_cutset_facts m3 HF3 Hc3) as [Cnd Cdep].
    destruct K5 as (_ & N5 & B5 & BE5 & Cs5). destruct K6 as (_ & N6 & B6 & BE6 & Cs6).
    assert (Hcr : m_crash m6 = false).
    { unfold m6. rewrite (ins_compute_thresholds _ insens_crash). unfold m5.
      rewrite (ins_compute_local_bounds _ insens_crash). unfold m4.
      rewrite (ins_finalize_cutset _ insens_crash) by reflexivity. apply (F_crash _ HF1). }
    assert (Hb4 : m_best m4 = m_best m3) by (apply (ins_finalize_cutset _ insens_best); reflexivity).
    assert (Hbe4 : m_best_exact m4 = m_best_exact m3) by (apply (ins_finalize_cutset _ insens_best_exact); reflexivity).
    assert (Hn6 : m_next m6 = m_next m1) by (rewrite Nl6, S4; reflexivity).
    assert (Hbest2 : forall b, m_best m2 = Some b -> In b (m_next m1)).
    { intros b Hb. unfold m2, find_best_node in Hb. msimpl_in Hb.
      apply MddExact.pick_In in Hb. apply (argmax_candidates_In inp Hclean) in Hb. exact Hb. }
    split; [exact Hcr|]. split; [rewrite Len16, S1; reflexivity|]. split; [|split; [|split; [|split; [|split; [|split; [|split]]]]]].
    - intros id Hid. rewrite Hd. apply (F_depth _ HF1). lia.
    - intros i ids id H1 H2. rewrite Hlayers in H1. destruct (F_layers _ HF1 i ids id H1 H2) as [a b].
      rewrite Hd. split; [lia|exact b].
    - rewrite Hlayers. apply (F_nlayers _ HF1).
    - intros id Hid. rewrite Hn6 in Hid. rewrite Hd. apply (F_next _ HF1); exact Hid.
    - intros b Hb. rewrite Hn6. rewrite B6, B5, Hb4 in Hb. apply Hbest2. exact Hb.
    - intros b Hb. rewrite Hn6. rewrite BE6, BE5, Hbe4 in Hb.
      unfold m3, finalize_exact in Hb. cbv zeta in Hb. msimpl_in Hb.
      destruct (is_relaxed_ct (ci_type inp) && has_exact_best_path inp (S (length (m_nodes m2))) m2 (m_best m2)).
      + apply Hbest2; exact Hb.
      + unfold m2, find_best_node in Hb. msimpl_in Hb.
        apply MddExact.pick_In in Hb. apply (argmax_candidates_In inp Hclean) in Hb. apply filter_In in Hb. tauto.
    - rewrite Cs6, Cs5. exact Cnd.
    - intros Hr id Hid. rewrite Cs6, Cs5 in Hid. destruct (Cdep Hr id Hid) as [a b].
      change (m_nodes m3) with (m_nodes m1) in a. change (gn m3 id) with (gn m1 id) in b.
      rewrite Hd. split; [lia|exact b].
  Qed.

  (* ================================================================== 9. the theorems about [compile] *)
  Lemma compile_unfold tb tb2 c ds polls :
    exists ml, layer_loop st_eqb inp (S (S N)) (initialize inp c ds polls) = (ml, LoopDone) /\
               Post ml /\ Sinv inp ml /\ Xs inp ml /\
               compile st_eqb inp tb tb2 c ds polls = (finalize st_eqb inp tb tb2 ml, Compiled).
  Proof.
    destruct (layer_loop_post (S (S N)) (initialize inp c ds polls) (Linv_initialize c ds polls)) as (ml & Hl & HP).
    { simpl. lia. }
    destruct (layer_loop_Sinv st_eqb st_eqb_spec inp Hclean (S (S N)) c ds polls) as [HS HX].
    rewrite Hl in HS, HX. cbn [fst] in HS, HX.
    exists ml. split; [exact Hl|]. split; [exact HP|]. split; [exact HS|]. split; [exact HX|].
    unfold compile. cbv zeta. rewrite Hl. reflexivity.
  Qed.

  (* P0 (K0) *)
  Theorem compile_completes tb tb2 c ds polls (m : mdd) out :
    compile st_eqb inp tb tb2 c ds polls = (m, out) -> out = Compiled /\ m_crash m = false.
  Proof.
    intros H. destruct (compile_unfold tb tb2 c ds polls) as (ml & _ & HP & HS & HX & Hc).
    rewrite Hc in H. inversion H; subst. split; [reflexivity|].
    apply (finalize_facts tb tb2 ml HP HS HX).
  Qed.

  (* P1 *)
  Theorem compile_node_depth tb tb2 c ds polls (m : mdd) out id :
    compile st_eqb inp tb tb2 c ds polls = (m, out) ->
    id < length (m_nodes m) -> d0 <= n_depth (gn m id) <= N.
  Proof.
    intros H. destruct (compile_unfold tb tb2 c ds polls) as (ml & _ & HP & HS & HX & Hc).
    rewrite Hc in H. inversion H; subst.
    destruct (finalize_facts tb tb2 ml HP HS HX) as (_ & _ & F & _). apply F.
  Qed.

  Theorem compile_layer_depth tb tb2 c ds polls (m : mdd) out i ids id :
    compile st_eqb inp tb tb2 c ds polls = (m, out) ->
    nth_error (m_layers m) i = Some ids -> In id ids ->
    id < length (m_nodes m) /\ n_depth (gn m id) = d0 + i.
  Proof.
    intros H. destruct (compile_unfold tb tb2 c ds polls) as (ml & _ & HP & HS & HX & Hc).
    rewrite Hc in H. inversion H; subst.
    destruct (finalize_facts tb tb2 ml HP HS HX) as (_ & _ & _ & F & _). apply F.
  Qed.

  Theorem compile_next_depth tb tb2 c ds polls (m : mdd) out id :
    compile st_eqb inp tb tb2 c ds polls = (m, out) -> In id (m_next m) -> n_depth (gn m id) = N.
  Proof.
    intros H. destruct (compile_unfold tb tb2 c ds polls) as (ml & _ & HP & HS & HX & Hc).
    rewrite Hc in H. inversion H; subst.
    destruct (finalize_facts tb tb2 ml HP HS HX) as (_ & _ & _ & _ & _ & F & _). apply F.
  Qed.

  Theorem compile_best_depth tb tb2 c ds polls (m : mdd) out b :
    compile st_eqb inp tb tb2 c ds polls = (m, out) ->
    m_best m = Some b \/ m_best_exact m = Some b -> n_depth (gn m b) = N.
  Proof.
    intros H Hb. destruct (compile_unfold tb tb2 c ds polls) as (ml & _ & HP & HS & HX & Hc).
    rewrite Hc in H. inversion H; subst.
    destruct (finalize_facts tb tb2 ml HP HS HX) as (_ & _ & _ & _ & _ & F & G1 & G2 & _).
    apply F. destruct Hb as [Hb|Hb]; [apply G1|apply G2]; exact Hb.
  Qed.

  Theorem compile_layers_count tb tb2 c ds polls (m : mdd) out :
    compile st_eqb inp tb tb2 c ds polls = (m, out) -> length (m_layers m) <= S N.
  Proof.
    intros H. destruct (compile_unfold tb tb2 c ds polls) as (ml & _ & HP & HS & HX & Hc).
    rewrite Hc in H. inversion H; subst.
    destruct (finalize_facts tb tb2 ml HP HS HX) as (_ & _ & _ & _ & F & _). exact F.
  Qed.

  Lemma drain_cutset_In (m : mdd) sp :
    In sp (drain_cutset inp m) -> exists id, In id (m_cutset m) /\ sp_depth sp = n_depth (gn m id).
  Proof.
    unfold drain_cutset. destruct (dd_best_value inp m) as [bv|]; [|intros []].
    intros Hin. apply in_flat_map in Hin. destruct Hin as (id & Hid & Hsp).
    destruct (f_marked (n_flags (gn m id))); [|destruct Hsp].
    destruct Hsp as [<-|[]]. exists id. split; [exact Hid|reflexivity].
  Qed.

  (* P2 (K3_depth): stronger than asked, [dd_is_exact m = false] is not needed *)
  Theorem cutset_depth tb tb2 c ds polls (m : mdd) out sp :
    ci_type inp = Relaxed ->
    compile st_eqb inp tb tb2 c ds polls = (m, out) ->
    In sp (drain_cutset inp m) -> d0 < sp_depth sp <= N.
  Proof.
    intros Hr H Hin. destruct (compile_unfold tb tb2 c ds polls) as (ml & _ & HP & HS & HX & Hc).
    rewrite Hc in H. inversion H; subst.
    destruct (finalize_facts tb tb2 ml HP HS HX) as (_ & _ & Fd & _ & _ & _ & _ & _ & _ & Fc).
    destruct (drain_cutset_In _ sp Hin) as (id & Hid & ->).
    destruct (Fc Hr id Hid) as [a b]. specialize (Fd id a). lia.
  Qed.

  Theorem cutset_nodup tb tb2 c ds polls (m : mdd) out :
    compile st_eqb inp tb tb2 c ds polls = (m, out) -> NoDup (m_cutset m).
  Proof.
    intros H. destruct (compile_unfold tb tb2 c ds polls) as (ml & _ & HP & HS & HX & Hc).
    rewrite Hc in H. inversion H; subst.
    apply (finalize_facts tb tb2 ml HP HS HX).
  Qed.

  (* ================================================================== 10. the size of the diagram (K5) *)
  Variable D : nat.
  Hypothesis dom_bound : forall x s, length (domain pb x s) <= D.

  Definition Mbound : nat := 3 + D + D * D + N * (1 + W * D).

  Lemma branch_on_counts (m : mdd) id d :
    length (m_nodes (branch_on st_eqb inp m id d)) <= S (length (m_nodes m)) /\
    length (m_next (branch_on st_eqb inp m id d)) <= S (length (m_next m)).
  Proof.
    unfold branch_on. cbv zeta. destruct (find_next _ _ _ _).
    - msimpl. rewrite upd_nth_length. lia.
    - msimpl. rewrite upd_nth_length, !app_length. simpl. lia.
  Qed.

  Lemma fold_branch_counts id var vals : forall (m : mdd),
    length (m_nodes (fold_left (fun m val => branch_on st_eqb inp m id {| d_var := var; d_val := val |}) vals m))
      <= length (m_nodes m) + length vals /\
    length (m_next (fold_left (fun m val => branch_on st_eqb inp m id {| d_var := var; d_val := val |}) vals m))
      <= length (m_next m) + length vals.
  Proof.
    induction vals as [|v vals IH]; intros m; simpl; [lia|].
    destruct (IH (branch_on st_eqb inp m id {| d_var := var; d_val := v |})) as [I1 I2].
    destruct (branch_on_counts m id {| d_var := var; d_val := v |}) as [B1 B2]. lia.
  Qed.

  Lemma expand_node_counts var (m : mdd) id :
    length (m_nodes (expand_node st_eqb inp var m id)) <= length (m_nodes m) + D /\
    length (m_next (expand_node st_eqb inp var m id)) <= length (m_next m) + D.
  Proof.
    unfold expand_node. cbv zeta. destruct (Z.gtb _ _).
    - match goal with |- context [fold_left _ ?vals ?mm] =>
        destruct (fold_branch_counts id var vals mm) as [F1 F2]; pose proof (dom_bound var (n_state (gn m id))) as Hd end.
      msimpl_in F1. msimpl_in F2. rewrite upd_nth_length in F1. lia.
    - msimpl. rewrite upd_nth_length. lia.
  Qed.

  Lemma expand_layer_counts var l : forall (m : mdd),
    length (m_nodes (fold_left (expand_node st_eqb inp var) l m)) <= length (m_nodes m) + length l * D /\
    length (m_next (fold_left (expand_node st_eqb inp var) l m)) <= length (m_next m) + length l * D.
  Proof.
    induction l as [|id l IH]; intros m; simpl; [lia|].
    destruct (IH (expand_node st_eqb inp var m id)) as [I1 I2].
    destruct (expand_node_counts var m id) as [E1 E2]. lia.
  Qed.

  Lemma move_first_layers_len (m m' : mdd) l :
    move_to_next_layer_clean st_eqb inp m = (m', Some l) ->
    ci_type inp = Relaxed -> length (m_layers m) <= 1 -> length l <= length (m_next m).
  Proof.
    rewrite move_clean_unfold. destruct (m_next m) as [|x nx] eqn:Hn; [discriminate|]. rewrite <- Hn.
    destruct (prefilter _ _ _ _) as [m1 l1] eqn:H1.
    destruct (filter_with_dominance _ _ _) as [m2 l2] eqn:H2.
    destruct (squash_if_needed _ _ _ _) as [m3 l3] eqn:H3.
    intros H Ht Hl; inversion H; subst.
    destruct (stages_layers _ _ _ _ _ _ _ _ _ _ H1 H2 H3) as (HL & _ & Hlen).
    rewrite squash_relaxed_first_layers in H3; [|exact Ht|rewrite HL; exact Hl].
    inversion H3; subst. exact Hlen.
  Qed.

  Definition cnt_ok (m : mdd) : Prop :=
    (length (m_layers m) = 0 -> length (m_nodes m) <= 1 /\ length (m_next m) <= 1) /\
    (length (m_layers m) = 1 -> length (m_nodes m) <= 2 + D /\ length (m_next m) <= D) /\
    (2 <= length (m_layers m) ->
       length (m_nodes m) <= 3 + D + D * D + (length (m_layers m) - 2) * (1 + W * D)).

  Lemma cnt_ok_bound (m : mdd) : cnt_ok m -> length (m_layers m) <= N + 2 -> length (m_nodes m) <= Mbound.
  Proof.
    intros (C0 & C1 & C2) Hk. unfold Mbound.
    destruct (length (m_layers m)) as [|[|k]] eqn:Ek.
    - destruct C0; auto. lia.
    - destruct C1; auto. lia.
    - assert (H2 : 2 <= S (S k)) by lia. specialize (C2 H2).
      assert (Hm : (S (S k) - 2) * (1 + W * D) <= N * (1 + W * D)) by (apply Nat.mul_le_mono_r; lia).
      lia.
  Qed.

  Lemma layer_loop_count : forall fuel (m m' : mdd) e,
    ci_type inp = Relaxed -> Linv m -> cnt_ok m ->
    layer_loop st_eqb inp fuel m = (m', e) -> length (m_nodes m') <= Mbound.
  Proof.
    induction fuel as [|fuel IH]; intros m m' e Ht HL HC H.
    - simpl in H. inversion H; subst. apply cnt_ok_bound; [exact HC|].
      pose proof (L_cd _ HL). pose proof (L_cdN _ HL). lia.
    - assert (Hhere : length (m_nodes m) <= Mbound).
      { apply cnt_ok_bound; [exact HC|]. pose proof (L_cd _ HL). pose proof (L_cdN _ HL). lia. }
      revert H. cbn [layer_loop]. cbv zeta.
      set (states := map (fun id => n_state (gn m id)) (m_next m)).
      destruct (next_variable (ci_problem inp) (m_curr_depth m) states) as [var|] eqn:Hv.
      2:{ intros H; inversion H; subst. exact Hhere. }
      assert (Hlt : m_curr_depth m < N).
      { destruct (Nat.lt_ge_cases (m_curr_depth m) N) as [G|G]; [exact G|].
        rewrite (nv_none _ states G) in Hv. discriminate. }
      set (m1 := add_log m (EvNextVar (m_curr_depth m) states (Some var))).
      set (m2 := with_polls m1 (S (m_polls m1))).
      rewrite Hnocut. change (Nat.ltb 0 0) with false. cbn [andb].
      rewrite not_pooled'.
      assert (HL2 : Linv m2) by (apply (Linv_frame m); auto; reflexivity).
      destruct (move_to_next_layer_clean st_eqb inp m2) as [m3 [l|]] eqn:Hmv.
      2:{ intros H; inversion H; subst. destruct (move_none_inv m2 m' Hmv) as [_ ->]. exact Hhere. }
      pose proof (move_some_step m2 m3 l Hmv HL2) as HM.
      destruct (expand_finish var m2 m3 l HM Hlt) as [HL4 Hcd4].
      destruct (expand_layer_counts var l m3) as [X1 X2].
      set (m4 := fold_left (expand_node st_eqb inp var) l m3) in *.
      intros H. apply (IH _ _ _ Ht HL4) in H; [exact H|].
      (* the counters after one more layer *)
      pose proof (M_len _ _ _ HM) as Hlen3. change (m_nodes m2) with (m_nodes m) in Hlen3.
      rewrite (M_next _ _ _ HM) in X2. simpl in X2.
      destruct (M_layers _ _ _ HM) as [ids Hly]. change (m_layers m2) with (m_layers m) in Hly.
      pose proof (expand_layer_step var (m_curr_depth m2) l m3 (M_P _ _ _ HM) (M_l _ _ _ HM)) as [_ Hk4].
      assert (Hk5 : length (m_layers (with_depth m4 (S (m_curr_depth m4)))) = S (length (m_layers m))).
      { msimpl. fold m4 in Hk4. rewrite (k_layers _ _ Hk4), Hly, app_length. simpl. lia. }
      destruct HC as (C0 & C1 & C2).
      unfold cnt_ok. rewrite Hk5. msimpl.
      destruct (length (m_layers m)) as [|[|k]] eqn:Ek.
      + destruct C0 as [c1 c2]; auto.
        assert (Hl : length l <= 1).
        { pose proof (move_first_layers_len m2 m3 l Hmv Ht) as G. change (m_layers m2) with (m_layers m) in G.
          change (m_next m2) with (m_next m) in G. rewrite Ek in G. specialize (G ltac:(lia)). lia. }
        assert (Hm : length l * D <= 1 * D) by (apply Nat.mul_le_mono_r; exact Hl).
        split; [discriminate|]. split; [intros _; lia|intros G; lia].
      + destruct C1 as [c1 c2]; auto.
        assert (Hl : length l <= D).
        { pose proof (move_first_layers_len m2 m3 l Hmv Ht) as G. change (m_layers m2) with (m_layers m) in G.
          change (m_next m2) with (m_next m) in G. rewrite Ek in G. specialize (G ltac:(lia)). lia. }
        assert (Hm : length l * D <= D * D) by (apply Nat.mul_le_mono_r; exact Hl).
        split; [discriminate|]. split; [discriminate|]. intros _. simpl. lia.
      + assert (H2 : 2 <= S (S k)) by lia. specialize (C2 H2).
        assert (Hl : length l <= W).
        { apply (move_clean_width_relaxed st_eqb inp m2 m3 l Hmv Ht); [|exact Hwidth].
          change (m_layers m2) with (m_layers m). rewrite Ek. lia. }
        assert (Hm : length l * D <= W * D) by (apply Nat.mul_le_mono_r; exact Hl).
        split; [discriminate|]. split; [discriminate|]. intros _.
        replace (S (S (S k)) - 2) with (S (S (S k) - 2)) by lia.
        rewrite Nat.mul_succ_l. lia.
  Qed.

  Lemma compile_node_count tb tb2 c ds polls (m : mdd) out :
    ci_type inp = Relaxed ->
    compile st_eqb inp tb tb2 c ds polls = (m, out) -> length (m_nodes m) <= Mbound.
  Proof.
    intros Ht H. destruct (compile_unfold tb tb2 c ds polls) as (ml & Hl & HP & HS & HX & Hc).
    rewrite Hc in H. inversion H; subst.
    destruct (finalize_facts tb tb2 ml HP HS HX) as (_ & -> & _).
    eapply layer_loop_count; [exact Ht|apply Linv_initialize| |exact Hl].
    split; [|split]; simpl; intros; try discriminate; lia.
  Qed.

  (* P3 (K5) *)
  Theorem cutset_size_bound tb tb2 c ds polls (m : mdd) out :
    ci_type inp = Relaxed ->
    compile st_eqb inp tb tb2 c ds polls = (m, out) -> length (drain_cutset inp m) <= Mbound.
  Proof.
    intros Ht H.
    pose proof (compile_node_count tb tb2 c ds polls m out Ht H) as Hn.
    destruct (compile_unfold tb tb2 c ds polls) as (ml & Hl & HP & HS & HX & Hc).
    rewrite Hc in H. inversion H; subst. clear H.
    destruct (finalize_facts tb tb2 ml HP HS HX) as (_ & _ & _ & _ & _ & _ & _ & _ & Fnd & Fc).
    set (m := finalize st_eqb inp tb tb2 ml) in *.
    assert (H1 : length (drain_cutset inp m) <= length (m_cutset m)).
    { unfold drain_cutset. destruct (dd_best_value inp m); [|simpl; lia].
      apply flat_map_length_le. intros id. destruct (f_marked _); simpl; lia. }
    assert (H2 : length (m_cutset m) <= length (m_nodes m)).
    { apply NoDup_bounded_length; [exact Fnd|]. intros id Hid. apply (Fc Ht id Hid). }
    lia.
  Qed.

  (* ================================================================== 11. the abstract semantics (K1, K3_good) *)
  Theorem cutset_good tb tb2 c ds polls (m : mdd) out sp :
    good pb root ->
    compile st_eqb inp tb tb2 c ds polls = (m, out) ->
    In sp (drain_cutset inp m) -> good pb sp.
  Proof.
    intros (Hr0 & ds0 & G1 & G2 & G3) H Hin.
    destruct (compile_completes tb tb2 c ds polls m out H) as [-> _].
    destruct (cutset_nodes_exact st_eqb st_eqb_spec inp Hclean tb tb2 c ds polls m sp H Hin)
      as (id & _ & Hlt & _ & _ & Hpath & _ & _ & Hdep & Hrep & Hlen).
    split.
    - rewrite Hdep. apply (compile_node_depth tb tb2 c ds polls m Compiled id H Hlt).
    - exists (ds0 ++ rev (chain inp m id)). split; [|split].
      + rewrite app_length, rev_length, G1, Hlen. reflexivity.
      + rewrite Hpath. apply Permutation_app; [exact G2|]. apply Permutation_sym, Permutation_rev.
      + rewrite replay_sat_app, G3. exact Hrep.
  Qed.

  Theorem best_exact_feasible tb tb2 c ds polls (m : mdd) out v :
    good pb root ->
    compile st_eqb inp tb tb2 c ds polls = (m, out) ->
    dd_best_exact_value inp m = Some v ->
    exists sol, dd_best_exact_solution inp m = Some sol /\ feasible pb sol v.
  Proof.
    intros (Hr0 & ds0 & G1 & G2 & G3) H Hv.
    destruct (compile_completes tb tb2 c ds polls m out H) as [-> _].
    unfold dd_best_exact_value in Hv. unfold dd_best_exact_solution.
    destruct (m_best_exact m) as [b|] eqn:Eb; [|discriminate]. simpl in Hv. inversion Hv; subst v. simpl.
    destruct (best_exact_solution_genuine st_eqb st_eqb_spec inp Hclean tb tb2 c ds polls m b H Eb)
      as (Hlt & _ & Hrep & Hpath & Hlen).
    pose proof (compile_best_depth tb tb2 c ds polls m Compiled b H (or_intror Eb)) as HdN.
    eexists. split; [reflexivity|].
    exists (ds0 ++ rev (chain inp m b)), (n_state (gn m b)). split; [|split].
    - rewrite app_length, rev_length, G1, Hlen, HdN. lia.
    - rewrite Hpath. apply Permutation_app; [exact G2|]. apply Permutation_sym, Permutation_rev.
    - rewrite replay_sat_app, G3. exact Hrep.
  Qed.
End Progress.

(* ------------------------------------------------------------------ 12. the contracts of SolverProofs.v
   [mk_input cfg ct n lb] meets the section hypotheses of [Progress] as soon as the configuration is
   [config_ok] (no cache, no dominance rule, no cutoff), uses a clean diagram flavour, a width >= 1,
   and the problem has a static variable order:
     ci_use_cache (mk_input ..) = sc_use_cache cfg,  ci_domrule = sc_domrule cfg,  ci_cutoff = sc_cutoff cfg,
     ci_flavour = sc_flavour cfg,  ci_width = sc_width cfg,  ci_problem = sc_problem cfg,  ci_root = n
   all by computation.  Each K*_holds below is stated exactly like the hypothesis K* of SolverProofs.v,
   with good := good (sc_problem cfg), feasible := feasible (sc_problem cfg), M := Kbound. *)
Section Assembly.
  Context {St : Type}.
  Variable st_eqb : St -> St -> bool.
  Hypothesis st_eqb_spec : forall a b, st_eqb a b = true <-> a = b.
  Variable cfg : @sconfig St.
  Notation P := (sc_problem cfg).
  Notation N := (nb_vars (sc_problem cfg)).

  Hypothesis cfg_ok : config_ok cfg.
  Hypothesis cfg_clean : sc_flavour cfg = CleanLEL \/ sc_flavour cfg = CleanFC.
  Hypothesis cfg_width : 1 <= sc_width cfg.
  Hypothesis cfg_nv_some : forall k l, k < N -> exists x, next_variable P k l = Some x.
  Hypothesis cfg_nv_none : forall k l, N <= k -> next_variable P k l = None.

  Lemma mk_input_fields ct (n : @subproblem St) lb :
    ci_flavour (mk_input cfg ct n lb) = sc_flavour cfg /\ ci_type (mk_input cfg ct n lb) = ct /\
    ci_problem (mk_input cfg ct n lb) = sc_problem cfg /\ ci_width (mk_input cfg ct n lb) = sc_width cfg /\
    ci_root (mk_input cfg ct n lb) = n /\ ci_best_lb (mk_input cfg ct n lb) = lb /\
    ci_use_cache (mk_input cfg ct n lb) = sc_use_cache cfg /\ ci_domrule (mk_input cfg ct n lb) = sc_domrule cfg /\
    ci_cutoff (mk_input cfg ct n lb) = sc_cutoff cfg.
  Proof. repeat split. Qed.

  (* the hypothesis good_root of SolverProofs.v *)
  Lemma good_root_holds : good P (root_node cfg).
  Proof. apply good_root_node_gen; reflexivity. Qed.

  Theorem K0_holds : forall ct n lb c ds polls m out,
    dd_ct ct -> good P n -> sp_depth n <= N ->
    compile st_eqb (mk_input cfg ct n lb) 0 0 c ds polls = (m, out) ->
    out = Compiled /\ m_crash m = false.
  Proof.
    intros ct n lb c ds polls m out _ _ Hd H. destruct cfg_ok as (O1 & O2 & O3 & _).
    exact (compile_completes st_eqb st_eqb_spec (mk_input cfg ct n lb) cfg_clean O1 O2 O3 cfg_width
             cfg_nv_some cfg_nv_none Hd 0 0 c ds polls m out H).
  Qed.

  Theorem K1_holds : forall ct n lb c ds polls m out,
    dd_ct ct -> good P n -> sp_depth n <= N ->
    compile st_eqb (mk_input cfg ct n lb) 0 0 c ds polls = (m, out) ->
    forall v, dd_best_exact_value (mk_input cfg ct n lb) m = Some v ->
    exists sol, dd_best_exact_solution (mk_input cfg ct n lb) m = Some sol /\ feasible P sol v.
  Proof.
    intros ct n lb c ds polls m out _ Hg Hd H v Hv. destruct cfg_ok as (O1 & O2 & O3 & _).
    exact (best_exact_feasible st_eqb st_eqb_spec (mk_input cfg ct n lb) cfg_clean O1 O2 O3 cfg_width
             cfg_nv_some cfg_nv_none Hd 0 0 c ds polls m out v Hg H Hv).
  Qed.

  Theorem K3_good_holds : forall n lb c ds polls m out,
    good P n -> sp_depth n <= N ->
    compile st_eqb (mk_input cfg Relaxed n lb) 0 0 c ds polls = (m, out) ->
    dd_is_exact m = false ->
    forall x, In x (drain_cutset (mk_input cfg Relaxed n lb) m) -> good P x.
  Proof.
    intros n lb c ds polls m out Hg Hd H _ x Hx. destruct cfg_ok as (O1 & O2 & O3 & _).
    exact (cutset_good st_eqb st_eqb_spec (mk_input cfg Relaxed n lb) cfg_clean O1 O2 O3 cfg_width
             cfg_nv_some cfg_nv_none Hd 0 0 c ds polls m out x Hg H Hx).
  Qed.

  Theorem K3_depth_holds : forall n lb c ds polls m out,
    good P n -> sp_depth n <= N ->
    compile st_eqb (mk_input cfg Relaxed n lb) 0 0 c ds polls = (m, out) ->
    dd_is_exact m = false ->
    forall x, In x (drain_cutset (mk_input cfg Relaxed n lb) m) -> sp_depth n < sp_depth x <= N.
  Proof.
    intros n lb c ds polls m out _ Hd H _ x Hx. destruct cfg_ok as (O1 & O2 & O3 & _).
    exact (cutset_depth st_eqb st_eqb_spec (mk_input cfg Relaxed n lb) cfg_clean O1 O2 O3 cfg_width
             cfg_nv_some cfg_nv_none Hd 0 0 c ds polls m out x eq_refl H Hx).
  Qed.

  Variable D : nat.
  Hypothesis cfg_dom_bound : forall x s, length (domain P x s) <= D.

  Definition Kbound : nat := 3 + D + D * D + N * (1 + sc_width cfg * D).

  Theorem K5_holds : forall n lb c ds polls m out,
    good P n -> sp_depth n <= N ->
    compile st_eqb (mk_input cfg Relaxed n lb) 0 0 c ds polls = (m, out) ->
    dd_is_exact m = false ->
    length (drain_cutset (mk_input cfg Relaxed n lb) m) <= Kbound.
  Proof.
    intros n lb c ds polls m out _ Hd H _. destruct cfg_ok as (O1 & O2 & O3 & _).
    exact (cutset_size_bound st_eqb st_eqb_spec (mk_input cfg Relaxed n lb) cfg_clean O1 O2 O3 cfg_width
             cfg_nv_some cfg_nv_none Hd D cfg_dom_bound 0 0 c ds polls m out eq_refl H).
  Qed.
End Assembly.

(* ------------------------------------------------------------------ assumptions *)
Print Assumptions compile_completes.
Print Assumptions compile_node_depth.
Print Assumptions compile_layer_depth.
Print Assumptions compile_best_depth.
Print Assumptions cutset_depth.
Print Assumptions cutset_nodup.
Print Assumptions cutset_size_bound.
Print Assumptions cutset_good.
Print Assumptions best_exact_feasible.
Print Assumptions good_set_ub_holds.
Print Assumptions K0_holds.
Print Assumptions K1_holds.
Print Assumptions K3_good_holds.
Print Assumptions K3_depth_holds.
Print Assumptions K5_holds.
