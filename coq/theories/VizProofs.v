(* VizProofs.v — C20: faithfulness of as_graphviz (Viz.v), via a structured view of the output.

   (1) an abstract syntax [stmt] for the statements the printer emits, [viz_ast] computing the statement list
       directly from the diagram, a renderer [render], and the exact string equation
         as_graphviz_is_render : as_graphviz show inp m cfg = option_map render (viz_ast show inp m cfg)
       (every diagram, no well-formedness needed);
   (2) the clauses of C20 as theorems about [viz_ast]:
         declared_exactly_once, node_attrs, edges_complete, edges_are_arcs(_wf), edges_into_complete, best_marks,
         terminal_iff, terminal_edges, clusters_only_on_request(_wf);
   (3) light-weight syntactic well-formedness of the rendered string (prefix / suffix, statement = tab .. ";" newline,
       even number of double quotes and exactly one newline per non-cluster statement when [show] is clean);
   (4) C20_as_graphviz_faithful: composition with as_graphviz_total / wf_compile for a completed compilation;
   (5) non-vacuity: evaluation on compiled table instances.
   Stdlib only; no axiom. *)
From Coq Require Import String Ascii DecimalString.
Require Import DDO.Base DDO.Fringe DDO.DP DDO.Cache DDO.Dom DDO.Mdd DDO.Viz DDO.MddStruct DDO.Table DDO.TableWf DDO.Run.
Open Scope Z_scope.
Open Scope string_scope.

(* ================================================================ (0) strings and lists *)
Lemma sapp_assoc (a b c : string) : (a ++ b) ++ c = a ++ (b ++ c).
Proof. induction a as [|x a IH]; simpl; [reflexivity|rewrite IH; reflexivity]. Qed.

Lemma sapp_nil_r (a : string) : a ++ "" = a.
Proof. induction a as [|x a IH]; simpl; [reflexivity|rewrite IH; reflexivity]. Qed.

Lemma sconcat_app (l1 l2 : list string) : sconcat (l1 ++ l2)%list = sconcat l1 ++ sconcat l2.
Proof. induction l1 as [|x l1 IH]; simpl; [reflexivity|rewrite IH, sapp_assoc; reflexivity]. Qed.

Lemma sconcat_map_app {A} (f : A -> string) (l1 l2 : list A) :
  sconcat (map f (l1 ++ l2)%list) = sconcat (map f l1) ++ sconcat (map f l2).
Proof. rewrite map_app. apply sconcat_app. Qed.

Lemma sconcat_map_flat_map {A B} (f : B -> string) (g : A -> list B) (l : list A) :
  sconcat (map f (flat_map g l)) = sconcat (map (fun x => sconcat (map f (g x))) l).
Proof. induction l as [|x l IH]; simpl; [reflexivity|]. rewrite sconcat_map_app, IH. reflexivity. Qed.

Lemma sconcat_map_ext {A} (f g : A -> string) (l : list A) :
  (forall x, In x l -> f x = g x) -> sconcat (map f l) = sconcat (map g l).
Proof. intros H. f_equal. apply map_ext_in. exact H. Qed.

Lemma flat_map_nil_Forall {A B} (P : A -> Prop) (f : A -> list B) (l : list A) :
  Forall P l -> (forall x, P x -> f x = []) -> flat_map f l = [].
Proof. intros F H. induction F as [|x l Hx _ IH]; simpl; [reflexivity|]. rewrite (H x Hx), IH. reflexivity. Qed.

Lemma filter_nil_Forall {A} (P : A -> Prop) (p : A -> bool) (l : list A) :
  Forall P l -> (forall x, P x -> p x = false) -> filter p l = [].
Proof. intros F H. induction F as [|x l Hx _ IH]; simpl; [reflexivity|]. rewrite (H x Hx), IH. reflexivity. Qed.

Lemma filter_filter_impl {A} (p q : A -> bool) (l : list A) :
  (forall x, p x = true -> q x = true) -> filter p (filter q l) = filter p l.
Proof.
  intros H. induction l as [|x l IH]; simpl; [reflexivity|].
  destruct (q x) eqn:Q; simpl; rewrite IH; [reflexivity|].
  destruct (p x) eqn:Px; [|reflexivity]. rewrite (H x Px) in Q. discriminate.
Qed.

Lemma rev_cons_last {A} (l : list A) (x : A) (r : list A) (d : A) :
  rev l = (x :: r)%list -> last l d = x /\ l <> [].
Proof.
  intros H. assert (E : l = (rev r ++ [x])%list).
  { rewrite <- (rev_involutive l), H. reflexivity. }
  subst l. split; [apply last_last|]. intros C. apply app_eq_nil in C. destruct C as [_ C]. discriminate.
Qed.

Lemma zmax_list_none (l : list Z) : zmax_list l = None -> l = [].
Proof. destruct l as [|x l]; simpl; [reflexivity|]. destruct (zmax_list l); discriminate. Qed.

Lemma zmax_list_spec (l : list Z) (mx : Z) :
  zmax_list l = Some mx -> In mx l /\ forall x, In x l -> x <= mx.
Proof.
  revert mx. induction l as [|y l IH]; simpl; intros mx H; [discriminate|].
  destruct (zmax_list l) as [m0|] eqn:E.
  - inversion H; subst mx. destruct (IH m0 eq_refl) as [I1 I2]. split.
    + destruct (Z.max_spec y m0) as [[_ ->]|[_ ->]]; auto.
    + intros x [->|Hx]; [lia|]. specialize (I2 x Hx). lia.
  - inversion H; subst mx. apply zmax_list_none in E. subst l. split; [auto|].
    intros x [->|[]]. lia.
Qed.

(* ================================================================ (1) the abstract syntax and its renderer *)
Inductive stmt :=
| SNode (id : nat) (attrs : string)
| SEdge (from to : nat) (best : bool) (d : decision) (cost : Z)
| SCluster (key : string) (ids : list nat)
| STerminalDecl
| STerminalEdge (from : nat) (best : bool).

Definition term_decl_line : string :=
  tab ++ "terminal [shape=" ++ dq ++ "circle" ++ dq ++ ", label=" ++ dq ++ dq ++ ", style=" ++ dq ++ "filled" ++ dq
  ++ ", color=" ++ dq ++ "black" ++ dq ++ ", group=" ++ dq ++ "terminal" ++ dq ++ "];" ++ nl.

(* one statement, with the very helpers of Viz.v: viz_node's format, viz_edge, cluster, the two terminal lines *)
Definition render_stmt (s : stmt) : string :=
  match s with
  | SNode id attrs => tab ++ nstr id ++ " [" ++ attrs ++ "];" ++ nl
  | SEdge f t b d c => viz_edge {| e_from := f; e_to := t; e_dec := d; e_cost := c |} b
  | SCluster key ids => cluster key ids
  | STerminalDecl => term_decl_line
  | STerminalEdge id b =>
      if b then tab ++ nstr id ++ " -> terminal [penwidth=3];" ++ nl
      else tab ++ nstr id ++ " -> terminal;" ++ nl
  end.

Definition viz_header : string := "digraph {" ++ nl ++ tab ++ "ranksep = 3;" ++ nl ++ nl.
Definition viz_footer : string := "}" ++ nl.
Definition render (ast : list stmt) : string := viz_header ++ sconcat (map render_stmt ast) ++ viz_footer.

(* projections of a statement list *)
Definition node_id_of (s : stmt) : list nat := match s with SNode id _ => [id] | _ => [] end.
Definition declared_ids (ast : list stmt) : list nat := flat_map node_id_of ast.
Definition is_node (s : stmt) : bool := match s with SNode _ _ => true | _ => false end.
Definition is_edge (s : stmt) : bool := match s with SEdge _ _ _ _ _ => true | _ => false end.
Definition is_cluster (s : stmt) : bool := match s with SCluster _ _ => true | _ => false end.
Definition is_tdecl (s : stmt) : bool := match s with STerminalDecl => true | _ => false end.
Definition is_term (s : stmt) : bool := match s with STerminalDecl | STerminalEdge _ _ => true | _ => false end.
Definition is_edge_into (t : nat) (s : stmt) : bool := match s with SEdge _ t' _ _ _ => Nat.eqb t' t | _ => false end.
Definition edge_stmts (ast : list stmt) : list stmt := filter is_edge ast.
Definition edges_into (t : nat) (ast : list stmt) : list stmt := filter (is_edge_into t) ast.
Definition term_edge_of (s : stmt) : list (nat * bool) := match s with STerminalEdge id b => [(id, b)] | _ => [] end.
Definition term_edges (ast : list stmt) : list (nat * bool) := flat_map term_edge_of ast.
Definition count_tdecl (ast : list stmt) : nat := List.length (filter is_tdecl ast).

Lemma declared_ids_app a b : declared_ids (a ++ b)%list = (declared_ids a ++ declared_ids b)%list.
Proof. apply flat_map_app. Qed.


(* ---------------------------------------------------------------- counting characters (used by part 3) *)
Fixpoint count_char (c : ascii) (s : string) : nat :=
  match s with
  | EmptyString => 0%nat
  | String a s' => ((if Ascii.eqb a c then 1 else 0) + count_char c s')%nat
  end.

Lemma count_app c a b : count_char c (a ++ b) = (count_char c a + count_char c b)%nat.
Proof. induction a as [|x a IH]; simpl; [reflexivity|]. rewrite IH. lia. Qed.

Definition dqc : ascii := ascii_of_nat 34.     (* the double quote *)
Definition nlc : ascii := ascii_of_nat 10.     (* the newline *)
Lemma dq_is_dqc : dq = String dqc "". Proof. reflexivity. Qed.
Lemma nl_is_nlc : nl = String nlc "". Proof. reflexivity. Qed.

Definition special (c : ascii) : Prop := c = dqc \/ c = nlc.
Lemma special_dq : special dqc. Proof. left; reflexivity. Qed.
Lemma special_nl : special nlc. Proof. right; reflexivity. Qed.

Lemma count_uint c d : special c -> count_char c (NilEmpty.string_of_uint d) = 0%nat.
Proof.
  intros [-> | ->]; induction d; cbn [NilEmpty.string_of_uint count_char]; rewrite ?IHd; reflexivity.
Qed.

Lemma count_zstr c z : special c -> count_char c (zstr z) = 0%nat.
Proof.
  intros Hc. unfold zstr, NilZero.string_of_int.
  assert (U : forall d, count_char c (NilZero.string_of_uint d) = 0%nat).
  { intros d. unfold NilZero.string_of_uint. destruct d; try (apply count_uint; exact Hc).
    destruct Hc as [-> | ->]; reflexivity. }
  destruct (Z.to_int z) as [d|d]; [apply U|]. cbn [count_char]. rewrite U. destruct Hc as [-> | ->]; reflexivity.
Qed.

Lemma count_nstr c n : special c -> count_char c (nstr n) = 0%nat.
Proof. intros; unfold nstr; apply count_zstr; assumption. Qed.

Lemma count_extreme c x : special c -> count_char c (extreme x) = 0%nat.
Proof.
  intros Hc. unfold extreme. destruct (x =? IMAX)%Z; [destruct Hc as [-> | ->]; reflexivity|].
  destruct (x =? IMIN)%Z; [destruct Hc as [-> | ->]; reflexivity|]. apply count_zstr; exact Hc.
Qed.

Lemma count_sjoin c sep (l : list string) :
  count_char c sep = 0%nat -> Forall (fun s => count_char c s = 0%nat) l -> count_char c (sjoin sep l) = 0%nat.
Proof.
  intros Hsep F. induction F as [|x l Hx F IH]; [reflexivity|].
  destruct l as [|y l']; [exact Hx|].
  change (sjoin sep (x :: y :: l')) with (x ++ sep ++ sjoin sep (y :: l')).
  rewrite !count_app, Hx, Hsep, IH. reflexivity.
Qed.

Lemma count_sjoin_nstr c (ids : list nat) : special c -> count_char c (sjoin ";" (map nstr ids)) = 0%nat.
Proof.
  intros Hc. apply count_sjoin.
  - destruct Hc as [-> | ->]; reflexivity.
  - apply Forall_forall. intros s Hs. apply in_map_iff in Hs. destruct Hs as [n [<- _]]. apply count_nstr; exact Hc.
Qed.

(* a statement: a tab, a body, a semicolon, a newline *)
Definition ends_semi_nl (s : string) : Prop := exists body, s = body ++ ";" ++ nl.
Definition line_ok (s : string) : Prop := exists body, s = tab ++ body ++ ";" ++ nl.

Lemma ends_app a b : ends_semi_nl b -> ends_semi_nl (a ++ b).
Proof. intros [body ->]. exists (a ++ body). rewrite sapp_assoc. reflexivity. Qed.
Lemma ends_rbracket : ends_semi_nl ("];" ++ nl).
Proof. exists "]". reflexivity. Qed.
Lemma ends_rbrace : ends_semi_nl ("};" ++ nl).
Proof. exists "}". reflexivity. Qed.
Lemma ends_term3 : ends_semi_nl (" -> terminal [penwidth=3];" ++ nl).
Proof. exists " -> terminal [penwidth=3]". reflexivity. Qed.
Lemma ends_term1 : ends_semi_nl (" -> terminal;" ++ nl).
Proof. exists " -> terminal". reflexivity. Qed.
Lemma line_ok_intro r : ends_semi_nl r -> line_ok (tab ++ r).
Proof. intros [body ->]. exists body. reflexivity. Qed.

Definition stmt_syntax_ok (s : stmt) : Prop :=
  line_ok (render_stmt s) /\
  Nat.even (count_char dqc (render_stmt s)) = true /\
  count_char nlc (render_stmt s) = (if is_cluster s then 5 else 1)%nat.

Lemma count_render_node_dq id a : count_char dqc (render_stmt (SNode id a)) = count_char dqc a.
Proof.
  cbn [render_stmt]. rewrite !count_app, count_nstr by apply special_dq.
  generalize (count_char dqc a). intros k. cbv -[Nat.add]. lia.
Qed.
Lemma count_render_node_nl id a : count_char nlc (render_stmt (SNode id a)) = S (count_char nlc a).
Proof.
  cbn [render_stmt]. rewrite !count_app, count_nstr by apply special_nl.
  generalize (count_char nlc a). intros k. cbv -[Nat.add]. lia.
Qed.

Lemma syntax_ok_edge f t b d c : stmt_syntax_ok (SEdge f t b d c).
Proof.
  split; [|split].
  - cbn [render_stmt]. unfold viz_edge. apply line_ok_intro. repeat first [apply ends_rbracket|apply ends_app].
  - cbn [render_stmt]. unfold viz_edge. cbn [e_from e_to e_dec e_cost].
    rewrite !count_app, !count_nstr, !count_zstr by apply special_dq. destruct b; reflexivity.
  - cbn [render_stmt]. unfold viz_edge. cbn [e_from e_to e_dec e_cost].
    rewrite !count_app, !count_nstr, !count_zstr by apply special_nl. destruct b; reflexivity.
Qed.

Lemma syntax_ok_cluster k x l : stmt_syntax_ok (SCluster (nstr k) (x :: l)).
Proof.
  split; [|split].
  - cbn [render_stmt]. unfold cluster. apply line_ok_intro. repeat first [apply ends_rbrace|apply ends_app].
  - cbn [render_stmt]. unfold cluster.
    rewrite !count_app, count_nstr, count_sjoin_nstr by apply special_dq. reflexivity.
  - cbn [render_stmt]. unfold cluster.
    rewrite !count_app, count_nstr, count_sjoin_nstr by apply special_nl. reflexivity.
Qed.

Lemma syntax_ok_tdecl : stmt_syntax_ok STerminalDecl.
Proof.
  split; [|split]; [|reflexivity|reflexivity].
  cbn [render_stmt]. unfold term_decl_line. apply line_ok_intro. repeat first [apply ends_rbracket|apply ends_app].
Qed.

Lemma syntax_ok_tedge id b : stmt_syntax_ok (STerminalEdge id b).
Proof.
  split; [|split].
  - cbn [render_stmt]. destruct b; apply line_ok_intro; repeat first [apply ends_term3|apply ends_term1|apply ends_app].
  - cbn [render_stmt]. destruct b; rewrite !count_app, count_nstr by apply special_dq; reflexivity.
  - cbn [render_stmt]. destruct b; rewrite !count_app, count_nstr by apply special_nl; reflexivity.
Qed.

Lemma even_sconcat_map (f : stmt -> string) (l : list stmt) :
  Forall (fun s => Nat.even (count_char dqc (f s)) = true) l ->
  Nat.even (count_char dqc (sconcat (map f l))) = true.
Proof.
  intros F. induction F as [|x l Hx F IH]; [reflexivity|].
  cbn [map sconcat]. rewrite count_app, Nat.even_add, Hx, IH. reflexivity.
Qed.

Lemma render_even_dq (ast : list stmt) :
  Forall stmt_syntax_ok ast -> Nat.even (count_char dqc (render ast)) = true.
Proof.
  intros F. unfold render. rewrite !count_app, !Nat.even_add.
  rewrite even_sconcat_map; [reflexivity|]. eapply Forall_impl; [|exact F]. intros s [_ [E _]]. exact E.
Qed.

Lemma render_shape (ast : list stmt) :
  prefix "digraph {" (render ast) = true /\
  exists mid, render ast = "digraph {" ++ nl ++ tab ++ "ranksep = 3;" ++ nl ++ nl ++ mid ++ "}" ++ nl.
Proof.
  split; [reflexivity|]. exists (sconcat (map render_stmt ast)). unfold render, viz_header, viz_footer.
  rewrite !sapp_assoc. reflexivity.
Qed.

Section VizProofs.
  Context {St : Type}.
  Variable show : St -> string.
  Variable inp : @cinput St.

  Notation mddT := (@mdd St).
  Notation gn := (get_node inp).
  Notation nnodes m := (List.length (m_nodes m)).

  (* hidden by the configuration *)
  Definition hidden (m : mddT) (cfg : vizconfig) (id : nat) : bool :=
    negb (show_deleted cfg) && f_deleted (n_flags (gn m id)).

  (* `Some(edge) == node.best` on edge values *)
  Definition edge_best (m : mddT) (id eid : nat) : bool :=
    match option_map (get_edge m) (n_best (gn m id)) with
    | Some b => edge_eqb (get_edge m eid) b
    | None => false
    end.

  Definition edge_stmt (m : mddT) (id eid : nat) : stmt :=
    let e := get_edge m eid in SEdge (e_from e) (e_to e) (edge_best m id eid) (e_dec e) (e_cost e).

  Definition node_stmts (m : mddT) (cfg : vizconfig) (id : nat) : list stmt :=
    SNode id (node_attributes show inp m id cfg) :: map (edge_stmt m id) (n_inb (gn m id)).

  Definition body_ast (m : mddT) (cfg : vizconfig) : list stmt :=
    flat_map (fun id => if hidden m cfg id then [] else node_stmts m cfg id) (seq 0 (nnodes m)).

  Definition cluster_stmt (key : string) (ids : list nat) : list stmt :=
    match ids with [] => [] | _ => [SCluster key ids] end.

  Fixpoint clusters_clean_ast (m : mddT) (i : nat) (layers : list (list nat)) : list stmt :=
    match layers with
    | [] => []
    | l :: ls => (cluster_stmt (nstr i) (filter (is_merged_or_deleted inp m) l) ++ clusters_clean_ast m (S i) ls)%list
    end.

  Definition clusters_pooled_ast (m : mddT) : list stmt :=
    let ids := filter (is_merged_or_deleted inp m) (seq 0 (nnodes m)) in
    flat_map (fun d => cluster_stmt (nstr d) (filter (fun id => Nat.eqb (n_depth (gn m id)) d) ids))
             (depths_sorted inp m ids).

  Definition clusters_ast (m : mddT) (cfg : vizconfig) : list stmt :=
    if show_deleted cfg && group_merged cfg then
      (if is_pooled (ci_flavour inp) then clusters_pooled_ast m else clusters_clean_ast m 0 (m_layers m))
    else [].

  Definition last_layer (m : mddT) : list nat := last (m_layers m) [].

  Definition terminal_drawn (m : mddT) : bool :=
    match last_layer m with
    | [] => false
    | _ => is_pooled (ci_flavour inp) || match m_best m with Some _ => true | None => false end
    end.

  Definition last_vmax (m : mddT) : Z :=
    opt_default IMAX (zmax_list (map (fun id => n_vtop (gn m id)) (last_layer m))).

  Definition terminal_ast (m : mddT) : list stmt :=
    if terminal_drawn m then
      STerminalDecl :: map (fun id => STerminalEdge id (Z.eqb (n_vtop (gn m id)) (last_vmax m))) (last_layer m)
    else [].

  (* None = layers.last().unwrap() panics *)
  Definition viz_ast (m : mddT) (cfg : vizconfig) : option (list stmt) :=
    match m_layers m with
    | [] => None
    | _ => Some (body_ast m cfg ++ clusters_ast m cfg ++ terminal_ast m)%list
    end.

  (* ---------------------------------------------------------------- rendering the three parts *)
  Lemma render_node_stmt m cfg id :
    render_stmt (SNode id (node_attributes show inp m id cfg)) = viz_node show inp m id cfg.
  Proof. reflexivity. Qed.

  Lemma render_edge_stmt m id eid :
    render_stmt (edge_stmt m id eid) = viz_edge (get_edge m eid) (edge_best m id eid).
  Proof. reflexivity. Qed.

  Lemma render_node_stmts m cfg id :
    sconcat (map render_stmt (node_stmts m cfg id)) = viz_node show inp m id cfg ++ viz_edges_of inp m id.
  Proof.
    unfold node_stmts. rewrite map_cons. change (sconcat (?x :: ?l)) with (x ++ sconcat l).
    rewrite render_node_stmt. f_equal. rewrite map_map. unfold viz_edges_of. reflexivity.
  Qed.

  Lemma render_body m cfg :
    sconcat (map render_stmt (body_ast m cfg)) =
    sconcat (map (fun id =>
        let n := gn m id in
        if negb (show_deleted cfg) && f_deleted (n_flags n) then ""
        else viz_node show inp m id cfg ++ viz_edges_of inp m id) (seq 0 (nnodes m))).
  Proof.
    unfold body_ast. rewrite sconcat_map_flat_map. apply sconcat_map_ext. intros id _.
    unfold hidden. cbv zeta. destruct (negb (show_deleted cfg) && f_deleted (n_flags (gn m id))); [reflexivity|].
    apply render_node_stmts.
  Qed.

  Lemma render_cluster_stmt key ids : sconcat (map render_stmt (cluster_stmt key ids)) = cluster key ids.
  Proof.
    destruct ids as [|i ids]; [reflexivity|]. unfold cluster_stmt. cbn [map sconcat render_stmt]. apply sapp_nil_r.
  Qed.

  Lemma render_clusters_clean m i layers :
    sconcat (map render_stmt (clusters_clean_ast m i layers)) = clusters_clean inp m i layers.
  Proof.
    revert i. induction layers as [|l ls IH]; intros i; [reflexivity|].
    cbn [clusters_clean_ast clusters_clean]. rewrite sconcat_map_app, render_cluster_stmt, IH. reflexivity.
  Qed.

  Lemma render_clusters_pooled m :
    sconcat (map render_stmt (clusters_pooled_ast m)) = clusters_pooled inp m.
  Proof.
    unfold clusters_pooled_ast, clusters_pooled. cbv zeta. rewrite sconcat_map_flat_map.
    apply sconcat_map_ext. intros d _. apply render_cluster_stmt.
  Qed.

  Lemma render_clusters m cfg :
    sconcat (map render_stmt (clusters_ast m cfg)) =
    (if show_deleted cfg && group_merged cfg then
       (if is_pooled (ci_flavour inp) then clusters_pooled inp m else clusters_clean inp m 0 (m_layers m))
     else "").
  Proof.
    unfold clusters_ast. destruct (show_deleted cfg && group_merged cfg); [|reflexivity].
    destruct (is_pooled (ci_flavour inp)); [apply render_clusters_pooled|apply render_clusters_clean].
  Qed.

  Lemma render_terminal m :
    m_layers m <> [] -> viz_terminal inp m = Some (sconcat (map render_stmt (terminal_ast m))).
  Proof.
    intros Hne. unfold viz_terminal, terminal_ast, terminal_drawn, last_vmax, last_layer.
    destruct (rev (m_layers m)) as [|lastl rest] eqn:Hr.
    { exfalso. apply Hne. rewrite <- (rev_involutive (m_layers m)), Hr. reflexivity. }
    destruct (rev_cons_last _ _ _ [] Hr) as [Hl _]. rewrite Hl.
    destruct lastl as [|x lastl]; [reflexivity|].
    destruct (is_pooled (ci_flavour inp)); destruct (m_best m); cbn [negb andb orb]; try reflexivity;
      generalize (opt_default IMAX (zmax_list (map (fun id0 => n_vtop (gn m id0)) (x :: lastl)))); intros v;
      generalize (x :: lastl)%list; intros L; f_equal; cbn [map sconcat render_stmt]; rewrite map_map;
      unfold term_decl_line; rewrite !sapp_assoc; reflexivity.
  Qed.

  (* the exact string equation: the printer is the renderer applied to the statement list *)
  Theorem as_graphviz_is_render m cfg :
    as_graphviz show inp m cfg = option_map render (viz_ast m cfg).
  Proof.
    unfold as_graphviz, viz_ast. cbv zeta.
    destruct (m_layers m) as [|l0 ls] eqn:HL.
    - unfold viz_terminal. rewrite HL. reflexivity.
    - rewrite render_terminal by (rewrite HL; discriminate).
      rewrite <- HL. cbn [option_map]. f_equal. unfold render.
      rewrite !sconcat_map_app, render_body, render_clusters.
      unfold viz_header, viz_footer. rewrite !sapp_assoc. reflexivity.
  Qed.

  (* ================================================================ (2) the clauses, on viz_ast *)
  Lemma viz_ast_inv m cfg ast :
    viz_ast m cfg = Some ast ->
    ast = (body_ast m cfg ++ clusters_ast m cfg ++ terminal_ast m)%list /\ m_layers m <> [].
  Proof.
    unfold viz_ast. destruct (m_layers m); [discriminate|]. intros H; inversion H. split; [reflexivity|discriminate].
  Qed.

  Lemma viz_ast_some m cfg : m_layers m <> [] -> exists ast, viz_ast m cfg = Some ast.
  Proof. unfold viz_ast. destruct (m_layers m); [congruence|]. eexists; reflexivity. Qed.

  (* ---------------------------------------------------------------- statement kinds of the three parts *)
  Lemma edge_stmts_kind m id l : Forall (fun s => is_edge s = true) (map (edge_stmt m id) l).
  Proof. apply Forall_forall. intros s Hs. apply in_map_iff in Hs. destruct Hs as [e [<- _]]. reflexivity. Qed.

  Lemma body_kinds m cfg : Forall (fun s => is_node s || is_edge s = true) (body_ast m cfg).
  Proof.
    unfold body_ast. apply Forall_flat_map. apply Forall_forall. intros id _.
    destruct (hidden m cfg id); [constructor|]. unfold node_stmts. constructor; [reflexivity|].
    eapply Forall_impl; [|apply edge_stmts_kind]. cbv beta. intros s ->. apply orb_true_r.
  Qed.

  Lemma cluster_stmt_kind key ids : Forall (fun s => is_cluster s = true) (cluster_stmt key ids).
  Proof. destruct ids; repeat constructor. Qed.

  Lemma clusters_kinds m cfg : Forall (fun s => is_cluster s = true) (clusters_ast m cfg).
  Proof.
    unfold clusters_ast. destruct (show_deleted cfg && group_merged cfg); [|constructor].
    destruct (is_pooled (ci_flavour inp)).
    - unfold clusters_pooled_ast. cbv zeta. apply Forall_flat_map. apply Forall_forall. intros d _. apply cluster_stmt_kind.
    - generalize 0%nat. induction (m_layers m) as [|l ls IH]; intros i; cbn [clusters_clean_ast]; [constructor|].
      apply Forall_app. split; [apply cluster_stmt_kind|apply IH].
  Qed.

  Lemma terminal_kinds m : Forall (fun s => is_term s = true) (terminal_ast m).
  Proof.
    unfold terminal_ast. destruct (terminal_drawn m); [|constructor]. constructor; [reflexivity|].
    apply Forall_forall. intros s Hs. apply in_map_iff in Hs. destruct Hs as [e [<- _]]. reflexivity.
  Qed.

  (* ---------------------------------------------------------------- declared nodes *)
  Definition visible (m : mddT) (cfg : vizconfig) (id : nat) : bool := negb (hidden m cfg id).

  Lemma visible_spec m cfg id :
    visible m cfg id = true <-> (show_deleted cfg = true \/ f_deleted (n_flags (gn m id)) = false).
  Proof.
    unfold visible, hidden. destruct (show_deleted cfg); destruct (f_deleted (n_flags (gn m id))); cbn; intuition discriminate.
  Qed.

  Lemma declared_ids_edges m id l : declared_ids (map (edge_stmt m id) l) = [].
  Proof.
    unfold declared_ids. eapply flat_map_nil_Forall; [apply edge_stmts_kind|]. intros [] H; try discriminate; reflexivity.
  Qed.

  Lemma declared_ids_body_gen m cfg (l : list nat) :
    declared_ids (flat_map (fun id => if hidden m cfg id then [] else node_stmts m cfg id) l) = filter (visible m cfg) l.
  Proof.
    induction l as [|id l IH]; [reflexivity|]. cbn [flat_map filter]. rewrite declared_ids_app, IH.
    unfold visible at 2. destruct (hidden m cfg id); cbn [negb]; [reflexivity|].
    unfold node_stmts. change (declared_ids (SNode id ?a :: ?r)) with (id :: declared_ids r).
    rewrite declared_ids_edges. reflexivity.
  Qed.

  Lemma declared_ids_ast m cfg ast :
    viz_ast m cfg = Some ast -> declared_ids ast = filter (visible m cfg) (seq 0 (nnodes m)).
  Proof.
    intros H. apply viz_ast_inv in H. destruct H as [-> _]. rewrite !declared_ids_app.
    unfold body_ast. rewrite declared_ids_body_gen.
    assert (E1 : declared_ids (clusters_ast m cfg) = []).
    { eapply flat_map_nil_Forall; [apply clusters_kinds|]. intros [] H; try discriminate; reflexivity. }
    assert (E2 : declared_ids (terminal_ast m) = []).
    { eapply flat_map_nil_Forall; [apply terminal_kinds|]. intros [] H; try discriminate; reflexivity. }
    rewrite E1, E2, !app_nil_r. reflexivity.
  Qed.

  (* every node that is not hidden by the configuration is declared exactly once, and nothing else is *)
  Theorem declared_exactly_once m cfg ast :
    viz_ast m cfg = Some ast ->
    NoDup (declared_ids ast) /\
    forall id, In id (declared_ids ast) <->
               (id < nnodes m)%nat /\ (show_deleted cfg = true \/ f_deleted (n_flags (gn m id)) = false).
  Proof.
    intros H. rewrite (declared_ids_ast _ _ _ H). split.
    - apply NoDup_filter, seq_NoDup.
    - intros id. rewrite filter_In, in_seq, visible_spec. intuition lia.
  Qed.

  (* a node of the diagram is declared or hidden by the configuration *)
  Lemma declared_or_hidden m cfg ast id :
    viz_ast m cfg = Some ast -> (id < nnodes m)%nat -> In id (declared_ids ast) \/ hidden m cfg id = true.
  Proof.
    intros H Hid. destruct (hidden m cfg id) eqn:Hh; [right; reflexivity|left].
    apply (declared_exactly_once _ _ _ H). split; [exact Hid|]. apply visible_spec. unfold visible. rewrite Hh. reflexivity.
  Qed.

  Lemma In_body_node m cfg id a :
    In (SNode id a) (body_ast m cfg) -> a = node_attributes show inp m id cfg.
  Proof.
    unfold body_ast. intros H. apply in_flat_map in H. destruct H as [id' [_ H]].
    destruct (hidden m cfg id'); [destruct H|]. destruct H as [H|H]; [inversion H; reflexivity|].
    apply in_map_iff in H. destruct H as [e [H _]]. discriminate.
  Qed.

  Lemma In_ast_split m cfg ast s :
    viz_ast m cfg = Some ast -> In s ast ->
    (In s (body_ast m cfg) /\ is_node s || is_edge s = true) \/
    (In s (clusters_ast m cfg) /\ is_cluster s = true) \/
    (In s (terminal_ast m) /\ is_term s = true).
  Proof.
    intros H Hs. apply viz_ast_inv in H. destruct H as [-> _].
    apply in_app_or in Hs. destruct Hs as [Hs|Hs].
    { left. split; [exact Hs|]. exact (proj1 (Forall_forall _ _) (body_kinds m cfg) s Hs). }
    apply in_app_or in Hs. destruct Hs as [Hs|Hs].
    { right; left. split; [exact Hs|]. exact (proj1 (Forall_forall _ _) (clusters_kinds m cfg) s Hs). }
    right; right. split; [exact Hs|]. exact (proj1 (Forall_forall _ _) (terminal_kinds m) s Hs).
  Qed.

  (* the attribute list of a declaration is the one of that node *)
  Theorem node_attrs m cfg ast id a :
    viz_ast m cfg = Some ast -> In (SNode id a) ast -> a = node_attributes show inp m id cfg.
  Proof.
    intros H Hs. destruct (In_ast_split _ _ _ _ H Hs) as [[Hb _]|[[_ K]|[_ K]]]; try discriminate.
    eapply In_body_node; eauto.
  Qed.

  (* ---------------------------------------------------------------- edges *)
  Lemma edge_stmts_edges m id l : edge_stmts (map (edge_stmt m id) l) = map (edge_stmt m id) l.
  Proof. unfold edge_stmts. induction l as [|e l IH]; [reflexivity|]. cbn [map filter]. cbn [edge_stmt is_edge]. rewrite IH. reflexivity. Qed.

  Lemma edge_stmts_body_gen m cfg (l : list nat) :
    edge_stmts (flat_map (fun id => if hidden m cfg id then [] else node_stmts m cfg id) l) =
    flat_map (fun id => map (edge_stmt m id) (n_inb (gn m id))) (filter (visible m cfg) l).
  Proof.
    induction l as [|id l IH]; [reflexivity|]. cbn [flat_map filter]. unfold edge_stmts in *. rewrite filter_app, IH.
    unfold visible at 2. destruct (hidden m cfg id); cbn [negb]; [reflexivity|].
    cbn [flat_map]. f_equal. unfold node_stmts. cbn [filter is_edge]. apply edge_stmts_edges.
  Qed.

  (* the drawn edges are, in order, the inbound edges of the declared nodes: nothing is missing, nothing is drawn twice *)
  Theorem edges_complete m cfg ast :
    viz_ast m cfg = Some ast ->
    edge_stmts ast = flat_map (fun id => map (edge_stmt m id) (n_inb (gn m id))) (declared_ids ast).
  Proof.
    intros H. rewrite (declared_ids_ast _ _ _ H). apply viz_ast_inv in H. destruct H as [-> _].
    unfold edge_stmts. rewrite !filter_app.
    assert (E1 : filter is_edge (clusters_ast m cfg) = []).
    { eapply filter_nil_Forall; [apply clusters_kinds|]. intros [] H; try discriminate; reflexivity. }
    assert (E2 : filter is_edge (terminal_ast m) = []).
    { eapply filter_nil_Forall; [apply terminal_kinds|]. intros [] H; try discriminate; reflexivity. }
    rewrite E1, E2, !app_nil_r. apply edge_stmts_body_gen.
  Qed.

  (* every drawn edge is an arc of the diagram, drawn below the declaration of a declared node that lists it as inbound,
     with the source, target, decision and cost of that arc *)
  Theorem edges_are_arcs m cfg ast from to best d cost :
    viz_ast m cfg = Some ast -> In (SEdge from to best d cost) ast ->
    exists id eid,
      In id (declared_ids ast) /\ In eid (n_inb (gn m id)) /\
      get_edge m eid = {| e_from := from; e_to := to; e_dec := d; e_cost := cost |} /\
      best = edge_best m id eid.
  Proof.
    intros H Hs.
    assert (Hs' : In (SEdge from to best d cost) (edge_stmts ast)).
    { unfold edge_stmts. apply filter_In. split; [exact Hs|reflexivity]. }
    rewrite (edges_complete _ _ _ H) in Hs'. apply in_flat_map in Hs'. destruct Hs' as [id [Hid Hs']].
    apply in_map_iff in Hs'. destruct Hs' as [eid [He Heid]].
    exists id, eid. split; [exact Hid|]. split; [exact Heid|].
    unfold edge_stmt in He. cbv zeta in He. inversion He; subst. split; [|reflexivity].
    destruct (get_edge m eid); reflexivity.
  Qed.

  Lemma wf_inb_lt m id eid :
    wf inp m -> (id < nnodes m)%nat -> In eid (n_inb (gn m id)) -> (eid < List.length (m_edges m))%nat.
  Proof.
    intros W Hid He. pose proof (wf_nodes _ _ W) as F. rewrite Forall_forall in F.
    assert (Hn : In (gn m id) (m_nodes m)) by (unfold get_node; apply nth_In; exact Hid).
    destruct (F _ Hn) as [_ K]. unfold ids_ok in K. rewrite Forall_forall in K. apply K. exact He.
  Qed.

  Lemma wf_edge_ends m eid :
    wf inp m -> (eid < List.length (m_edges m))%nat ->
    (e_from (get_edge m eid) < nnodes m)%nat /\ (e_to (get_edge m eid) < nnodes m)%nat.
  Proof.
    intros W He. pose proof (wf_edges _ _ W) as F. rewrite Forall_forall in F.
    apply F. unfold get_edge. apply nth_In. exact He.
  Qed.

  (* for a well-formed diagram: the arc is inbound to the declared node [to] itself, its identifier is an entry of the edge
     table, and its source is a node of the diagram, i.e. declared or hidden by the configuration *)
  Theorem edges_are_arcs_wf m cfg ast from to best d cost :
    wf inp m -> viz_ast m cfg = Some ast -> In (SEdge from to best d cost) ast ->
    In to (declared_ids ast) /\
    (exists eid, In eid (n_inb (gn m to)) /\ (eid < List.length (m_edges m))%nat /\
                 get_edge m eid = {| e_from := from; e_to := to; e_dec := d; e_cost := cost |} /\
                 best = edge_best m to eid) /\
    (from < nnodes m)%nat /\ (to < nnodes m)%nat /\
    (In from (declared_ids ast) \/ hidden m cfg from = true).
  Proof.
    intros W H Hs. destruct (edges_are_arcs _ _ _ _ _ _ _ _ H Hs) as [id [eid [Hid [Heid [Hg Hb]]]]].
    pose proof (proj1 (proj2 (declared_exactly_once _ _ _ H) id) Hid) as [Hlt _].
    pose proof (wf_inb_to _ _ W id eid Hlt Heid) as Hto. rewrite Hg in Hto. cbn in Hto. subst id.
    pose proof (wf_inb_lt _ _ _ W Hlt Heid) as Hel.
    pose proof (wf_edge_ends _ _ W Hel) as [Hf _]. rewrite Hg in Hf. cbn in Hf.
    split; [exact Hid|]. split; [exists eid; auto|]. split; [exact Hf|]. split; [exact Hlt|].
    eapply declared_or_hidden; eauto.
  Qed.

  Lemma edges_into_edge_stmts t ast : edges_into t ast = edges_into t (edge_stmts ast).
  Proof.
    unfold edges_into, edge_stmts. symmetry. apply filter_filter_impl. intros [] H; try discriminate; reflexivity.
  Qed.

  Lemma edges_into_same m id l :
    (forall eid, In eid l -> e_to (get_edge m eid) = id) ->
    edges_into id (map (edge_stmt m id) l) = map (edge_stmt m id) l.
  Proof.
    intros H. unfold edges_into. induction l as [|e l IH]; [reflexivity|]. cbn [map filter].
    cbn [edge_stmt is_edge_into]. rewrite (H e (or_introl eq_refl)), Nat.eqb_refl. rewrite IH; [reflexivity|].
    intros; apply H; right; assumption.
  Qed.

  Lemma edges_into_other m id t l :
    (forall eid, In eid l -> e_to (get_edge m eid) = id) -> id <> t ->
    edges_into t (map (edge_stmt m id) l) = [].
  Proof.
    intros H Hne. unfold edges_into. induction l as [|e l IH]; [reflexivity|]. cbn [map filter].
    cbn [edge_stmt is_edge_into]. rewrite (H e (or_introl eq_refl)).
    destruct (Nat.eqb_spec id t) as [E|_]; [contradiction|]. apply IH. intros; apply H; right; assumption.
  Qed.

  Lemma edges_into_flat_gen m t (D : list nat) :
    wf inp m -> (forall id, In id D -> (id < nnodes m)%nat) -> NoDup D ->
    edges_into t (flat_map (fun id => map (edge_stmt m id) (n_inb (gn m id))) D) =
    if in_dec Nat.eq_dec t D then map (edge_stmt m t) (n_inb (gn m t)) else [].
  Proof.
    intros W. induction D as [|id D IH]; intros Hlt ND; [reflexivity|].
    cbn [flat_map]. unfold edges_into in *. rewrite filter_app.
    inversion ND as [|? ? Hnot ND']; subst.
    rewrite IH; [|intros; apply Hlt; right; assumption|exact ND'].
    assert (Hto : forall eid, In eid (n_inb (gn m id)) -> e_to (get_edge m eid) = id).
    { intros eid He. apply (wf_inb_to _ _ W); [apply Hlt; left; reflexivity|exact He]. }
    destruct (Nat.eq_dec id t) as [E|E].
    - subst t. pose proof (edges_into_same m id _ Hto) as K. unfold edges_into in K. rewrite K.
      destruct (in_dec Nat.eq_dec id D) as [I|_]; [contradiction|].
      destruct (in_dec Nat.eq_dec id (id :: D)) as [_|N]; [apply app_nil_r|exfalso; apply N; left; reflexivity].
    - pose proof (edges_into_other m id t _ Hto E) as K. unfold edges_into in K. rewrite K. cbn [app].
      destruct (in_dec Nat.eq_dec t D) as [I|N]; destruct (in_dec Nat.eq_dec t (id :: D)) as [I'|N']; try reflexivity.
      + exfalso; apply N'; right; exact I.
      + exfalso. destruct I' as [I'|I']; [congruence|contradiction].
  Qed.

  (* conversely: below a declared node, every one of its inbound edges is drawn exactly once (and no other edge points to it) *)
  Theorem edges_into_complete m cfg ast t :
    wf inp m -> viz_ast m cfg = Some ast -> In t (declared_ids ast) ->
    edges_into t ast = map (edge_stmt m t) (n_inb (gn m t)) /\
    List.length (edges_into t ast) = List.length (n_inb (gn m t)).
  Proof.
    intros W H Ht.
    assert (E : edges_into t ast = map (edge_stmt m t) (n_inb (gn m t))).
    { rewrite edges_into_edge_stmts, (edges_complete _ _ _ H).
      destruct (declared_exactly_once _ _ _ H) as [ND Hspec].
      rewrite edges_into_flat_gen; [|exact W|intros id Hid; apply Hspec in Hid; tauto|exact ND].
      destruct (in_dec Nat.eq_dec t (declared_ids ast)); [reflexivity|contradiction]. }
    split; [exact E|]. rewrite E. apply map_length.
  Qed.

  (* no edge is drawn towards a node that is not declared *)
  Theorem edges_into_hidden m cfg ast t :
    wf inp m -> viz_ast m cfg = Some ast -> ~ In t (declared_ids ast) -> edges_into t ast = [].
  Proof.
    intros W H Ht. rewrite edges_into_edge_stmts, (edges_complete _ _ _ H).
    destruct (declared_exactly_once _ _ _ H) as [ND Hspec].
    rewrite edges_into_flat_gen; [|exact W|intros id Hid; apply Hspec in Hid; tauto|exact ND].
    destruct (in_dec Nat.eq_dec t (declared_ids ast)); [contradiction|reflexivity].
  Qed.

  (* the thick pen marks exactly the edges equal (as values) to the best edge of the node they enter *)
  Theorem best_marks m cfg ast from to best d cost :
    wf inp m -> viz_ast m cfg = Some ast -> In (SEdge from to best d cost) ast ->
    (best = true <->
     exists b, n_best (gn m to) = Some b /\
               edge_eqb {| e_from := from; e_to := to; e_dec := d; e_cost := cost |} (get_edge m b) = true).
  Proof.
    intros W H Hs. destruct (edges_are_arcs_wf _ _ _ _ _ _ _ _ W H Hs) as [_ [[eid [_ [_ [Hg Hb]]]] _]].
    subst best. unfold edge_best. rewrite Hg. destruct (n_best (gn m to)) as [b|]; cbn [option_map].
    - split; [intros E; exists b; auto|intros [b' [E1 E2]]; inversion E1; subst; exact E2].
    - split; [discriminate|intros [b' [E1 _]]; discriminate].
  Qed.

  (* ---------------------------------------------------------------- terminal *)
  Lemma terminal_drawn_spec m :
    terminal_drawn m = true <->
    last (m_layers m) [] <> [] /\ (is_pooled (ci_flavour inp) = true \/ m_best m <> None).
  Proof.
    unfold terminal_drawn, last_layer. destruct (last (m_layers m) []) as [|x l].
    - split; [discriminate|intros [C _]; congruence].
    - destruct (is_pooled (ci_flavour inp)); destruct (m_best m); cbn [orb]; split; intros K; try reflexivity;
        try discriminate; try (split; [discriminate|]; auto; right; discriminate).
      destruct K as [_ [K|K]]; [discriminate|congruence].
  Qed.

  Theorem terminal_iff m cfg ast :
    viz_ast m cfg = Some ast ->
    (In STerminalDecl ast <->
     last (m_layers m) [] <> [] /\ (is_pooled (ci_flavour inp) = true \/ m_best m <> None)) /\
    count_tdecl ast = (if terminal_drawn m then 1%nat else 0%nat).
  Proof.
    intros H. rewrite <- terminal_drawn_spec. split.
    - split.
      + intros Hs. destruct (In_ast_split _ _ _ _ H Hs) as [[_ K]|[[_ K]|[Ht _]]]; try discriminate.
        unfold terminal_ast in Ht. destruct (terminal_drawn m); [reflexivity|destruct Ht].
      + intros Hd. apply viz_ast_inv in H. destruct H as [-> _]. apply in_or_app; right. apply in_or_app; right.
        unfold terminal_ast. rewrite Hd. left; reflexivity.
    - apply viz_ast_inv in H. destruct H as [-> _]. unfold count_tdecl. rewrite !filter_app.
      assert (E1 : filter is_tdecl (body_ast m cfg) = []).
      { eapply filter_nil_Forall; [apply body_kinds|]. intros [] K; try discriminate; reflexivity. }
      assert (E2 : filter is_tdecl (clusters_ast m cfg) = []).
      { eapply filter_nil_Forall; [apply clusters_kinds|]. intros [] K; try discriminate; reflexivity. }
      rewrite E1, E2. cbn [app]. unfold terminal_ast. destruct (terminal_drawn m); [|reflexivity].
      cbn [filter is_tdecl]. cbn [List.length]. f_equal.
      induction (last_layer m) as [|x l IH]; [reflexivity|]. cbn [map filter is_tdecl]. exact IH.
  Qed.

  Lemma term_edges_ast m cfg ast :
    viz_ast m cfg = Some ast ->
    term_edges ast =
    if terminal_drawn m then map (fun id => (id, Z.eqb (n_vtop (gn m id)) (last_vmax m))) (last (m_layers m) []) else [].
  Proof.
    intros H. apply viz_ast_inv in H. destruct H as [-> _]. unfold term_edges. rewrite !flat_map_app.
    assert (E1 : flat_map term_edge_of (body_ast m cfg) = []).
    { eapply flat_map_nil_Forall; [apply body_kinds|]. intros [] K; try discriminate; reflexivity. }
    assert (E2 : flat_map term_edge_of (clusters_ast m cfg) = []).
    { eapply flat_map_nil_Forall; [apply clusters_kinds|]. intros [] K; try discriminate; reflexivity. }
    rewrite E1, E2. cbn [app]. unfold terminal_ast. destruct (terminal_drawn m); [|reflexivity].
    cbn [flat_map term_edge_of app]. fold (last_layer m).
    induction (last_layer m) as [|x l IH]; [reflexivity|]. cbn [map flat_map term_edge_of app]. rewrite IH. reflexivity.
  Qed.

  (* when the terminal is drawn there is exactly one terminal edge per node of the last layer, in order, thick exactly for
     the nodes of maximal value; when it is not drawn there is no terminal edge *)
  Theorem terminal_edges m cfg ast :
    viz_ast m cfg = Some ast ->
    (In STerminalDecl ast ->
       map fst (term_edges ast) = last (m_layers m) [] /\
       forall id b, In (id, b) (term_edges ast) ->
         (b = true <-> forall id', In id' (last (m_layers m) []) -> n_vtop (gn m id') <= n_vtop (gn m id))) /\
    (~ In STerminalDecl ast -> term_edges ast = []) /\
    (forall id b, In (STerminalEdge id b) ast <-> In (id, b) (term_edges ast)).
  Proof.
    intros H. pose proof (term_edges_ast _ _ _ H) as E.
    pose proof (proj1 (terminal_iff _ _ _ H)) as T. rewrite <- terminal_drawn_spec in T.
    split; [|split].
    - intros Hd. apply T in Hd. rewrite Hd in E. rewrite E. split.
      + rewrite map_map. cbn [fst]. apply map_id.
      + intros id b Hin. apply in_map_iff in Hin. destruct Hin as [id0 [Heq Hin]]. inversion Heq; subst id0 b. clear Heq.
        unfold last_vmax, last_layer.
        destruct (zmax_list (map (fun id => n_vtop (gn m id)) (last (m_layers m) []))) as [mx|] eqn:Z.
        * cbn [opt_default]. destruct (zmax_list_spec _ _ Z) as [I1 I2]. rewrite Z.eqb_eq. split.
          { intros Heq id' Hid'. rewrite Heq. apply I2. apply in_map_iff. exists id'. auto. }
          { intros Hall. apply in_map_iff in I1. destruct I1 as [id'' [E'' I'']].
            specialize (Hall id'' I''). rewrite E'' in Hall.
            assert (n_vtop (gn m id) <= mx) by (apply I2; apply in_map_iff; exists id; auto). lia. }
        * apply zmax_list_none in Z. apply map_eq_nil in Z. rewrite Z in Hin. destruct Hin.
    - intros Hn. destruct (terminal_drawn m); [exfalso; apply Hn; apply T; reflexivity|exact E].
    - intros id b. unfold term_edges. rewrite in_flat_map. split.
      + intros Hs. exists (STerminalEdge id b). split; [exact Hs|left; reflexivity].
      + intros [s [Hs Hin]]. destruct s; cbn in Hin; try contradiction. destruct Hin as [Hin|[]]. inversion Hin; subst. exact Hs.
  Qed.

  (* ---------------------------------------------------------------- clusters *)
  Lemma In_cluster_stmt key ids key' ids' :
    In (SCluster key ids) (cluster_stmt key' ids') -> key = key' /\ ids = ids' /\ ids <> [].
  Proof.
    destruct ids' as [|x l]; cbn; [contradiction|]. intros [H|[]]. inversion H; subst. repeat split. discriminate.
  Qed.

  Lemma In_clusters_clean m key ids i layers :
    In (SCluster key ids) (clusters_clean_ast m i layers) ->
    exists l, In l layers /\ ids = filter (is_merged_or_deleted inp m) l /\ ids <> [].
  Proof.
    revert i. induction layers as [|l ls IH]; intros i H; [destruct H|].
    cbn [clusters_clean_ast] in H. apply in_app_or in H. destruct H as [H|H].
    - apply In_cluster_stmt in H. destruct H as [_ [-> Hne]]. exists l. split; [left; reflexivity|auto].
    - destruct (IH _ H) as [l' [Hl' K]]. exists l'. split; [right; exact Hl'|exact K].
  Qed.

  (* clusters are emitted only on request, are never empty, and group merged-or-deleted nodes *)
  Theorem clusters_only_on_request m cfg ast key ids :
    viz_ast m cfg = Some ast -> In (SCluster key ids) ast ->
    show_deleted cfg = true /\ group_merged cfg = true /\ ids <> [] /\
    forall id, In id ids -> is_merged_or_deleted inp m id = true.
  Proof.
    intros H Hs. destruct (In_ast_split _ _ _ _ H Hs) as [[_ K]|[[Hc _]|[_ K]]]; try discriminate.
    unfold clusters_ast in Hc. destruct (show_deleted cfg && group_merged cfg) eqn:Hon; [|destruct Hc].
    apply andb_prop in Hon. destruct Hon as [-> ->]. split; [reflexivity|]. split; [reflexivity|].
    destruct (is_pooled (ci_flavour inp)).
    - unfold clusters_pooled_ast in Hc. cbv zeta in Hc. apply in_flat_map in Hc. destruct Hc as [dd [_ Hc]].
      apply In_cluster_stmt in Hc. destruct Hc as [_ [-> Hne]]. split; [exact Hne|].
      intros id Hid. apply filter_In in Hid. destruct Hid as [Hid _]. apply filter_In in Hid. tauto.
    - apply In_clusters_clean in Hc. destruct Hc as [l [_ [-> Hne]]]. split; [exact Hne|].
      intros id Hid. apply filter_In in Hid. tauto.
  Qed.

  (* for a well-formed diagram the members of a cluster are declared nodes *)
  Theorem clusters_only_on_request_wf m cfg ast key ids :
    wf inp m -> viz_ast m cfg = Some ast -> In (SCluster key ids) ast ->
    forall id, In id ids -> (id < nnodes m)%nat /\ In id (declared_ids ast).
  Proof.
    intros W H Hs id Hid.
    destruct (clusters_only_on_request _ _ _ _ _ H Hs) as [Hsd _].
    assert (Hlt : (id < nnodes m)%nat).
    { destruct (In_ast_split _ _ _ _ H Hs) as [[_ K]|[[Hc _]|[_ K]]]; try discriminate.
      unfold clusters_ast in Hc. destruct (show_deleted cfg && group_merged cfg); [|destruct Hc].
      destruct (is_pooled (ci_flavour inp)).
      - unfold clusters_pooled_ast in Hc. cbv zeta in Hc. apply in_flat_map in Hc. destruct Hc as [dd [_ Hc]].
        apply In_cluster_stmt in Hc. destruct Hc as [_ [-> _]].
        apply filter_In in Hid. destruct Hid as [Hid _]. apply filter_In in Hid. destruct Hid as [Hid _].
        apply in_seq in Hid. lia.
      - apply In_clusters_clean in Hc. destruct Hc as [l [Hl [-> _]]].
        apply filter_In in Hid. destruct Hid as [Hid _].
        pose proof (wf_layers _ _ W) as F. rewrite Forall_forall in F. specialize (F l Hl).
        unfold ids_ok in F. rewrite Forall_forall in F. apply F. exact Hid. }
    split; [exact Hlt|]. apply (declared_exactly_once _ _ _ H). split; [exact Hlt|left; exact Hsd].
  Qed.


  (* ================================================================ (3) light-weight syntax of the rendered string *)
  Definition show_clean (c : ascii) : Prop := forall s : St, count_char c (show s) = 0%nat.

  Lemma count_node_label c (n : @node St) cfg :
    special c -> show_clean c -> count_char c (node_label show n cfg) = 0%nat.
  Proof.
    intros Hc Hs. unfold node_label. rewrite !count_app, Hs.
    destruct (show_value cfg); destruct (show_locb cfg); destruct (show_rub cfg); destruct (show_threshold cfg);
      rewrite ?count_app, ?count_zstr, ?count_extreme by exact Hc; destruct Hc as [-> | ->]; reflexivity.
  Qed.

  Lemma count_node_group c (m : mddT) (n : @node St) : special c -> count_char c (node_group m n) = 0%nat.
  Proof.
    intros Hc. unfold node_group. destruct (n_best n); [apply count_nstr; exact Hc|]. destruct Hc as [-> | ->]; reflexivity.
  Qed.

  Lemma count_node_attributes_dq m id cfg :
    show_clean dqc -> Nat.even (count_char dqc (node_attributes show inp m id cfg)) = true.
  Proof.
    intros Hs. unfold node_attributes. cbv zeta. rewrite !count_app.
    rewrite count_node_group, count_node_label by (auto using special_dq).
    repeat match goal with |- context [if ?b then _ else _] => destruct b end; reflexivity.
  Qed.

  Lemma count_node_attributes_nl m id cfg :
    show_clean nlc -> count_char nlc (node_attributes show inp m id cfg) = 0%nat.
  Proof.
    intros Hs. unfold node_attributes. cbv zeta. rewrite !count_app.
    rewrite count_node_group, count_node_label by (auto using special_nl).
    repeat match goal with |- context [if ?b then _ else _] => destruct b end; reflexivity.
  Qed.

  Lemma syntax_ok_node m cfg id :
    show_clean dqc -> show_clean nlc -> stmt_syntax_ok (SNode id (node_attributes show inp m id cfg)).
  Proof.
    intros Hd Hn. split; [|split].
    - cbn [render_stmt]. apply line_ok_intro. repeat first [apply ends_rbracket|apply ends_app].
    - rewrite count_render_node_dq. apply count_node_attributes_dq; exact Hd.
    - rewrite count_render_node_nl, count_node_attributes_nl by exact Hn. reflexivity.
  Qed.

  Lemma syntax_ok_cluster_stmt k ids : Forall stmt_syntax_ok (cluster_stmt (nstr k) ids).
  Proof. destruct ids as [|x l]; [constructor|]. constructor; [apply syntax_ok_cluster|constructor]. Qed.

  (* every statement of the output is `tab .. ";" newline`; when the user's Debug printer emits neither a double quote nor a
     newline, every statement holds an even number of double quotes, and every statement but a cluster is a single line *)
  Theorem stmts_syntax_ok m cfg ast :
    show_clean dqc -> show_clean nlc -> viz_ast m cfg = Some ast -> Forall stmt_syntax_ok ast.
  Proof.
    intros Hd Hn H. apply viz_ast_inv in H. destruct H as [-> _].
    apply Forall_app; split; [|apply Forall_app; split].
    - unfold body_ast. apply Forall_flat_map. apply Forall_forall. intros id _.
      destruct (hidden m cfg id); [constructor|]. unfold node_stmts. constructor; [apply syntax_ok_node; assumption|].
      apply Forall_forall. intros s Hs. apply in_map_iff in Hs. destruct Hs as [e [<- _]]. apply syntax_ok_edge.
    - unfold clusters_ast. destruct (show_deleted cfg && group_merged cfg); [|constructor].
      destruct (is_pooled (ci_flavour inp)).
      + unfold clusters_pooled_ast. cbv zeta. apply Forall_flat_map. apply Forall_forall. intros d _.
        apply syntax_ok_cluster_stmt.
      + generalize 0%nat. induction (m_layers m) as [|l ls IH]; intros i; cbn [clusters_clean_ast]; [constructor|].
        apply Forall_app. split; [apply syntax_ok_cluster_stmt|apply IH].
    - unfold terminal_ast. destruct (terminal_drawn m); [|constructor]. constructor; [apply syntax_ok_tdecl|].
      apply Forall_forall. intros s Hs. apply in_map_iff in Hs. destruct Hs as [e [<- _]]. apply syntax_ok_tedge.
  Qed.

  (* ================================================================ (4) composition with as_graphviz_total / wf_compile *)
  Theorem C20_as_graphviz_faithful st_eqb tb tb2 c ds polls m cfg :
    compile st_eqb inp tb tb2 c ds polls = (m, Compiled) ->
    exists ast,
      as_graphviz show inp m cfg = Some (render ast) /\
      viz_ast m cfg = Some ast /\
      (* every node that is not hidden by the configuration is declared exactly once, with its own attributes *)
      NoDup (declared_ids ast) /\
      (forall id, In id (declared_ids ast) <->
                  (id < nnodes m)%nat /\ (show_deleted cfg = true \/ f_deleted (n_flags (gn m id)) = false)) /\
      (forall id a, In (SNode id a) ast -> a = node_attributes show inp m id cfg) /\
      (* every drawn edge is an arc of the diagram entering a declared node, from a declared or hidden node, with the
         decision and cost of that arc; thick iff equal to the best edge of its target *)
      (forall from to best d cost, In (SEdge from to best d cost) ast ->
         In to (declared_ids ast) /\
         (exists eid, In eid (n_inb (gn m to)) /\ (eid < List.length (m_edges m))%nat /\
                      get_edge m eid = {| e_from := from; e_to := to; e_dec := d; e_cost := cost |}) /\
         (from < nnodes m)%nat /\ (In from (declared_ids ast) \/ hidden m cfg from = true) /\
         (best = true <->
          exists b, n_best (gn m to) = Some b /\
                    edge_eqb {| e_from := from; e_to := to; e_dec := d; e_cost := cost |} (get_edge m b) = true)) /\
      (* every inbound edge of a declared node is drawn exactly once *)
      (forall t, In t (declared_ids ast) ->
         edges_into t ast = map (edge_stmt m t) (n_inb (gn m t)) /\
         List.length (edges_into t ast) = List.length (n_inb (gn m t))) /\
      (* the terminal node *)
      (In STerminalDecl ast <->
       last (m_layers m) [] <> [] /\ (is_pooled (ci_flavour inp) = true \/ m_best m <> None)) /\
      (In STerminalDecl ast ->
         count_tdecl ast = 1%nat /\
         map fst (term_edges ast) = last (m_layers m) [] /\
         forall id b, In (STerminalEdge id b) ast ->
           (b = true <-> forall id', In id' (last (m_layers m) []) -> n_vtop (gn m id') <= n_vtop (gn m id))) /\
      (~ In STerminalDecl ast -> forall id b, ~ In (STerminalEdge id b) ast) /\
      (* clusters *)
      (forall key ids, In (SCluster key ids) ast ->
         show_deleted cfg = true /\ group_merged cfg = true /\ ids <> [] /\
         forall id, In id ids -> is_merged_or_deleted inp m id = true /\ In id (declared_ids ast)).
  Proof.
    intros HC. pose proof (wf_compile _ _ _ _ _ _ _ _ _ HC) as W.
    pose proof (compile_layers_nonempty _ _ _ _ _ _ _ _ HC) as HL.
    destruct (viz_ast_some m cfg HL) as [ast H]. exists ast.
    split; [rewrite as_graphviz_is_render, H; reflexivity|]. split; [exact H|].
    destruct (declared_exactly_once _ _ _ H) as [ND Hspec].
    split; [exact ND|]. split; [exact Hspec|]. split; [intros id a; apply node_attrs; exact H|].
    split.
    { intros from to best d cost Hs.
      destruct (edges_are_arcs_wf _ _ _ _ _ _ _ _ W H Hs) as [A [[eid [B1 [B2 [B3 _]]]] [C1 [_ C3]]]].
      split; [exact A|]. split; [exists eid; auto|]. split; [exact C1|]. split; [exact C3|].
      eapply best_marks; eauto. }
    split; [intros t Ht; exact (edges_into_complete _ _ _ _ W H Ht)|].
    destruct (terminal_iff _ _ _ H) as [T1 T2]. destruct (terminal_edges _ _ _ H) as [E1 [E2 E3]].
    split; [exact T1|]. split.
    { intros Hd. destruct (E1 Hd) as [F1 F2]. split.
      - rewrite T2. apply T1 in Hd. apply terminal_drawn_spec in Hd. rewrite Hd. reflexivity.
      - split; [exact F1|]. intros id b Hin. apply F2. apply E3. exact Hin. }
    split.
    { intros Hn id b Hin. apply E3 in Hin. rewrite (E2 Hn) in Hin. destruct Hin. }
    intros key ids Hs. destruct (clusters_only_on_request _ _ _ _ _ H Hs) as [K1 [K2 [K3 K4]]].
    split; [exact K1|]. split; [exact K2|]. split; [exact K3|]. intros id Hid. split; [apply K4; exact Hid|].
    apply (clusters_only_on_request_wf _ _ _ _ _ W H Hs id Hid).
  Qed.

  (* syntactic well-formedness of the output of a completed compilation *)
  Theorem C20_as_graphviz_syntax st_eqb tb tb2 c ds polls m cfg :
    show_clean dqc -> show_clean nlc ->
    compile st_eqb inp tb tb2 c ds polls = (m, Compiled) ->
    exists ast,
      as_graphviz show inp m cfg = Some (render ast) /\ viz_ast m cfg = Some ast /\
      render ast = ("digraph {" ++ nl ++ tab ++ "ranksep = 3;" ++ nl ++ nl) ++ sconcat (map render_stmt ast) ++ "}" ++ nl /\
      Forall stmt_syntax_ok ast /\
      Nat.even (count_char dqc (render ast)) = true.
  Proof.
    intros Hd Hn HC. pose proof (compile_layers_nonempty _ _ _ _ _ _ _ _ HC) as HL.
    destruct (viz_ast_some m cfg HL) as [ast H]. exists ast.
    split; [rewrite as_graphviz_is_render, H; reflexivity|]. split; [exact H|]. split; [reflexivity|].
    pose proof (stmts_syntax_ok _ _ _ Hd Hn H) as F. split; [exact F|]. apply render_even_dq. exact F.
  Qed.

End VizProofs.

(* ================================================================ (5) non-vacuity: evaluation on compiled table instances *)
(* the Debug printer of the table states is clean: neither a double quote nor a newline *)
Lemma t_show_clean c : special c -> show_clean t_show c.
Proof.
  intros Hc s. unfold t_show. rewrite !count_app, count_sjoin.
  - destruct Hc as [-> | ->]; reflexivity.
  - destruct Hc as [-> | ->]; reflexivity.
  - apply Forall_forall. intros x Hx. apply in_map_iff in Hx. destruct Hx as [z [<- _]]. apply count_zstr; exact Hc.
Qed.

(* statements with the attribute lists blanked, to keep the displayed lists short *)
Definition skel (s : stmt) : stmt := match s with SNode id _ => SNode id "" | _ => s end.
Definition E (f t : nat) (b : bool) (var : nat) (val cost : Z) : stmt := SEdge f t b {| d_var := var; d_val := val |} cost.

Definition ex_root : @subproblem tstate := {| sp_state := [0]; sp_value := 0; sp_path := []; sp_ub := IMAX; sp_depth := 0 |}.
Definition cfg_on : vizconfig :=
  {| show_value := true; show_locb := true; show_rub := true; show_threshold := true; show_deleted := true; group_merged := true |}.
Definition cfg_off : vizconfig :=
  {| show_value := false; show_locb := false; show_rub := false; show_threshold := false; show_deleted := false; group_merged := false |}.

(* ex_ti (TableWf.v), clean flavour, Relaxed, width 1: layer 2 = nodes 3 4 5 merged into the new node 6 *)
Definition ex_inp1 : @cinput tstate := tb_input ex_ti CleanLEL Relaxed 1 IMIN false false 0 ex_root.
Definition ex_m1 : @mdd tstate := fst (tb_compile ex_inp1 0 0 (tb_cache_init ex_ti) (tb_dom_init ex_ti) 0).

Example ex1_compiled : compile tstate_eqb ex_inp1 0 0 (tb_cache_init ex_ti) (tb_dom_init ex_ti) 0 = (ex_m1, Compiled).
Proof. vm_compute. reflexivity. Qed.

(* show_deleted on: 9 declarations, the deleted nodes 3 4 5 with their own inbound edges, one cluster, the terminal *)
Example ex1_ast_on :
  option_map (map skel) (viz_ast t_show ex_inp1 ex_m1 cfg_on) =
  Some [SNode 0 ""; SNode 1 ""; E 0 1 true 0 0 0; SNode 2 ""; E 0 2 true 0 1 5;
        SNode 3 ""; E 2 3 true 1 0 0; SNode 4 ""; E 1 4 true 1 1 4; E 2 4 false 1 1 (-3); SNode 5 ""; E 1 5 true 1 0 0;
        SNode 6 ""; E 1 6 false 1 0 0; E 2 6 false 1 1 (-3); E 1 6 false 1 1 4; E 2 6 true 1 0 0;
        SNode 7 ""; E 6 7 true 2 0 2; SNode 8 ""; E 6 8 true 2 1 7;
        SCluster "2" [3; 4; 5; 6]%nat; STerminalDecl; STerminalEdge 7 false; STerminalEdge 8 true].
Proof. vm_compute. reflexivity. Qed.

(* show_deleted off: 6 declarations; nodes 3 4 5 and the edges entering them are gone, no cluster *)
Example ex1_ast_off :
  option_map (map skel) (viz_ast t_show ex_inp1 ex_m1 cfg_off) =
  Some [SNode 0 ""; SNode 1 ""; E 0 1 true 0 0 0; SNode 2 ""; E 0 2 true 0 1 5;
        SNode 6 ""; E 1 6 false 1 0 0; E 2 6 false 1 1 (-3); E 1 6 false 1 1 4; E 2 6 true 1 0 0;
        SNode 7 ""; E 6 7 true 2 0 2; SNode 8 ""; E 6 8 true 2 1 7;
        STerminalDecl; STerminalEdge 7 false; STerminalEdge 8 true].
Proof. vm_compute. reflexivity. Qed.

Example ex1_declared :
  option_map declared_ids (viz_ast t_show ex_inp1 ex_m1 cfg_on) = Some [0; 1; 2; 3; 4; 5; 6; 7; 8]%nat /\
  option_map declared_ids (viz_ast t_show ex_inp1 ex_m1 cfg_off) = Some [0; 1; 2; 6; 7; 8]%nat.
Proof. split; vm_compute; reflexivity. Qed.

(* the string equation, checked by evaluation on the instance (both configurations) *)
Example ex1_dot_on : tb_dot ex_inp1 ex_m1 cfg_on = option_map render (viz_ast t_show ex_inp1 ex_m1 cfg_on).
Proof. vm_compute. reflexivity. Qed.
Example ex1_dot_off : tb_dot ex_inp1 ex_m1 cfg_off = option_map render (viz_ast t_show ex_inp1 ex_m1 cfg_off).
Proof. vm_compute. reflexivity. Qed.

(* the premises of the two final theorems are met by the instance *)
Example ex1_faithful :
  exists ast, tb_dot ex_inp1 ex_m1 cfg_on = Some (render ast) /\ viz_ast t_show ex_inp1 ex_m1 cfg_on = Some ast /\
              Forall stmt_syntax_ok ast /\ Nat.even (count_char dqc (render ast)) = true.
Proof.
  unfold tb_dot.
  destruct (C20_as_graphviz_syntax t_show ex_inp1 tstate_eqb 0 0 (tb_cache_init ex_ti) (tb_dom_init ex_ti) 0 ex_m1 cfg_on
              (t_show_clean _ special_dq) (t_show_clean _ special_nl) ex1_compiled) as [ast [A [B [_ [C D]]]]].
  exists ast. exact (conj A (conj B (conj C D))).
Qed.

(* the same instance, pooled flavour: same statements *)
Definition ex_inp1p : @cinput tstate := tb_input ex_ti Pooled Relaxed 1 IMIN false false 0 ex_root.
Definition ex_m1p : @mdd tstate := fst (tb_compile ex_inp1p 0 0 (tb_cache_init ex_ti) (tb_dom_init ex_ti) 0).
Example ex1p_ast :
  snd (tb_compile ex_inp1p 0 0 (tb_cache_init ex_ti) (tb_dom_init ex_ti) 0) = Compiled /\
  option_map (map skel) (viz_ast t_show ex_inp1p ex_m1p cfg_on) = option_map (map skel) (viz_ast t_show ex_inp1 ex_m1 cfg_on).
Proof. split; vm_compute; reflexivity. Qed.

(* dead-end instances: only variable 0 has transitions, every node of layer 1 is a dead end *)
Definition dead_ti (nvars : nat) : tinst := {|
  t_nvars := nvars; t_nbase := 2; t_init := 0; t_initval := 0; t_slack := 0; t_rubkind := 0; t_domkind := 0;
  t_usevalue := false; t_ncoord := 0; t_order := seq 0 nvars;
  t_trans := [ (0%nat, 0, 0, 0, 0); (0%nat, 0, 1, 1, 5) ];
  t_notimp := []; t_rub := []; t_key := []; t_coords := []; t_mergekind := 0; t_pos := []; t_up := [] |}.
Definition dead_run (nvars : nat) (flv : flavour) :=
  let inp := tb_input (dead_ti nvars) flv Exact 10 IMIN false false 0 ex_root in
  let '(m, o) := tb_compile inp 0 0 (tb_cache_init (dead_ti nvars)) (tb_dom_init (dead_ti nvars)) 0 in
  (o, m_layers m, m_best m, option_map (map skel) (viz_ast t_show inp m cfg_on),
   match tb_dot inp m cfg_on, option_map render (viz_ast t_show inp m cfg_on) with
   | Some a, Some b => String.eqb a b | _, _ => false end).

Definition dead_ast : list stmt := [SNode 0 ""; SNode 1 ""; E 0 1 true 0 0 0; SNode 2 ""; E 0 2 true 0 1 5].

(* clean, 2 variables: the last recorded layer [1; 2] is NOT empty but no best node exists: the terminal is absent *)
Example dead2_clean : dead_run 2 CleanLEL = (Compiled, [[0]; [1; 2]]%nat, None, Some dead_ast, true).
Proof. vm_compute. reflexivity. Qed.
(* clean, 3 variables: an empty last layer is recorded: the terminal is absent *)
Example dead3_clean : dead_run 3 CleanLEL = (Compiled, [[0]; [1; 2]; []]%nat, None, Some dead_ast, true).
Proof. vm_compute. reflexivity. Qed.
(* pooled: the empty last layer is recorded: the terminal is absent *)
Example dead2_pooled : dead_run 2 Pooled = (Compiled, [[0]; [1; 2]; []]%nat, None, Some dead_ast, true).
Proof. vm_compute. reflexivity. Qed.

(* ================================================================ closed statements *)
Check @as_graphviz_is_render.
Check @declared_exactly_once.
Check @node_attrs.
Check @edges_complete.
Check @edges_are_arcs.
Check @edges_are_arcs_wf.
Check @edges_into_complete.
Check @edges_into_hidden.
Check @best_marks.
Check @terminal_iff.
Check @terminal_edges.
Check @clusters_only_on_request.
Check @clusters_only_on_request_wf.
Check @stmts_syntax_ok.
Check @render_shape.
Check @render_even_dq.
Check @C20_as_graphviz_faithful.
Check @C20_as_graphviz_syntax.

Print Assumptions as_graphviz_is_render.
Print Assumptions declared_exactly_once.
Print Assumptions node_attrs.
Print Assumptions edges_complete.
Print Assumptions edges_are_arcs.
Print Assumptions edges_are_arcs_wf.
Print Assumptions edges_into_complete.
Print Assumptions edges_into_hidden.
Print Assumptions best_marks.
Print Assumptions terminal_iff.
Print Assumptions terminal_edges.
Print Assumptions clusters_only_on_request.
Print Assumptions clusters_only_on_request_wf.
Print Assumptions stmts_syntax_ok.
Print Assumptions render_shape.
Print Assumptions render_even_dq.
Print Assumptions C20_as_graphviz_faithful.
Print Assumptions C20_as_graphviz_syntax.
Print Assumptions ex1_faithful.
Print Assumptions dead2_clean.
